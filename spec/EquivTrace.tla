------------------------------ MODULE EquivTrace ------------------------------
(***************************************************************************)
(* Paired observations (C08, C09): one trace holds several observations of *)
(* the SAME abstract scenario under different concrete presentations       *)
(* (candidate addressings, candidate restrictions, row permutations, label *)
(* encodings).  Every observation lists values keyed by an abstract key    *)
(* (sample identity, class index, ...) in a fixed-point encoding; the      *)
(* first observation is the reference, every later one must agree on all   *)
(* keys it shares with the reference (within T.band units, NaN only with   *)
(* NaN), must have the same key set when Ev.samekeys, and must make the    *)
(* same selection when the reference's best value is unique.               *)
(***************************************************************************)
EXTENDS Common, Json, IOUtils, TLCExt

Traces == JsonDeserialize(IOEnv.TRACE_FILE)
VARIABLES ref, refsel, tid, l
tvars == <<ref, refsel, tid, l>>
ASSUME \A t \in 1..Len(Traces) : TLCSet(t, 0)

T  == Traces[tid]
Ev == T.events[l]
C(name, cond) == Chk(tid, l, name, cond)
IsEvent(e) == /\ l <= Len(T.events) /\ Ev.ev = e /\ l' = l + 1 /\ tid' = tid

TInit == /\ tid \in 1..Len(Traces) /\ l = 1 /\ ref = <<>> /\ refsel = <<>>

Keys(v) == {v[i][1] : i \in DOMAIN v}
Val(v, k) == v[CHOOSE i \in DOMAIN v : v[i][1] = k][2]
Close(a, b) == IF a = NaN \/ b = NaN THEN a = b ELSE Abs(a - b) <= T.band
\* the best (largest) reference value is unique by a clear margin
UniqueBest(v) == \E k \in Keys(v) :
                    /\ Val(v, k) # NaN
                    /\ \A j \in Keys(v) \ {k} : Val(v, j) = NaN \/ Val(v, j) + 2 * T.band < Val(v, k)

TRef == /\ IsEvent("Obs") /\ ref = <<>>
        /\ ref' = Ev.vals /\ refsel' = Ev.sel

TObs == /\ IsEvent("Obs") /\ ref # <<>>
        /\ C("same-keys", Ev.samekeys => Keys(Ev.vals) = Keys(ref))
        /\ C("same-value-for-same-key",
              \A k \in Keys(Ev.vals) \cap Keys(ref) : Close(Val(Ev.vals, k), Val(ref, k)))
        /\ C("same-selection-when-best-is-unique",
              (Ev.samekeys /\ Ev.cmpsel /\ UniqueBest(ref)) => Ev.sel = refsel)
        \* (C20: the parallel wrapper derives its generator like the wrapped strategy and breaks ties over the
        \*  same array, so for equal seeds the selections agree even among tied maxima)
        /\ C("same-selection-for-equal-seeds",
              ("eqseed" \in DOMAIN Ev /\ Ev.eqseed) => Ev.sel = refsel)
        /\ UNCHANGED <<ref, refsel>>

TNext == TRef \/ TObs
TSpec == TInit /\ [][TNext]_tvars

Progress == TLCSet(tid, IF TLCGet(tid) < l THEN l ELSE TLCGet(tid))
Post == /\ PrintT(<<"VALIDATED", Len(Traces)>>)
        /\ \A t \in 1..Len(Traces) :
             IF TLCGet(t) = Len(Traces[t].events) + 1 THEN TRUE
             ELSE PrintT(<<"REJECT", t, TLCGet(t)>>)
=============================================================================
