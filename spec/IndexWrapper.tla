----------------------------- MODULE IndexWrapper -----------------------------
(***************************************************************************)
(* skactiveml/pool/utils.py : IndexClassifierWrapper (lines 36-618)        *)
(*                                                                         *)
(* The bookkeeping of the wrapper as a state machine.  A fitted model is   *)
(* abstracted to the SEQUENCE of <<sample, label, weight>> triples it must *)
(* have been trained on (order kept: scikit-learn sees the order):         *)
(*   cur   the triples behind clf_      (code: idx_, y_, sample_weight_)   *)
(*   base  the triples behind base_clf_ (code: base_idx_, base_y_, ...)    *)
(* seg / bseg cut cur / base into the calls that supplied them: with a     *)
(* native partial_fit (use_partial_fit) the estimator is fed call by call, *)
(* otherwise the wrapper refits on everything (one segment).               *)
(*                                                                         *)
(* One action per public call:                                             *)
(*   Fit         utils.py:249-330                                          *)
(*   PartialFit  utils.py:332-469 (from clf_ or from base_clf_; appending, *)
(*               or replacing earlier entries of the same sample under     *)
(*               enforce_unique_samples)                                   *)
(*   Precompute  utils.py:171-247 (fills rows x columns of pwc_K_)         *)
(*   Predict     utils.py:471-570                                          *)
(* A call the code answers with an exception is a call the specification   *)
(* does not enable: Why(op) names the reason.  "Clean" refusals happen     *)
(* before anything is written (NotFittedError, duplicate indices under     *)
(* enforce_unique_samples): the state is unchanged.  The two "dirty" ones  *)
(* (mixing None and given sample weights, utils.py:610-618; restarting     *)
(* from a base classifier that came fitted through __init__, so that the   *)
(* data behind it is unknown) are raised after idx_/clf_ were overwritten: *)
(* nothing is specified afterwards (status = "broken").                    *)
(*                                                                         *)
(* Labels: 0..K-1, Missing = -1.  Weights: positive integers, NoW = 0      *)
(* stands for "no sample weights" (None).  An empty tuple as Y / W         *)
(* argument stands for None (index lists are never empty).                 *)
(***************************************************************************)
EXTENDS Common

CONSTANTS Labels,     \* proper class labels
          Weights,    \* proper sample weights
          Cfgs,       \* configurations Init chooses from
          Args,       \* argument records [I, Y, W] of fit / partial_fit
          PreArgs,    \* argument records [F, P, fp, pp] of precompute
          Record      \* keep the history variable (generator mode)

Missing == -1
NoW     == 0

VARIABLES cfg,        \* [n, kind, su, eu, ipf, initY, initW, prefit, preI]  (never changes)
          cur, seg,   \* triples behind clf_, cut into supplying calls
          base, bseg, \* triples behind base_clf_
          fitted,     \* clf_ answers predictions
          hasBase,    \* base_clf_ exists (and is fitted)
          curKnown,   \* idx_/y_/sample_weight_ exist (refitting possible)
          baseKnown,  \* base_idx_/... exist
          kfilled,    \* filled entries <<row, column>> of pwc_K_
          status,     \* "ok" | "broken"
          last,       \* [op, setBase, why] of the last call
          gcur, gcnt, \* ghost: latest triple supplied per sample / number of
          gbase, gbcnt, \*      triples supplied, along the lineage of cur / base
          hist        \* generator mode: the calls so far with the state after each

core  == <<cur, seg, base, bseg, fitted, hasBase, curKnown, baseKnown, kfilled, gcur, gcnt, gbase, gbcnt>>
vars  == <<cfg, core, status, last, hist>>

\* ---- configuration ------------------------------------------------------
HasPF  == cfg.kind = "nb"                 \* the wrapped classifier has partial_fit
Native == HasPF /\ ~cfg.ipf               \* utils.py:128-130  use_partial_fit
SU     == cfg.su /\ cfg.kind = "pwc"      \* utils.py:160      kernel speed-up in effect
Samples == 1..cfg.n

\* <<sample, label, weight>> for a call with arguments a (utils.py:283-307,
\* 395-420): a given y overrides the stored labels, a given sample_weight
\* overrides the stored weights, no weights anywhere = NoW
Trip(c, a) == [k \in 1..Len(a.I) |->
                <<a.I[k],
                  IF a.Y = <<>> THEN c.initY[a.I[k]] ELSE a.Y[k],
                  IF a.W # <<>> THEN a.W[k]
                  ELSE IF c.initW # <<>> THEN c.initW[a.I[k]] ELSE NoW>>]
T3(a) == Trip(cfg, a)

WMode(t) == IF t[1][3] = NoW THEN "none" ELSE "given"     \* t non-empty, homogeneous
IdxOf(t) == {t[k][1] : k \in DOMAIN t}

\* last triple of t for sample i (<<>> if none)
LatestIn(t, i) == LET K == {k \in DOMAIN t : t[k][1] = i} IN
                  IF K = {} THEN <<>> ELSE t[CHOOSE k \in K : \A m \in K : m <= k]

NoArg == [I |-> <<>>, Y |-> <<>>, W |-> <<>>]
NoPre == [F |-> <<>>, P |-> <<>>, fp |-> "all", pp |-> "all"]
FitOp(a, sb)      == [op |-> "Fit", a |-> a, useBase |-> FALSE, setBase |-> sb, pre |-> NoPre]
PFOp(a, ub, sb)   == [op |-> "PartialFit", a |-> a, useBase |-> ub, setBase |-> sb, pre |-> NoPre]
PreOp(p)          == [op |-> "Precompute", a |-> NoArg, useBase |-> FALSE, setBase |-> FALSE, pre |-> p]
Ops == {FitOp(a, sb) : a \in Args, sb \in BOOLEAN}
       \cup {PFOp(a, ub, sb) : a \in Args, ub \in BOOLEAN, sb \in BOOLEAN}
       \cup {PreOp(p) : p \in PreArgs}

\* ---- initial state (utils.py:74-169) --------------------------------------
PreT(c) == Trip(c, [I |-> c.preI, Y |-> <<>>, W |-> <<>>])
InitWith(c) ==
    LET pf == c.prefit # "none"
        pb == c.prefit = "fitbase"
        t  == IF pf THEN PreT(c) ELSE <<>>
        g  == [i \in 1..c.n |-> LatestIn(t, i)]
    IN /\ cfg = c
       /\ cur = t /\ seg = (IF pf THEN <<Len(t)>> ELSE <<>>)
       /\ base = (IF pb THEN t ELSE <<>>) /\ bseg = (IF pb THEN <<Len(t)>> ELSE <<>>)
       /\ fitted = pf /\ hasBase = pb
       /\ curKnown = FALSE /\ baseKnown = FALSE      \* "unknown where it has been fitted on"
       /\ kfilled = {}
       /\ status = "ok" /\ last = [op |-> "Init", setBase |-> pb, why |-> "ok"]
       /\ gcur = g /\ gcnt = Len(t)
       /\ gbase = (IF pb THEN g ELSE [i \in 1..c.n |-> <<>>]) /\ gbcnt = (IF pb THEN Len(t) ELSE 0)
       /\ hist = <<>>

Init == \E c \in Cfgs : InitWith(c)

\* ---- is the call enabled?  (the order of the tests is the code's) ---------
Why(op) ==
    IF op.op = "Precompute" THEN "ok"
    ELSE IF cfg.eu /\ ~Distinct(op.a.I) THEN "dup"                  \* check_indices(unique='check_unique')
    ELSE IF op.op = "Fit" THEN "ok"
    ELSE IF op.useBase /\ ~hasBase THEN "notfitted"                 \* utils.py:377-383
    ELSE IF ~op.useBase /\ ~fitted THEN "notfitted"                 \* utils.py:384-389
    ELSE IF Native THEN "ok"
    ELSE IF ~curKnown THEN "notfitted"                              \* utils.py:440-445
    ELSE IF op.useBase /\ ~baseKnown THEN "baseunknown"             \* base came through __init__
    ELSE IF WMode(IF op.useBase THEN base ELSE cur) # WMode(T3(op.a)) THEN "wmix"   \* utils.py:610-618
    ELSE "ok"

Clean(why) == why \in {"dup", "notfitted"}

\* ---- the calls ------------------------------------------------------------
SetBase(sb) ==
    IF sb THEN /\ base' = cur' /\ bseg' = seg' /\ hasBase' = TRUE /\ baseKnown' = ~Native
               /\ gbase' = gcur' /\ gbcnt' = gcnt'
    ELSE UNCHANGED <<base, bseg, hasBase, baseKnown, gbase, gbcnt>>

DoFit(op) ==
    LET t == T3(op.a) IN
    /\ cur' = t /\ seg' = <<Len(t)>> /\ fitted' = TRUE
    /\ curKnown' = ~Native                                          \* utils.py:317-320
    /\ gcur' = [i \in Samples |-> LatestIn(t, i)] /\ gcnt' = Len(t)
    /\ SetBase(op.setBase)
    /\ UNCHANGED kfilled

DoPartialFit(op) ==
    LET t     == T3(op.a)
        start == IF op.useBase THEN base ELSE cur
        sseg  == IF op.useBase THEN bseg ELSE seg
        g0    == IF op.useBase THEN gbase ELSE gcur
        n0    == IF op.useBase THEN gbcnt ELSE gcnt
        kept  == IF cfg.eu /\ ~Native
                 THEN SelectSeq(start, LAMBDA x : x[1] \notin IdxOf(t))   \* utils.py:452-453
                 ELSE start
    IN /\ cur' = kept \o t
       /\ seg' = (IF Native THEN Append(sseg, Len(t)) ELSE <<Len(kept) + Len(t)>>)
       /\ fitted' = TRUE /\ curKnown' = ~Native
       /\ gcur' = [i \in Samples |-> IF i \in IdxOf(t) THEN LatestIn(t, i) ELSE g0[i]]
       /\ gcnt' = n0 + Len(t)
       /\ SetBase(op.setBase)
       /\ UNCHANGED kfilled

Sel(s, which) == {s[k] : k \in {k \in DOMAIN s :
                     \/ which = "all"
                     \/ which = "labeled" /\ cfg.initY[s[k]] # Missing
                     \/ which = "unlabeled" /\ cfg.initY[s[k]] = Missing}}

DoPrecompute(op) ==
    /\ kfilled' = (IF SU THEN kfilled \cup (Sel(op.pre.F, op.pre.fp) \X Sel(op.pre.P, op.pre.pp))
                   ELSE kfilled)
    /\ UNCHANGED <<cur, seg, base, bseg, fitted, hasBase, curKnown, baseKnown, gcur, gcnt, gbase, gbcnt>>

Snapshot == [cur |-> cur', seg |-> seg', base |-> base', bseg |-> bseg', fitted |-> fitted',
             hasBase |-> hasBase', curKnown |-> curKnown', baseKnown |-> baseKnown']

Call(op) ==
    /\ status = "ok"
    /\ LET why == Why(op) IN
       /\ IF why = "ok"
          THEN /\ CASE op.op = "Fit" -> DoFit(op)
                    [] op.op = "PartialFit" -> DoPartialFit(op)
                    [] OTHER -> DoPrecompute(op)
               /\ status' = "ok"
          ELSE /\ UNCHANGED core
               /\ status' = (IF Clean(why) THEN "ok" ELSE "broken")
       /\ last' = [op |-> op.op, setBase |-> op.setBase /\ why = "ok", why |-> why]
       /\ hist' = (IF Record
                   THEN Append(hist, [op |-> op, why |-> why, post |-> Snapshot])
                   ELSE hist)
    /\ UNCHANGED cfg

\* may sample j be predicted in state (f, ck, c, kf)?  With the speed-up the
\* kernel column of j must be filled for every training row (utils.py:484-499);
\* a classifier that came fitted through __init__ is used without speed-up.
PredOKAt(f, ck, c, kf, j) ==
    f /\ ((SU /\ ck) => \A k \in DOMAIN c : <<c[k][1], j>> \in kf)
PredOK(j) == PredOKAt(fitted, curKnown, cur, kfilled, j)

\* predict / predict_proba / predict_freq on the samples P: enabled exactly when
\* every sample may be predicted (otherwise the code raises); reads only
PredictEnabled(P) == status = "ok" /\ \A j \in P : PredOK(j)
Predict(P) == PredictEnabled(P) /\ UNCHANGED vars

Next == (\E op \in Ops : Call(op)) \/ (\E P \in (SUBSET Samples) \ {{}} : Predict(P))

Spec == Init /\ [][Next]_vars

---------------------------------------------------------------------------
\* Implied: what a fresh copy of the wrapped classifier has to be trained on
\* (as a multiset: a function triple -> multiplicity)
Multiset(t) == [x \in {t[k] : k \in DOMAIN t} |-> Cardinality({k \in DOMAIN t : t[k] = x})]
Implied     == Multiset(cur)
ImpliedBase == Multiset(base)

TripleOK(x) == /\ x[1] \in Samples
               /\ x[2] \in Labels \cup {Missing}
               /\ x[3] \in Weights \cup {NoW}
SegOK(t, s) == SumSeq(s) = Len(t) /\ \A k \in DOMAIN s : s[k] > 0

TypeOK == /\ status \in {"ok", "broken"}
          /\ fitted \in BOOLEAN /\ hasBase \in BOOLEAN
          /\ curKnown \in BOOLEAN /\ baseKnown \in BOOLEAN
          /\ kfilled \subseteq (Samples \X Samples)

\* Implied is well-formed
ImpliedWellFormed ==
    /\ \A k \in DOMAIN cur : TripleOK(cur[k])
    /\ \A k \in DOMAIN base : TripleOK(base[k])
    /\ SegOK(cur, seg) /\ SegOK(base, bseg)
    /\ (fitted <=> cur # <<>>) /\ (hasBase <=> base # <<>>)
    \* one call = one weight mode; a refitted model has one segment and one mode
    /\ ~Native => /\ Len(seg) <= 1 /\ Len(bseg) <= 1
                  /\ \A k \in DOMAIN cur : (cur[k][3] = NoW) <=> (cur[1][3] = NoW)
                  /\ \A k \in DOMAIN base : (base[k][3] = NoW) <=> (base[1][3] = NoW)
    /\ curKnown => fitted /\ ~Native
    /\ baseKnown => hasBase /\ curKnown

\* enforce_unique_samples (refitting mode): every sample at most once, and the
\* triple kept for it is the one supplied last (ghost gcur: "latest wins")
LatestWins ==
    (cfg.eu /\ curKnown) =>
        /\ \A j, k \in DOMAIN cur : j # k => cur[j][1] # cur[k][1]
        /\ \A k \in DOMAIN cur : cur[k] = gcur[cur[k][1]]
        /\ IdxOf(cur) = {i \in Samples : gcur[i] # <<>>}
LatestWinsBase ==
    (cfg.eu /\ baseKnown) =>
        /\ \A j, k \in DOMAIN base : j # k => base[j][1] # base[k][1]
        /\ \A k \in DOMAIN base : base[k] = gbase[base[k][1]]
\* without it (or with a native partial_fit) nothing is ever dropped
NothingDropped ==
    ((~cfg.eu \/ Native) /\ fitted) => /\ Len(cur) = gcnt
                                      /\ \A i \in Samples : gcur[i] = LatestIn(cur, i)
NothingDroppedBase ==
    ((~cfg.eu \/ Native) /\ hasBase) => Len(base) = gbcnt

\* the base model changes only through set_base_clf (action property)
BaseStable == [][(base' # base \/ bseg' # bseg \/ hasBase' # hasBase \/ baseKnown' # baseKnown)
                    => last'.setBase]_vars
\* ... and then it is exactly the current model
BaseIsCopy == last.setBase /\ last.op # "Init" => base = cur /\ bseg = seg
\* a refused call leaves everything as it was; only dirty refusals break
RefusalPure == [][(last'.why \notin {"ok"}) => UNCHANGED core]_vars
BrokenOnlyDirty == status = "broken" => last.why \in {"wmix", "baseunknown"}
\* the kernel matrix only grows, and only with the speed-up in effect
KernelMonotone == [][kfilled \subseteq kfilled']_vars
KernelOnlySU == ~SU => kfilled = {}
\* an enabled prediction never reads an unfilled kernel entry; a fitted
\* wrapper without speed-up predicts everywhere; an unfitted one nowhere
PredictCovered ==
    \A P \in (SUBSET Samples) \ {{}} :
        /\ (PredictEnabled(P) /\ SU /\ curKnown) =>
              \A j \in P : \A k \in DOMAIN cur : <<cur[k][1], j>> \in kfilled
        /\ (status = "ok" /\ fitted /\ ~SU) => PredictEnabled(P)
        /\ ~fitted => ~PredictEnabled(P)
=============================================================================
