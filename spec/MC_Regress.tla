----------------------------- MODULE MC_Regress -----------------------------
EXTENDS Regress, Json
MCObs == {<<0, 0>>, <<0, 5>>, <<0, 6>>, <<0, -3>>, <<1, 0>>}
MCDig == {1, 2}
ASSUME TableTotal
ASSUME TableNoDeadRow
ASSUME TableConsistent
\* generator: every case of the table
GenCase == PrintT(ToJson([kind |-> case.kind, nLab |-> case.nLab, prior |-> case.prior,
                          retStd |-> case.retStd, retEnt |-> case.retEnt,
                          row |-> Rows[CHOOSE i \in RowsOf(case) : TRUE].name])) /\ FALSE
GenInit == \E c \in Cases : InitWith(c, <<0, 0>>)
GenSpec == GenInit /\ [][Next]_vars
=============================================================================
