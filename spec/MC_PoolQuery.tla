---------------------------- MODULE MC_PoolQuery ----------------------------
EXTENDS PoolQuery
MCVals == {-1, 0, 1}
\* skip the scorings under which a sampling strategy has no positive mass
NotStuck == ~Stuck
=============================================================================
