SPECIFICATION Spec
CONSTANTS
  Priors <- MCPriors
  KVals <- MCKVals
  YVals = {0, 1, 3}
  WVals = {1, 2}
  MaxLab = 2
  IgnoreWeights = FALSE
CONSTRAINT GenCase
CHECK_DEADLOCK FALSE
