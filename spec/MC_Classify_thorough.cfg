SPECIFICATION Spec
CONSTANTS
  MaxK = 3
  FreqVals = {0, 1}
  PriorVals = {0, 1}
  CostVals = {0, 1, 2}
  CostVals3 = {0, 1, 2}
  DecodeInCostBranch = TRUE
  ArgminWhenUnfitted = TRUE
INVARIANT TypeOK
INVARIANT Simplex
INVARIANT Order
INVARIANT CostSemantics
INVARIANT PredictInClasses
INVARIANT PredictMinimisesCost
INVARIANT TieFair
INVARIANT UniformNoLabels
CHECK_DEADLOCK FALSE
