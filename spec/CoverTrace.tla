------------------------------ MODULE CoverTrace ------------------------------
(* Batch validation of recorded ProbCover queries (single radius) on points *)
(* of the integer line: every batch step must be the step Cover.tla         *)
(* computes.                                                                *)
EXTENDS Cover, Json, IOUtils, TLCExt
Traces == JsonDeserialize(IOEnv.TRACE_FILE)
VARIABLES tid, l
tvars == <<vars, tid, l>>
ASSUME \A t \in 1..Len(Traces) : TLCSet(t, 0)
T  == Traces[tid]
Ev == T.events[l]
C(name, cond) == Chk(tid, l, name, cond)
IsEvent(e) == /\ l <= Len(T.events) /\ Ev.ev = e /\ l' = l + 1 /\ tid' = tid
ToSet(s) == {s[i] : i \in DOMAIN s}
TInit == /\ tid \in 1..Len(Traces) /\ l = 1
         /\ U = Traces[tid].U /\ delta = Traces[tid].delta
         /\ cands = ToSet(Traces[tid].cands) /\ bs = Traces[tid].bs
         /\ picks = <<>> /\ rows = <<>>
TStep == /\ IsEvent("Step")
         /\ LET r == Row(picks) IN
            /\ C("batch-not-longer-than-requested", Len(picks) < bs)
            /\ C("row-counts-the-newly-covered-points", Ev.row = r)
            /\ C("pick-maximises-the-row", Ev.p \in ArgmaxSet(r))
            /\ C("not-selected-twice", Ev.p \notin Range(picks))
            /\ rows' = Append(rows, r)
         /\ picks' = Append(picks, Ev.p)
         /\ UNCHANGED <<U, delta, cands, bs>>
TDone == /\ IsEvent("Done")
         /\ C("batch-size", Ev.n = bs /\ Len(picks) = bs)
         /\ UNCHANGED vars
TNext == TStep \/ TDone
TSpec == TInit /\ [][TNext]_tvars
Progress == TLCSet(tid, IF TLCGet(tid) < l THEN l ELSE TLCGet(tid))
Post == /\ PrintT(<<"VALIDATED", Len(Traces)>>)
        /\ \A t \in 1..Len(Traces) :
             IF TLCGet(t) = Len(Traces[t].events) + 1 THEN TRUE
             ELSE PrintT(<<"REJECT", t, TLCGet(t)>>)
=============================================================================
