SPECIFICATION GenSpec
CONSTANTS
  MaxK = 3
  FreqVals = {0, 1, 2, 5}
  PriorVals = {0, 1}
  CostVals = {0, 1, 2}
  CostVals3 = {0, 1, 2}
  DecodeInCostBranch = TRUE
  ArgminWhenUnfitted = TRUE
CONSTRAINT GenCase
CHECK_DEADLOCK FALSE
