---------------------------- MODULE SlidingWindow ----------------------------
(***************************************************************************)
(* skactiveml/classifier/_wrapper.py : SlidingWindowClassifier (beyond the *)
(* listed properties).  The wrapper keeps the latest `window_size`         *)
(* training samples in three parallel deques (X_train_, y_train_,          *)
(* sample_weight_train_) and refits a fresh copy of the wrapped estimator  *)
(* on the window at every fit / partial_fit:                               *)
(*                                                                         *)
(*   _add_samples(fit_func, X, y, sample_weight)                           *)
(*     only_labeled      -> the batch is filtered to its labeled samples   *)
(*     fit_func = "fit"  -> the three deques are recreated (empty)         *)
(*     X_train_.extend(X); y_train_.extend(y)                              *)
(*     sample_weight given  -> sample_weight_train_.extend(sample_weight)  *)
(*     sample_weight absent -> sample_weight_train_ = None                 *)
(*   _fit: estimator_ = deepcopy(estimator).fit(window)                    *)
(*                                                                         *)
(* One action per public call.  Code-shaped facts modelled on purpose:     *)
(*   - a call without weights forgets the weights of the whole window      *)
(*     (wmode "none"); this is sticky for partial_fit: a later             *)
(*     partial_fit WITH weights finds sample_weight_train_ = None and      *)
(*     raises AttributeError AFTER X_train_ / y_train_ were extended and   *)
(*     BEFORE the estimator is refitted (action PartialFit, branch         *)
(*     `raises`): the window moves on, the model stays the one of the      *)
(*     previous call;                                                      *)
(*   - only fit resets that state.                                         *)
(* Samples are identified by consecutive ids (the harness gives every id   *)
(* its own feature vector); a label is 0, 1 or M (missing); the weight of  *)
(* sample id is 1 + id % 2.                                                *)
(***************************************************************************)
EXTENDS Common

CONSTANTS WSizes,      \* window sizes explored; 0 stands for window_size=None
          MaxOps,      \* number of public calls per history
          MaxBatch,    \* samples per call: 0..MaxBatch
          DropNewest   \* deviation switch (vacuity guard): truncate at the wrong end

M == -1
Labels == {M, 0, 1}

VARIABLES wsize, onlyLab,   \* constructor parameters (never change)
          win,              \* the window: sequence of [id, lab]
          wmode,            \* "unset" | "weights" | "none" : state of sample_weight_train_
          mwin, mmode,      \* the training set / weight mode the current estimator_ was fitted on
          stream,           \* history variable: filtered samples seen since the last fit
          nid,              \* next sample id
          hist,             \* history variable: the calls made
          raised            \* did the last call raise
vars == <<wsize, onlyLab, win, wmode, mwin, mmode, stream, nid, hist, raised>>

Weight(id) == 1 + (id % 2)
Filter(b) == IF onlyLab THEN SelectSeq(b, LAMBDA s : s.lab # M) ELSE b
Trunc(s) == IF wsize = 0 \/ Len(s) <= wsize THEN s
            ELSE IF DropNewest THEN SubSeq(s, 1, wsize)
            ELSE SubSeq(s, Len(s) - wsize + 1, Len(s))
MkBatch(labs) == [i \in 1..Len(labs) |-> [id |-> nid + i - 1, lab |-> labs[i]]]
Batches == UNION {[1..n -> Labels] : n \in 0..MaxBatch}

Init == /\ wsize \in WSizes /\ onlyLab \in BOOLEAN
        /\ win = <<>> /\ wmode = "unset" /\ mwin = <<>> /\ mmode = "unfitted"
        /\ stream = <<>> /\ nid = 1 /\ hist = <<>> /\ raised = FALSE

Fit(labs, withW) ==
    LET b == Filter(MkBatch(labs)) IN
    /\ win' = Trunc(b)
    /\ wmode' = IF withW THEN "weights" ELSE "none"
    /\ mwin' = win' /\ mmode' = wmode'
    /\ stream' = b
    /\ raised' = FALSE
    /\ nid' = nid + Len(labs)
    /\ hist' = Append(hist, [op |-> "Fit", labs |-> labs, withW |-> withW])
    /\ UNCHANGED <<wsize, onlyLab>>

PartialFit(labs, withW) ==
    LET b == Filter(MkBatch(labs))
        raises == withW /\ wmode = "none" IN
    /\ win' = Trunc(win \o b)
    /\ stream' = stream \o b
    /\ wmode' = IF withW /\ ~raises THEN "weights" ELSE "none"
    /\ raised' = raises
    /\ IF raises THEN UNCHANGED <<mwin, mmode>> ELSE mwin' = win' /\ mmode' = wmode'
    /\ nid' = nid + Len(labs)
    /\ hist' = Append(hist, [op |-> "PartialFit", labs |-> labs, withW |-> withW])
    /\ UNCHANGED <<wsize, onlyLab>>

Next == /\ Len(hist) < MaxOps
        /\ \E labs \in Batches, withW \in BOOLEAN : Fit(labs, withW) \/ PartialFit(labs, withW)
Spec == Init /\ [][Next]_vars

\* ---- properties ----------------------------------------------------------
IsSuffix(s, t) == Len(s) <= Len(t) /\ s = SubSeq(t, Len(t) - Len(s) + 1, Len(t))
TypeOK == /\ wmode \in {"unset", "weights", "none"}
          /\ \A i \in DOMAIN win : win[i].lab \in Labels
Bound == wsize > 0 => Len(win) <= wsize
\* the window is exactly the latest min(wsize, .) filtered samples since the last fit
LatestSamples == /\ IsSuffix(win, stream)
                 /\ (wsize = 0 => win = stream)
                 /\ (wsize > 0 => Len(win) = Min2(wsize, Len(stream)))
OnlyLabeledKept == onlyLab => \A i \in DOMAIN win : win[i].lab # M
\* after a successful call the estimator is the one fitted on the window
ModelFollowsWindow == (hist # <<>> /\ ~raised) => (mwin = win /\ mmode = wmode)
\* a call that raises leaves the previous estimator in place
FailedCallKeepsModel == [][raised' => UNCHANGED <<mwin, mmode>>]_vars
=============================================================================
