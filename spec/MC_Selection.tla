---------------------------- MODULE MC_Selection ----------------------------
EXTENDS Selection, Json
MCVals == {-1, 0, 1, 2}
\* generator mode (Selection_gen.cfg): every initial state is printed as one
\* JSON case and not explored further
GenCase == PrintT(ToJson([util |-> util0, bs |-> bs0, method |-> method])) /\ FALSE
=============================================================================
