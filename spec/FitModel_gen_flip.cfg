INIT HistInit
NEXT HistNext
CONSTANTS
  DataSets <- MCFlipDataSets
  ParamVals <- MCParamVals1
  Kinds = {"plain"}
  WindowSizes = {0}
  MaxDepth = 3
  WriteBack = FALSE
  FitOnAll = FALSE
  StaleWindow = FALSE
  GenN = 1
  GenA = 1
  GenSetParams = FALSE
CHECK_DEADLOCK FALSE
CONSTRAINT GenHist
