-------------------------------- MODULE Budget -------------------------------
(***************************************************************************)
(* Budget accounting of the stream side of scikit-activeml.                *)
(*                                                                         *)
(*   skactiveml/stream/budgetmanager/_estimated_budget_zliobaite.py        *)
(*       Fixed, Variable, RandomVariable, Split, Random                    *)
(*   skactiveml/stream/budgetmanager/_threshold_budget.py   DensitySplit   *)
(*   skactiveml/stream/budgetmanager/_balanced_incremental_quantile_filter *)
(*       BIQF                                                              *)
(*   skactiveml/stream/_stream_baselines.py   Periodic, StreamRandom       *)
(*                                                                         *)
(* Committed state `cm` = the attributes with a trailing underscore; `tmp`  *)
(* = the temporaries of one query_by_utility simulation.  One instance of  *)
(* a query loop is SimStep, one instance of an update loop is CommitStep;  *)
(* both are operators so that the model checker (one action per loop       *)
(* iteration) and the trace specification (a fold per public call) share   *)
(* one definition.                                                         *)
(*                                                                         *)
(* Numbers are exact rationals <<num, den>> (the conformance harness only  *)
(* uses parameters for which the float computation is exact, DESIGN 2.2).  *)
(* Random numbers: the uniform stream of the manager's generator is an     *)
(* environment input `rnd` (per position the Booleans the code can         *)
(* observe); decisions that depend on normal deviates are environment      *)
(* choices (`want`).                                                       *)
(***************************************************************************)
EXTENDS Common

\* ---- parameters of one manager (a record) -------------------------------
\* P.kind   : "Fixed" | "Variable" | "RandomVariable" | "Split" | "Random"
\*            | "DensitySplit" | "BIQF" | "Periodic" | "StreamRandom"
\* P.W      : window size w                 P.B : budget <<num, den>>
\* P.S      : step s of the threshold       P.Theta0 : initial threshold
\* P.K      : number of classes (Fixed)     P.WTol : w_tol (BIQF)
\* P.Allow  : allow_exceeding_budget (StreamRandom)
\* P.Stale  : code-shaped deviation switch: the update loop tests the budget
\*            with the value u_t_ had when update was entered
\*            (_estimated_budget_zliobaite.py:323-329, 441-447 at the pinned
\*            commit); FALSE is the reference semantics

One  == <<1, 1>>
Zero == <<0, 1>>

InitState(P) ==
    [u |-> Zero, th |-> P.Theta0, t |-> 0, cnt |-> 0, obs |-> 0, qd |-> 0,
     hist |-> <<>>, pos |-> 0]

WindowKinds == {"Fixed", "Variable", "RandomVariable", "Split", "Random"}
ThetaKinds  == {"Variable", "RandomVariable", "Split", "DensitySplit"}
OracleKinds == {"RandomVariable", "DensitySplit"}      \* decisions use normal deviates

Decay(P, u, d) == RatAdd(RatMul(u, <<P.W - 1, P.W>>), IF d THEN One ELSE Zero)
Down(P, th) == RatMul(th, RatSub(One, P.S))
Up(P, th)   == RatMul(th, RatAdd(One, P.S))

\* u_t / w < budget  (strict, as in the code)
LeftW(P, u) == RatLess(RatMul(u, <<1, P.W>>), P.B)

\* a NaN utility is the pair <<0, 0>> (TLC cannot mix integers and tuples)
NaNR == <<0, 0>>
\* confidence = 1 - utility ; NaN compares false
Conf(x) == RatSub(One, x)
ConfLess(x, th) == x # NaNR /\ RatLess(Conf(x), th)
ConfLeq(x, th)  == x # NaNR /\ RatLeq(Conf(x), th)

\* the decision "confidence < theta * eta" with eta ~ N(1, delta): an environment choice (`want`, read off the
\* observed result) in general; with a negligible delta (P.Sharp: the harness constructs the manager with
\* delta = 1e-9) the deviate decides exact ties only; a NaN confidence never compares true
WantEff(P, x, th, want) ==
    IF x = NaNR THEN FALSE
    ELSE IF P.Sharp /\ ~RatEq(Conf(x), th) THEN RatLess(Conf(x), th)
    ELSE want

ThetaFixed(P) == RatAdd(<<1, P.K>>, RatMul(P.B, RatSub(One, <<1, P.K>>)))

\* ---- BIQF helpers ---------------------------------------------------------
RECURSIVE InsertSorted(_, _)
InsertSorted(s, x) == IF s = <<>> THEN <<x>>
                      ELSE IF RatLeq(x, Head(s)) THEN <<x>> \o s
                      ELSE <<Head(s)>> \o InsertSorted(Tail(s), x)
RECURSIVE SortRat(_)
SortRat(s) == IF s = <<>> THEN <<>> ELSE InsertSorted(SortRat(Tail(s)), Head(s))
PushWindow(P, h, x) == IF Len(h) >= P.W THEN Tail(h) \o <<x>> ELSE h \o <<x>>
\* numpy.quantile(a, q), default linear interpolation
Quantile(srt, q) ==
    LET m  == Len(srt)
        h  == RatMul(q, <<m - 1, 1>>)                 \* virtual index (0-based)
        lo == h[1] \div h[2]
        fr == RatSub(h, <<lo, 1>>)
        hi == IF fr[1] = 0 THEN lo ELSE lo + 1
    IN RatAdd(srt[lo + 1], RatMul(RatSub(srt[hi + 1], srt[lo + 1]), fr))

\* ---- one instance of the simulation loop ---------------------------------
\* st: state record, x: utility (rational or NaN), rnd: uniform stream,
\* want: environment choice for kinds whose decision uses a normal deviate.
\* Result: [st |-> new temporaries, d |-> decision]
SimStep(P, st, x, rnd, want) ==
    CASE P.kind = "Fixed" ->
           LET d == LeftW(P, st.u) /\ ConfLeq(x, ThetaFixed(P))
           IN [st |-> [st EXCEPT !.u = Decay(P, st.u, d)], d |-> d]
      [] P.kind \in {"Variable", "RandomVariable"} ->
           LET left == LeftW(P, st.u)
               d == left /\ (IF P.kind = "Variable" THEN ConfLess(x, st.th) ELSE WantEff(P, x, st.th, want))
               th2 == IF ~left THEN st.th ELSE IF d THEN Down(P, st.th) ELSE Up(P, st.th)
           IN [st |-> [st EXCEPT !.u = Decay(P, st.u, d), !.th = th2], d |-> d]
      [] P.kind = "Split" ->
           LET left == LeftW(P, st.u)
               rv   == left /\ rnd[st.pos + 1].vgt         \* v > random_val
               d == IF ~left THEN FALSE
                    ELSE IF rv THEN rnd[st.pos + 2].leb    \* new_u <= budget
                    ELSE ConfLess(x, st.th)
               th2 == IF ~left \/ rv THEN st.th
                      ELSE IF d THEN Down(P, st.th) ELSE Up(P, st.th)
               pos2 == IF ~left THEN st.pos ELSE IF rv THEN st.pos + 2 ELSE st.pos + 1
           IN [st |-> [st EXCEPT !.u = Decay(P, st.u, d), !.th = th2, !.pos = pos2], d |-> d]
      [] P.kind = "Random" ->
           LET d == rnd[st.pos + 1].leb /\ LeftW(P, st.u) /\ x # NaNR
           IN [st |-> [st EXCEPT !.u = Decay(P, st.u, d), !.pos = st.pos + 1], d |-> d]
      [] P.kind = "DensitySplit" ->
           LET t2 == st.t + 1
               left == RatLess(<<st.cnt, t2>>, P.B)        \* budget > u / t
               d == left /\ WantEff(P, x, st.th, want)
               th2 == IF ~left THEN st.th ELSE IF d THEN Down(P, st.th) ELSE Up(P, st.th)
           IN [st |-> [st EXCEPT !.t = t2, !.cnt = st.cnt + (IF d THEN 1 ELSE 0), !.th = th2],
               d |-> d]
      [] P.kind = "Periodic" ->
           LET o2 == st.obs + 1
               rem == RatSub(RatMul(<<o2, 1>>, P.B), <<st.qd, 1>>)
               d == RatLeq(One, rem)                        \* remaining_budget >= 1
           IN [st |-> [st EXCEPT !.obs = o2, !.qd = st.qd + (IF d THEN 1 ELSE 0)], d |-> d]
      [] P.kind = "StreamRandom" ->
           LET o2 == st.obs + 1
               av == RatSub(RatMul(<<o2, 1>>, P.B), <<st.qd, 1>>)
               d == (P.Allow \/ RatLess(One, av)) /\ rnd[st.pos + 1].geb   \* utility >= 1 - budget
           IN [st |-> [st EXCEPT !.obs = o2, !.qd = st.qd + (IF d THEN 1 ELSE 0),
                                 !.pos = st.pos + 1], d |-> d]
      [] P.kind = "BIQF" ->
           LET o2 == st.obs + 1
               h2 == PushWindow(P, st.hist, x)
               srt == SortRat(h2)
               theta == Quantile(srt, RatSub(One, P.B))
               range == RatSub(srt[Len(srt)], srt[1])
               acq == RatSub(RatMul(P.B, <<o2, 1>>), <<st.qd, 1>>)
               bal == RatSub(theta, RatMul(range, RatMul(acq, <<P.WTol[2], P.WTol[1]>>)))
               d == RatLeq(bal, x)                          \* u >= theta_bal
           IN [st |-> [st EXCEPT !.obs = o2, !.hist = h2, !.qd = st.qd + (IF d THEN 1 ELSE 0)],
               d |-> d]

\* ---- one instance of the update loop --------------------------------------
\* q: was the instance queried; x: its utility (only BIQF's update is given
\* utilities); u0: u_t_ at entry of update (for the Stale deviation).
CommitStep(P, st, q, x, rnd, u0) ==
    CASE P.kind \in {"Fixed", "Random"} ->
           [st EXCEPT !.u = Decay(P, st.u, q),
                      !.pos = IF P.kind = "Random" THEN st.pos + 1 ELSE st.pos]
      [] P.kind \in {"Variable", "RandomVariable"} ->
           LET left == LeftW(P, IF P.Stale THEN u0 ELSE st.u)
               th2 == IF ~left THEN st.th ELSE IF q THEN Down(P, st.th) ELSE Up(P, st.th)
           IN [st EXCEPT !.u = Decay(P, st.u, q), !.th = th2,
                         !.pos = IF P.kind = "RandomVariable" THEN st.pos + 1 ELSE st.pos]
      [] P.kind = "Split" ->
           LET left == LeftW(P, st.u)
               rv   == left /\ rnd[st.pos + 1].vgt
               th2 == IF ~left \/ rv THEN st.th
                      ELSE IF q THEN Down(P, st.th) ELSE Up(P, st.th)
               pos2 == IF ~left THEN st.pos ELSE IF rv THEN st.pos + 2 ELSE st.pos + 1
           IN [st EXCEPT !.u = Decay(P, st.u, q), !.th = th2, !.pos = pos2]
      [] P.kind = "DensitySplit" ->
           LET t2 == st.t + 1
               left == RatLess(<<st.cnt, t2>>, P.B)
               th2 == IF ~left THEN st.th ELSE IF q THEN Down(P, st.th) ELSE Up(P, st.th)
           IN [st EXCEPT !.t = t2, !.cnt = st.cnt + (IF q THEN 1 ELSE 0), !.th = th2,
                         !.pos = st.pos + 1]
      [] P.kind = "Periodic" ->
           [st EXCEPT !.obs = st.obs + 1, !.qd = st.qd + (IF q THEN 1 ELSE 0)]
      [] P.kind = "StreamRandom" ->
           [st EXCEPT !.obs = st.obs + 1, !.qd = st.qd + (IF q THEN 1 ELSE 0), !.pos = st.pos + 1]
      [] P.kind = "BIQF" ->
           [st EXCEPT !.obs = st.obs + 1, !.qd = st.qd + (IF q THEN 1 ELSE 0),
                      !.hist = PushWindow(P, st.hist, x)]

\* ---- folds: a whole public call -------------------------------------------
\* decisions of query_by_utility(chunk) from state st; wants[i] is consulted
\* only by the OracleKinds
RECURSIVE SimFold(_, _, _, _, _, _)
SimFold(P, st, chunk, rnd, wants, i) ==
    IF i > Len(chunk) THEN [st |-> st, dec |-> <<>>]
    ELSE LET r == SimStep(P, st, chunk[i], rnd, wants[i])
             rest == SimFold(P, r.st, chunk, rnd, wants, i + 1)
         IN [st |-> rest.st, dec |-> <<r.d>> \o rest.dec]

RECURSIVE CommitFold(_, _, _, _, _, _, _)
CommitFold(P, st, qs, xs, rnd, u0, i) ==
    IF i > Len(qs) THEN st
    ELSE CommitFold(P, CommitStep(P, st, qs[i], xs[i], rnd, u0), qs, xs, rnd, u0, i + 1)

\* ---- C04 bounds on the number of granted labels among the first n ---------
\* window kinds:  granted <= B*n + n/W + B*W + 1
BoundWindow(P, granted, n) ==
    granted * P.B[2] * P.W <= P.B[1] * n * P.W + n * P.B[2] + P.B[1] * P.W * P.W + P.B[2] * P.W
BoundDensity(P, granted, n) == granted * P.B[2] <= P.B[1] * n + P.B[2]
BoundStrict(P, granted, n)  == granted * P.B[2] <= P.B[1] * n
HasBound(P) == \/ P.kind \in WindowKinds \/ P.kind \in {"DensitySplit", "Periodic"}
               \/ (P.kind = "StreamRandom" /\ ~P.Allow)
NoOverspendAt(P, granted, n) ==
    CASE P.kind \in WindowKinds -> BoundWindow(P, granted, n)
      [] P.kind = "DensitySplit" -> BoundDensity(P, granted, n)
      [] P.kind = "Periodic" -> BoundStrict(P, granted, n)
      [] P.kind = "StreamRandom" /\ ~P.Allow -> BoundStrict(P, granted, n)
      [] OTHER -> TRUE
=============================================================================
