SPECIFICATION TSpec
CONSTANTS
  MaxN = 0
  Vals = {}
CONSTRAINT Progress
INVARIANT BatchOK
INVARIANT NeverLabeledUnoffered
POSTCONDITION Post
CHECK_DEADLOCK FALSE
