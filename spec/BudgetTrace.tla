----------------------------- MODULE BudgetTrace -----------------------------
(***************************************************************************)
(* Batch validation of traces recorded from the real budget managers and   *)
(* baseline stream strategies (harness/drivers/budget_common.py): one      *)
(* event per public call, logged after the call together with the          *)
(* projected committed state.                                              *)
(*   Query  : query_by_utility(chunk) / query(candidates) returned res     *)
(*   Update : update(candidates, queried) returned                         *)
(* Every event must be the step the specification computes with the folds  *)
(* of Budget.tla; C03/C04/C10 are clauses of these two actions.            *)
(***************************************************************************)
EXTENDS Budget, Json, IOUtils, TLCExt

Traces == JsonDeserialize(IOEnv.TRACE_FILE)

VARIABLES cm, n, granted, last, tid, l
tvars == <<cm, n, granted, last, tid, l>>

ASSUME \A t \in 1..Len(Traces) : TLCSet(t, 0)

T  == Traces[tid]
P  == T.P
Ev == T.events[l]
C(name, cond) == Chk(tid, l, name, cond)
IsEvent(e) == /\ l <= Len(T.events) /\ Ev.ev = e /\ l' = l + 1 /\ tid' = tid

NoLast == [valid |-> FALSE, chunk |-> <<>>, res |-> <<>>]

TInit == /\ tid \in 1..Len(Traces) /\ l = 1
         /\ cm = InitState(Traces[tid].P) /\ n = 0 /\ granted = 0 /\ last = NoLast

\* projected committed state as logged by the harness
StOf(s) == [u |-> s.u, th |-> s.th, t |-> s.t, cnt |-> s.cnt, obs |-> s.obs, qd |-> s.qd,
            hist |-> s.hist, pos |-> s.pos]

Indices(dec) == LET S == {i \in DOMAIN dec : dec[i]} IN
                [k \in 1..Cardinality(S) |->
                    CHOOSE i \in S : Cardinality({j \in S : j < i}) = k - 1]
InSeq(x, s) == \E k \in DOMAIN s : s[k] = x

TQuery ==
    /\ IsEvent("Query")
    /\ LET chunk == Ev.chunk
           wants == [i \in 1..Len(chunk) |-> InSeq(i, Ev.res)]
           sim   == SimFold(P, cm, chunk, T.rnd, wants, 1)
       IN /\ C("indices-strictly-increasing-in-range",
                /\ \A k \in DOMAIN Ev.res : Ev.res[k] \in 1..Len(chunk)
                /\ \A k \in 1..(Len(Ev.res) - 1) : Ev.res[k] < Ev.res[k + 1])
          /\ C("utilities-one-per-candidate", Ev.nutil = Len(chunk))
          /\ C("result-equals-simulation", Indices(sim.dec) = Ev.res)
          /\ C("query-leaves-state-unchanged", StOf(Ev.st) = cm)
          /\ C("repeated-query-same-result",
                (last.valid /\ last.chunk = chunk) => last.res = Ev.res)
          /\ last' = [valid |-> TRUE, chunk |-> chunk, res |-> Ev.res]
    /\ UNCHANGED <<cm, n, granted>>

CountUpTo(qs, k) == Cardinality({i \in 1..k : qs[i]})

TUpdate ==
    /\ IsEvent("Update")
    /\ LET len == Ev.len
           qs  == [i \in 1..len |-> InSeq(i, Ev.q)]
           xs  == IF P.kind = "BIQF" THEN Ev.xs ELSE [i \in 1..len |-> Zero]
           new == CommitFold(P, cm, qs, xs, T.rnd, cm.u, 1)
       IN /\ C("state-after-update-equals-per-instance-commit", StOf(Ev.st) = new)
          /\ C("no-overspend-at-every-prefix",
                \A k \in 1..len : NoOverspendAt(P, granted + CountUpTo(qs, k), n + k))
          /\ cm' = new /\ n' = n + len /\ granted' = granted + CountUpTo(qs, len)
    /\ last' = NoLast

TNext == TQuery \/ TUpdate
TSpec == TInit /\ [][TNext]_tvars

Progress == TLCSet(tid, IF TLCGet(tid) < l THEN l ELSE TLCGet(tid))
Post == /\ PrintT(<<"VALIDATED", Len(Traces)>>)
        /\ \A t \in 1..Len(Traces) :
             IF TLCGet(t) = Len(Traces[t].events) + 1 THEN TRUE
             ELSE PrintT(<<"REJECT", t, TLCGet(t)>>)
=============================================================================
