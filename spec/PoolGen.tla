------------------------------- MODULE PoolGen -------------------------------
(* Generator of pool scenarios (every initial state is printed as one JSON   *)
(* case): pool size, labeled set, candidate mode and subset, batch size,     *)
(* geometry class of X and label pattern.  Concretised by                    *)
(* harness/drivers/pool_common.py.                                           *)
EXTENDS Integers, Sequences, FiniteSets, TLC, Json
CONSTANTS MinN, MaxN
VARIABLES n, labeled, mode, S, bs, geom, labpat
vars == <<n, labeled, mode, S, bs, geom, labpat>>
Geoms == {"distinct", "duplicates", "all-equal", "constant-feature", "collinear"}
Init == /\ n \in MinN..MaxN
        /\ labeled \in SUBSET (1..n) /\ labeled # 1..n
        /\ mode \in {"none", "idx", "rows", "idx-any"}
        /\ S \in (IF mode = "none" THEN {{}}
                  ELSE IF mode = "idx-any" THEN (SUBSET (1..n)) \ {{}}
                  ELSE (SUBSET ((1..n) \ labeled)) \ {{}})
        /\ bs \in {1, 2, Cardinality(IF mode = "none" THEN (1..n) \ labeled ELSE S),
                   Cardinality(IF mode = "none" THEN (1..n) \ labeled ELSE S) + 1}
        /\ geom \in Geoms
        /\ labpat \in {"one-class", "all-classes"}
Next == UNCHANGED vars
Spec == Init /\ [][Next]_vars
GenCase == PrintT(ToJson([n |-> n, labeled |-> labeled, mode |-> mode, S |-> S, bs |-> bs,
                          geom |-> geom, labpat |-> labpat])) /\ FALSE
=============================================================================
