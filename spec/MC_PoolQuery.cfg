SPECIFICATION Spec
CONSTANTS
  MaxN = 3
  Vals <- MCVals
CONSTRAINT NotStuck
INVARIANT BatchOK
INVARIANT NeverLabeledUnoffered
INVARIANT RowsOK
CHECK_DEADLOCK FALSE
