SPECIFICATION Spec
CONSTANTS
  MaxN = 4
INVARIANT OnlyUnlabeled
INVARIANT NeverTwice
INVARIANT ExhaustedExactly
INVARIANT NeverLate
PROPERTY Terminates
CHECK_DEADLOCK FALSE
