SPECIFICATION Spec
CONSTANTS
  MKind = "Periodic"
  MB <- MCB
  WSize = 3
  MaxT = 7
  RndLen = 0
  LeakLabels = FALSE
INVARIANT BudgetRespected
INVARIANT OnlyAcquiredLabels
INVARIANT WindowIsLatest
INVARIANT ModelOnWindow
CHECK_DEADLOCK FALSE
