SPECIFICATION Spec
CONSTANTS
  MaxK = 3
  VoteShapes <- MCShapes
  ConfShapes <- MCShapes
  Weights <- MCWeights
CONSTRAINT GenCase
CHECK_DEADLOCK FALSE
