----------------------------- MODULE StreamProto -----------------------------
(***************************************************************************)
(* The query/update protocol every stream query strategy and budget        *)
(* manager has to follow, with the committed state kept abstract: `dig` is *)
(* an opaque identifier of the complete committed state (all attributes    *)
(* with a trailing underscore, nested budget_manager_ and generator states *)
(* included; harness/drivers/stream_common.py numbers the digests).        *)
(*                                                                         *)
(*   Query(c)     returns indices and utilities, must not change `dig`     *)
(*   Update(c, q) may move to any new committed state                      *)
(*                                                                         *)
(* C03  query is pure, repeatable, and a run with extra queries is         *)
(*      indistinguishable from its twin without them (T.twin holds the     *)
(*      twin's per-step results and states)                                *)
(* C04  counting bound on granted labels at every prefix                   *)
(* C10  update accepts what query returned; indices strictly increasing in *)
(*      range; one utility per candidate                                   *)
(***************************************************************************)
EXTENDS Common, Json, IOUtils, TLCExt

Traces == JsonDeserialize(IOEnv.TRACE_FILE)

VARIABLES dig, step, n, granted, last, bud, slack, tid, l
tvars == <<dig, step, n, granted, last, bud, slack, tid, l>>

ASSUME \A t \in 1..Len(Traces) : TLCSet(t, 0)

T  == Traces[tid]
Ev == T.events[l]
C(name, cond) == Chk(tid, l, name, cond)
IsEvent(e) == /\ l <= Len(T.events) /\ Ev.ev = e /\ l' = l + 1 /\ tid' = tid

NoLast == [valid |-> FALSE, cid |-> 0, res |-> <<>>, udig |-> 0]

TInit == /\ tid \in 1..Len(Traces) /\ l = 1
         /\ dig = 0 /\ step = 1 /\ n = 0 /\ granted = 0 /\ last = NoLast
         /\ bud = Traces[tid].B /\ slack = 0

\* bounds of C04 with the configured budget rounded up to bud = <<num, den>> (sound); `bud` is T.B until the
\* object is re-configured (SetBudget)
BoundOK(g, k) ==
    CASE T.bound = "window"  -> g * bud[2] * T.W <= bud[1] * k * T.W + k * bud[2]
                                                   + bud[1] * T.W * T.W + bud[2] * T.W
      [] T.bound = "density" -> g * bud[2] <= bud[1] * k + bud[2] + slack
      [] T.bound = "strict"  -> g * bud[2] <= bud[1] * k + slack
      [] OTHER -> TRUE

InSeq(x, s) == \E k \in DOMAIN s : s[k] = x
CountUpTo(q, k) == Cardinality({i \in 1..k : InSeq(i, q)})
HasTwin == step <= Len(T.twin)

TQuery ==
    /\ IsEvent("Query")
    /\ C("indices-strictly-increasing-in-range",
          /\ \A k \in DOMAIN Ev.res : Ev.res[k] \in 1..Ev.len
          /\ \A k \in 1..(Len(Ev.res) - 1) : Ev.res[k] < Ev.res[k + 1])
    /\ C("utilities-one-per-candidate", Ev.nutil = Ev.len)
    \* (strategies that decide with one manager call: the manager, asked about the RETURNED utilities, decides alike)
    /\ C("returned-utilities-explain-the-decision", "mres" \in DOMAIN Ev => Ev.mres = Ev.res)
    \* Ev.digr: digest of the state after the call restricted to the attributes that existed before it
    \* (an attribute created lazily with its initial value is not a change; a vanished one is)
    /\ C("query-leaves-state-unchanged", dig = 0 \/ Ev.digr = dig)
    /\ C("repeated-query-same-result",
          (last.valid /\ last.cid = Ev.cid) => (last.res = Ev.res /\ last.udig = Ev.udig))
    /\ C("same-result-as-run-without-extra-queries",
          (HasTwin /\ T.twin[step].cid = Ev.cid) =>
              (T.twin[step].res = Ev.res /\ T.twin[step].udig = Ev.udig))
    /\ dig' = Ev.dig
    /\ last' = [valid |-> TRUE, cid |-> Ev.cid, res |-> Ev.res, udig |-> Ev.udig]
    /\ UNCHANGED <<step, n, granted, bud, slack>>

TUpdate ==
    /\ IsEvent("Update")
    \* (an update that opens the history carries `tdig`: the state restricted to the attributes of the twin)
    /\ C("same-state-as-run-without-extra-queries",
          HasTwin => T.twin[step].dig = (IF "tdig" \in DOMAIN Ev THEN Ev.tdig ELSE Ev.dig))
    \* (subjects whose decisions do not depend on the chunking: T.single holds the decisions of the same stream
    \*  processed one instance at a time - <<>> when not recorded)
    /\ C("same-decisions-as-one-instance-at-a-time",
          T.single = <<>> \/ \A k \in 1..Ev.len : InSeq(k, Ev.q) = (T.single[n + k] = 1))
    /\ C("no-overspend-at-every-prefix",
          \A k \in 1..Ev.len : BoundOK(granted + CountUpTo(Ev.q, k), n + k))
    /\ dig' = Ev.dig /\ step' = step + 1
    /\ n' = n + Ev.len /\ granted' = granted + CountUpTo(Ev.q, Ev.len)
    /\ last' = NoLast /\ UNCHANGED <<bud, slack>>

\* set_params(budget=...) on a used object: from here on the bound is the one of the NEW budget, counted from
\* this point.  The window-based managers carry over a non-negative estimate, which can only delay further
\* labels (the derivation of their bound holds for any such start); the managers that count over the whole
\* stream may in addition spend what the new budget would have allowed so far and was not spent (`slack`,
\* in units of 1 / bud[2]).
TSetBudget ==
    /\ IsEvent("SetBudget")
    /\ bud' = Ev.B /\ n' = 0 /\ granted' = 0 /\ last' = NoLast
    /\ slack' = IF T.bound \in {"density", "strict"} THEN Max2(0, Ev.B[1] * n - granted * Ev.B[2]) ELSE 0
    /\ UNCHANGED <<dig, step>>

TNext == TQuery \/ TUpdate \/ TSetBudget
TSpec == TInit /\ [][TNext]_tvars

Progress == TLCSet(tid, IF TLCGet(tid) < l THEN l ELSE TLCGet(tid))
Post == /\ PrintT(<<"VALIDATED", Len(Traces)>>)
        /\ \A t \in 1..Len(Traces) :
             IF TLCGet(t) = Len(Traces[t].events) + 1 THEN TRUE
             ELSE PrintT(<<"REJECT", t, TLCGet(t)>>)
=============================================================================
