---------------------------- MODULE RandArgTrace ----------------------------
(* Batch trace validation for RandArg: one trace = one array, many calls   *)
(* (one per seed); memo binds "same seed => same result".                  *)
EXTENDS RandArg, Json, IOUtils, TLCExt

Traces == JsonDeserialize(IOEnv.TRACE_FILE)

VARIABLES tid, l, memo, seen
tvars == <<vars, tid, l, memo, seen>>

ASSUME \A t \in 1..Len(Traces) : TLCSet(t, 0)

T  == Traces[tid]
Ev == T.events[l]
C(name, cond) == Chk(tid, l, name, cond)
IsEvent(e) == /\ l <= Len(T.events) /\ Ev.ev = e /\ l' = l + 1 /\ tid' = tid

TInit == /\ tid \in 1..Len(Traces) /\ l = 1 /\ memo = <<>> /\ seen = {}
         /\ InitWith(Traces[tid].a, Traces[tid].ndim, Traces[tid].axis, Traces[tid].isMax)

\* one call with seed Ev.seed returning Ev.res (1-based positions)
TReturn == /\ IsEvent("Return")
           /\ C("shape", Len(Ev.res) = (IF axis = "none" THEN ndim
                                        ELSE IF ndim = 1 THEN 1
                                        ELSE IF axis = "0" THEN Cn ELSE R))
           /\ C("is-exact-optimum-along-axis", Ev.res \in AllowedResults)
           /\ C("same-seed-same-result",
                \A k \in DOMAIN memo : memo[k][1] = Ev.seed => memo[k][2] = Ev.res)
           /\ memo' = Append(memo, <<Ev.seed, Ev.res>>)
           /\ seen' = seen \cup {Ev.res}
           /\ UNCHANGED vars

\* after all seeds: every tied optimum was reached by some seed
TAllReached == /\ IsEvent("AllReached")
               /\ C("every-tied-optimum-reachable", seen = AllowedResults)
               /\ UNCHANGED <<vars, memo, seen>>

TNext == TReturn \/ TAllReached
TSpec == TInit /\ [][TNext]_tvars

Progress == TLCSet(tid, IF TLCGet(tid) < l THEN l ELSE TLCGet(tid))
Post == /\ PrintT(<<"VALIDATED", Len(Traces)>>)
        /\ \A t \in 1..Len(Traces) :
             IF TLCGet(t) = Len(Traces[t].events) + 1 THEN TRUE
             ELSE PrintT(<<"REJECT", t, TLCGet(t)>>)
=============================================================================
