SPECIFICATION Spec
CONSTANTS
  ObsVals <- MCObs
  DigVals <- MCDig
INVARIANT TypeOK
INVARIANT RowChosen
INVARIANT Coherent
INVARIANT StdFinite
INVARIANT Fallback
INVARIANT SampleShape
INVARIANT RaiseOnlyOutside
CHECK_DEADLOCK FALSE
