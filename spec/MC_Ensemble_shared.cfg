SPECIFICATION Spec
CONSTANTS
  NMem = 3
  NCls = 2
  NPts = 2
  SharedColumn = TRUE
INVARIANT OwnColumn
CHECK_DEADLOCK FALSE
