SPECIFICATION Spec
CONSTANTS
  MinN = 2
  MaxN = 4
CONSTRAINT GenCase
CHECK_DEADLOCK FALSE
