SPECIFICATION TSpec
CONSTANTS
  MaxR = 0
  MaxC = 0
  Vals = {}
CONSTRAINT Progress
POSTCONDITION Post
CHECK_DEADLOCK FALSE
