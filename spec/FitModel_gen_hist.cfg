INIT HistInit
NEXT HistNext
CONSTANTS
  DataSets <- MCDataSets
  ParamVals <- MCParamVals1
  Kinds = {"plain", "window", "strategy"}
  WindowSizes = {2}
  MaxDepth = 3
  WriteBack = FALSE
  FitOnAll = FALSE
  StaleWindow = FALSE
  GenN = 1
  GenA = 1
  GenSetParams = FALSE
CHECK_DEADLOCK FALSE
CONSTRAINT GenHist
