--------------------------- MODULE MC_Aggregation ---------------------------
EXTENDS Aggregation, Json
MCShapesSmall   == {<<1, 1>>, <<1, 2>>, <<2, 1>>, <<1, 3>>, <<3, 1>>}
MCShapes        == MCShapesSmall \cup {<<2, 2>>}
MCShapesBig     == MCShapes \cup {<<2, 3>>, <<3, 2>>}
MCWeights       == {0, 1, 2}
MCWeights3      == {0, 1, 2, 3}
\* generator mode (Aggregation_gen*.cfg): every initial state is printed as
\* one JSON case and not explored further
GenCase == PrintT(ToJson([y |-> y, w |-> w, ytrue |-> ytrue, K |-> K,
                          explicit |-> explicit, mode |-> mode])) /\ FALSE
=============================================================================
