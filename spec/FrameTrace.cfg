SPECIFICATION TSpec
CONSTANTS
  Ids = {}
CONSTRAINT Progress
POSTCONDITION Post
CHECK_DEADLOCK FALSE
