SPECIFICATION TSpec
CONSTANTS
  NAnn = 3
  NCls = 3
  NSmp = 6
  FirstColumn = FALSE
CONSTRAINT Progress
POSTCONDITION Post
CHECK_DEADLOCK FALSE
