------------------------------- MODULE ALLoop -------------------------------
(***************************************************************************)
(* The standard pool active-learning loop of README.rst:                   *)
(*     while unlabeled samples remain:                                     *)
(*         q = strategy.query(X, y, ..., batch_size=bs)                    *)
(*         y[q] = oracle(q)                                                *)
(* Query returns any valid batch (PoolQuery!BatchOK with candidates=None)  *)
(* of the still unlabeled samples; Reveal labels it.                       *)
(***************************************************************************)
EXTENDS Common

CONSTANTS MaxN

VARIABLES N, unl,        \* pool size, currently unlabeled sample ids
          u0, bs,        \* initial number of unlabeled samples, batch size
          batch,         \* the batch returned by the running cycle
          history,       \* all batches so far
          phase          \* "query" | "reveal" | "done"

vars == <<N, unl, u0, bs, batch, history, phase>>

InitWith(n, u, b) == /\ N = n /\ unl = u /\ u0 = Cardinality(u) /\ bs = b
                     /\ batch = <<>> /\ history = <<>> /\ phase = "query"

Init == \E n \in 1..MaxN : \E u \in (SUBSET (1..n)) \ {{}}, b \in 1..(n + 1) : InitWith(n, u, b)

\* sequences of k distinct elements of S
RECURSIVE Arr(_, _)
Arr(S, k) == IF k = 0 THEN {<<>>}
             ELSE UNION {{<<x>> \o t : t \in Arr(S \ {x}, k - 1)} : x \in S}

Query(q) == /\ phase = "query" /\ unl # {}
            /\ q \in Arr(unl, Min2(bs, Cardinality(unl)))
            /\ batch' = q /\ phase' = "reveal"
            /\ UNCHANGED <<N, unl, u0, bs, history>>

Reveal == /\ phase = "reveal"
          /\ unl' = unl \ Range(batch)
          /\ history' = Append(history, batch)
          /\ phase' = IF unl' = {} THEN "done" ELSE "query"
          /\ UNCHANGED <<N, u0, bs, batch>>

Next == (\E q \in Arr(unl, Min2(bs, Cardinality(unl))) : Query(q)) \/ Reveal
Spec == Init /\ [][Next]_vars /\ WF_vars(Next)

---------------------------------------------------------------------------
Queried == UNION {Range(history[i]) : i \in DOMAIN history}
OnlyUnlabeled == phase = "reveal" => Range(batch) \subseteq unl
NeverTwice == /\ \A i, j \in DOMAIN history : i # j => Range(history[i]) \cap Range(history[j]) = {}
              /\ \A i \in DOMAIN history : Distinct(history[i])
ExhaustedExactly == phase = "done" => (unl = {} /\ Len(history) = CeilDiv(u0, bs))
NeverLate == Len(history) <= CeilDiv(u0, bs)
Terminates == <>(phase = "done")
=============================================================================
