---------------------------- MODULE MultiAnnotTrace ----------------------------
(***************************************************************************)
(* Batch validation of recorded multi-annotator queries (C07) against the  *)
(* result predicates of MultiAnnot.  One trace = one call; events are      *)
(* synthesised from the returned (query_indices, utilities) by             *)
(* harness/drivers/c07.py:                                                 *)
(*    Pair {s, a, row}  one selected pair with its utility slice           *)
(*                      (flattened row-major, ranks, NaN = Common!NaN;     *)
(*                      empty when utilities were not requested)           *)
(*    Finish {n}                                                           *)
(* Raised / Hang / Malformed events match no action.                       *)
(***************************************************************************)
EXTENDS MultiAnnot, Json, IOUtils, TLCExt

Traces == JsonDeserialize(IOEnv.TRACE_FILE)
VARIABLES tid, l
tvars == <<vars, tid, l>>
ASSUME \A t \in 1..Len(Traces) : TLCSet(t, 0)

T  == Traces[tid]
Ev == T.events[l]
C(name, cond) == Chk(tid, l, name, cond)
IsEvent(e) == /\ l <= Len(T.events) /\ Ev.ev = e /\ l' = l + 1 /\ tid' = tid
PairSet(s) == {<<s[i][1], s[i][2]>> : i \in DOMAIN s}

TInit == /\ tid \in 1..Len(Traces) /\ l = 1
         /\ InitWith(Traces[tid].ns, Traces[tid].na, PairSet(Traces[tid].avail),
                     Traces[tid].bs, Traces[tid].pref)

TValidate == IsEvent("Validate") /\ Validate /\ UNCHANGED <<>>

Cell(s, a) == (s - 1) * NA + a
TPair ==
    /\ IsEvent("Pair") /\ phase = "rank"
    /\ C("batch-not-larger-than-requested", T.adaptive \/ Len(picked) < bs)
    /\ C("index-in-range", Ev.s \in 1..NS /\ Ev.a \in 1..NA)
    /\ C("is-available-pair", <<Ev.s, Ev.a>> \in Avail)
    /\ C("pair-not-selected-twice", <<Ev.s, Ev.a>> \notin Range(picked))
    /\ IF Len(Ev.row) = 0 THEN TRUE
       ELSE /\ C("utilities-shape", Len(Ev.row) = NS * NA)
            /\ C("nan-at-unavailable-and-earlier-pairs",
                  \A s \in 1..NS, a \in 1..NA :
                     (<<s, a>> \notin Avail \/ <<s, a>> \in Range(picked)) => Ev.row[Cell(s, a)] = NaN)
            /\ C("chosen-pair-has-a-utility", Ev.row[Cell(Ev.s, Ev.a)] # NaN)
    /\ picked' = Append(picked, <<Ev.s, Ev.a>>)
    /\ UNCHANGED <<NS, NA, Avail, bs0, pref, bs, rank, per, cur, phase>>

\* n_annotators_per_sample as an array: entry k is the request for the k-th ranked sample, the last entry
\* applies to all further samples (T.prefs; empty = the integer T.pref for every sample)
Prefs == IF "prefs" \in DOMAIN T THEN T.prefs ELSE <<>>
ReqAt(k) == IF Prefs = <<>> THEN pref ELSE Prefs[Min2(k, Len(Prefs))]
FirstIdx(s) == CHOOSE i \in DOMAIN picked : picked[i][1] = s /\ \A j \in 1..(i - 1) : picked[j][1] # s
GroupNo(s) == Cardinality({i \in Groups : i <= FirstIdx(s)})
ReqOf(s) == ReqAt(GroupNo(s))
Rows == RowsOf(Avail)
Uniform == \A s, t \in Rows : NAvail(s) = NAvail(t)
A0 == NAvail(CHOOSE s \in Rows : TRUE)
RLen == Min2(bs, Cardinality(Rows))
PerAfter(r) == [i \in 1..RLen |-> Min2(A0, ReqAt(i) + r)]
RStar == CHOOSE r \in 0..NA : Total(PerAfter(r)) >= bs /\ \A q \in 0..(r - 1) : Total(PerAfter(q)) < bs
PerStar == PerAfter(RStar)

TFinish ==
    /\ IsEvent("Finish") /\ phase = "rank"
    /\ C("batch-size-is-min-of-requested-and-available-pairs", T.adaptive \/ Len(picked) = bs)
    /\ C("one-utility-slice-per-pair", Ev.nrows = -1 \/ Ev.nrows = Len(picked))
    /\ C("annotators-per-sample-respected",
          pref = 0 \/
          (/\ Contiguous
           /\ \A s \in RowsOf(Range(picked)) :
                LET cnt == Cardinality(Taken(s))
                    isLast == picked[Len(picked)][1] = s
                IN cnt <= NAvail(s) /\ ((~isLast /\ NAvail(s) >= ReqOf(s)) => cnt >= ReqOf(s))))
    \* when every rankable row offers the same number of annotators the assignment of
    \* _n_to_assign_annotators is determined by the arguments alone (PerStar): exact
    /\ C("annotators-per-sample-exact-under-uniform-availability",
          (pref = 0 \/ ~Uniform \/ ~Contiguous) \/
          \A s \in RowsOf(Range(picked)) :
              LET cnt == Cardinality(Taken(s))
                  isLast == picked[Len(picked)][1] = s
              IN IF isLast THEN cnt <= PerStar[GroupNo(s)] ELSE cnt = PerStar[GroupNo(s)])
    /\ phase' = "done"
    /\ UNCHANGED <<NS, NA, Avail, bs0, pref, bs, rank, per, picked, cur>>

TNext == TValidate \/ TPair \/ TFinish
TSpec == TInit /\ [][TNext]_tvars

Progress == TLCSet(tid, IF TLCGet(tid) < l THEN l ELSE TLCGet(tid))
Post == /\ PrintT(<<"VALIDATED", Len(Traces)>>)
        /\ \A t \in 1..Len(Traces) :
             IF TLCGet(t) = Len(Traces[t].events) + 1 THEN TRUE
             ELSE PrintT(<<"REJECT", t, TLCGet(t)>>)
=============================================================================
