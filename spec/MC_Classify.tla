----------------------------- MODULE MC_Classify -----------------------------
(* Model-checking and generator instance of Classify.                       *)
EXTENDS Classify, Json, IOUtils

\* ---- generator mode (Classify_gen*.cfg) ---------------------------------
\* Every initial state is one abstract case.  The full product is too large
\* to replay, so the generator keeps a residue class of a hash of the case
\* (cost matrices are pruned first, then whole cases); the residues come from
\* the environment so that different seeds replay different cases.
RECURSIVE HashSeq(_, _)
HashSeq(s, h) == IF s = <<>> THEN h
                 ELSE HashSeq(Tail(s), (h * 31 + Head(s) + 7) % 1000003)

RECURSIVE Flat(_)
Flat(m) == IF m = <<>> THEN <<>> ELSE Head(m) \o Flat(Tail(m))

CmMod == atoi(IOEnv.GEN_CM_MOD)
CmRem == atoi(IOEnv.GEN_CM_REM)
GenMod == atoi(IOEnv.GEN_MOD)
GenRem == atoi(IOEnv.GEN_REM)
WrapMod == atoi(IOEnv.GEN_WRAP_MOD)

CmKeep(k, m) == k < 3 \/ HashSeq(Flat(m), 17) % CmMod = CmRem % CmMod

GenInit == InitSel(CmKeep)
GenSpec == GenInit /\ [][Next]_vars

CaseHash == HashSeq(<<IF kind = "freq" THEN 1 ELSE 2, K, IF dflt THEN 1 ELSE 0,
                      IF estOK THEN 1 ELSE 0>>
                    \o decl \o Flat(cm) \o F \o prior \o lc
                    \o [c \in 1..K |-> IF c \in seen THEN 1 ELSE 0], 5)

\* the training-set scenario is part of the generated case
Scenarios == <<"plain", "weights", "dups">>

GenCase ==
    LET h == CaseHash IN
    IF K < 3 \/ (kind = "freq" /\ h % GenMod = GenRem % GenMod)
             \/ (kind = "wrap" /\ h % WrapMod = GenRem % WrapMod)
    THEN PrintT(ToJson([kind |-> kind, K |-> K, decl |-> decl, dflt |-> dflt, cm |-> cm,
                        seen |-> [c \in 1..K |-> IF c \in seen THEN 1 ELSE 0],
                        F |-> F, prior |-> prior, lc |-> lc, estOK |-> estOK,
                        scen |-> Scenarios[((h \div 7) % 3) + 1]])) /\ FALSE
    ELSE FALSE
=============================================================================
