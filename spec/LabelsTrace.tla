---------------------------- MODULE LabelsTrace ----------------------------
(***************************************************************************)
(* Batch trace validation for Labels (C16).  One trace = one abstract      *)
(* label array under one concrete configuration (label dtype kind,         *)
(* sentinel kind, input form); the events are the public calls             *)
(*   is_unlabeled, is_labeled, unlabeled_indices, labeled_indices,         *)
(*   ExtLabelEncoder.fit / transform / inverse_transform / fit_transform   *)
(* with their results projected into the abstract domain by                *)
(* harness/drivers/c16.py, or "Raised" when the call raised.  A trace with *)
(* kind = "table" holds direct calls of check_missing_label.               *)
(* Value -99 stands for a concrete value that is neither a class nor the   *)
(* sentinel (no clause can match it).                                      *)
(***************************************************************************)
EXTENDS Labels, Json, IOUtils, TLCExt

Traces == JsonDeserialize(IOEnv.TRACE_FILE)

VARIABLES tid, l
tvars == <<vars, tid, l>>

ASSUME \A t \in 1..Len(Traces) : TLCSet(t, 0)

T  == Traces[tid]
Ev == T.events[l]
C(name, cond) == Chk(tid, l, name, cond)

IsEvent(e) == /\ l <= Len(T.events) /\ Ev.ev = e
              /\ l' = l + 1 /\ tid' = tid

TInit == /\ tid \in 1..Len(Traces)
         /\ l = 1
         /\ InitWith(Traces[tid].y, Traces[tid].K, Traces[tid].explicit)

Empty == y.rows = 0
ExpPred == PredExpect(T.sent, T.dtype, T.form, Empty)
ExpEnc  == EncExpect(T.sent, T.dtype, Empty)

\* a value-returning predicate call: forbidden where a TypeError is required,
\* unconstrained where nothing is specified, otherwise shape and value
PredReturn(name, expected) ==
    /\ C("must-raise-TypeError", ExpPred # "raise")
    /\ IF ExpPred = "either" THEN TRUE
       ELSE /\ C("shape", Ev.shape = Shape(y))
            /\ C(name, Ev.res = expected)
    /\ UNCHANGED vars

\* index lists carry their own shape (length / pairs)
IdxReturn(name, expected) ==
    /\ C("must-raise-TypeError", ExpPred # "raise")
    /\ IF ExpPred = "either" THEN TRUE ELSE C(name, Ev.res = expected)
    /\ UNCHANGED vars

TIsUnlabeled == IsEvent("IsUnlabeled")
                /\ PredReturn("marks-exactly-the-missing-entries", IsUnlabeled(y))
TIsLabeled   == IsEvent("IsLabeled")
                /\ PredReturn("complement-of-is_unlabeled", IsLabeled(y))
TUnlabeledIndices == IsEvent("UnlabeledIndices")
                /\ IdxReturn("missing-entries-in-row-major-order", UnlabeledIndices(y))
TLabeledIndices   == IsEvent("LabeledIndices")
                /\ IdxReturn("present-entries-in-row-major-order", LabeledIndices(y))

\* encoder calls
TFit == /\ IsEvent("Fit")
        /\ C("must-raise-TypeError", ExpEnc # "raise")
        /\ C("phase", phase = "new")
        /\ Fit
        /\ IF ExpEnc = "either" THEN TRUE
           ELSE C("classes-sorted-distinct", Ev.classes = classes')

TTransform == /\ IsEvent("Transform")
              /\ C("phase", phase = "fitted")
              /\ Transform
              /\ IF ExpEnc = "either" THEN TRUE
                 ELSE /\ C("shape", Ev.shape = Shape(y))
                      /\ C("classes-to-ranks-missing-to-minus-one", Ev.res = enc')

TInverse == /\ IsEvent("Inverse")
            /\ C("phase", phase = "encoded")
            /\ Inverse
            /\ IF ExpEnc = "either" THEN TRUE
               ELSE /\ C("shape", Ev.shape = Shape(y))
                    /\ C("round-trip", Ev.res = y.flat)
                    /\ C("inverse-of-codes", Ev.res = dec')

\* fit_transform of a fresh encoder
TFitTransform == /\ IsEvent("FitTransform")
                 /\ C("must-raise-TypeError", ExpEnc # "raise")
                 /\ IF ExpEnc = "either" THEN TRUE
                    ELSE /\ C("shape", Ev.shape = Shape(y))
                         /\ C("fit_transform-equals-fit-then-transform",
                              Ev.res = TransformOf(FitClasses(y, K, explicit), y))
                 /\ UNCHANGED vars

\* a call that raised: only a TypeError, and only where the table demands
\* (or leaves open) a rejection
ExpOf(fn) == IF fn \in {"fit", "fit_transform"} THEN ExpEnc
             ELSE IF fn \in {"is_unlabeled", "is_labeled", "unlabeled_indices",
                             "labeled_indices"} THEN ExpPred
             ELSE "ok"
TRaised == /\ IsEvent("Raised")
           /\ C("must-not-raise", ExpOf(Ev.fn) # "ok")
           /\ C("raises-TypeError", Ev.exc = "TypeError")
           /\ UNCHANGED vars

\* direct call check_missing_label(sentinel, target_type)
TCheckMissing == /\ IsEvent("CheckMissing")
                 /\ C("known-kinds", Ev.sent \in SentKinds /\ Ev.dtype \in DtypeKinds)
                 /\ IF CheckMissing(Ev.sent, Ev.dtype) = "raise"
                    THEN C("table-demands-TypeError", Ev.raised /\ Ev.exc = "TypeError")
                    ELSE C("table-accepts", ~Ev.raised)
                 /\ UNCHANGED vars

TNext == TIsUnlabeled \/ TIsLabeled \/ TUnlabeledIndices \/ TLabeledIndices
         \/ TFit \/ TTransform \/ TInverse \/ TFitTransform \/ TRaised \/ TCheckMissing

TSpec == TInit /\ [][TNext]_tvars

Progress == TLCSet(tid, IF TLCGet(tid) < l THEN l ELSE TLCGet(tid))

Post == /\ PrintT(<<"VALIDATED", Len(Traces)>>)
        /\ \A t \in 1..Len(Traces) :
             IF TLCGet(t) = Len(Traces[t].events) + 1 THEN TRUE
             ELSE PrintT(<<"REJECT", t, TLCGet(t)>>)
=============================================================================
