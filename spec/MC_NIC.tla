------------------------------- MODULE MC_NIC -------------------------------
EXTENDS NIC, Json
R(a, b) == <<a, b>>
MCPriors == {[k0 |-> R(0, 1), nu0 |-> R(3, 1), mu0 |-> R(0, 1), s0 |-> R(1, 1)],      \* NadarayaWatsonRegressor
             [k0 |-> R(1, 2), nu0 |-> R(5, 2), mu0 |-> R(1, 1), s0 |-> R(1, 2)],
             [k0 |-> R(2, 1), nu0 |-> R(3, 1), mu0 |-> R(0, 1), s0 |-> R(1, 1)],
             [k0 |-> R(1, 1), nu0 |-> R(6, 1), mu0 |-> R(-1, 1), s0 |-> R(2, 1)]}
MCKVals == {R(1, 4), R(1, 2), R(1, 1)}
\* generation: one line per (prior, data, kernel row) with the specified outputs
GenCase == IF phase = "predicted"
           THEN PrintT(ToJson([prior |-> prior, data |-> data, k |-> lastk, mean |-> res.mean, var |-> res.var])) /\ FALSE
           ELSE TRUE
=============================================================================
