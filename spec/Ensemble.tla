------------------------------ MODULE Ensemble ------------------------------
(***************************************************************************)
(* skactiveml/classifier/multiannotator/_annotator_ensemble_classifier.py  *)
(* (beyond the listed properties): AnnotatorEnsembleClassifier trains one  *)
(* member classifier per annotator and combines their outputs.             *)
(*                                                                         *)
(*   fit(X, y, sample_weight)                                              *)
(*     estimators_ = deepcopy(estimators)                                  *)
(*     member i is fitted on (X, y[:, i], sample_weight[:, i])             *)
(*   predict_proba(X)                                                      *)
(*     voting = "hard": every member predicts one class per query point,   *)
(*        P[j][c] = #members voting c at point j / #members                *)
(*     voting = "soft": P[j] = sum of the members' probability rows,       *)
(*        normalised to one                                                *)
(*   predict(X): a class of maximal probability (default cost)             *)
(*                                                                         *)
(* The design model abstracts a member to a memorising classifier: at a    *)
(* training point it answers the label its own annotator gave there, and   *)
(* a fixed default class where that annotator gave none (what a kernel     *)
(* classifier with a narrow bandwidth does).  The labels are chosen by the *)
(* environment; one action per public call.  `SharedColumn` is a code-     *)
(* shaped deviation (every member trained on the first annotator's column) *)
(* kept as a vacuity guard.                                                *)
(***************************************************************************)
EXTENDS Common

CONSTANTS NMem,          \* number of annotators = members
          NCls,          \* number of classes
          NPts,          \* training points (= query points of the model)
          SharedColumn   \* deviation switch

M == -1
Classes == 0..(NCls - 1)
Mem == 1..NMem
Pts == 1..NPts
Default == 0

VARIABLES y,       \* [Pts -> [Mem -> Classes \cup {M}]] the label matrix of the last fit
          mvote,   \* [Mem -> [Pts -> Classes]] what each fitted member answers at each point
          count,   \* [Pts -> [Classes -> Nat]] numerators of predict_proba (denominator NMem), hard voting
          pred,    \* [Pts -> Classes] result of predict
          phase    \* "new" | "fitted" | "proba" | "predicted"
vars == <<y, mvote, count, pred, phase>>

Col(i) == IF SharedColumn THEN 1 ELSE i
Answer(lab, i, j) == IF lab[j][Col(i)] # M THEN lab[j][Col(i)] ELSE Default

Votes(mv, j, c) == Cardinality({i \in Mem : mv[i][j] = c})
CountsOf(mv) == [j \in Pts |-> [c \in Classes |-> Votes(mv, j, c)]]
Best(cnt, j) == {c \in Classes : \A d \in Classes : cnt[j][d] <= cnt[j][c]}

Init == /\ y = [j \in Pts |-> [i \in Mem |-> M]]
        /\ mvote = [i \in Mem |-> [j \in Pts |-> Default]]
        /\ count = [j \in Pts |-> [c \in Classes |-> 0]]
        /\ pred = [j \in Pts |-> Default]
        /\ phase = "new"

Fit(lab) == /\ y' = lab
            /\ mvote' = [i \in Mem |-> [j \in Pts |-> Answer(lab, i, j)]]
            /\ phase' = "fitted"
            /\ UNCHANGED <<count, pred>>

PredictProba == /\ phase \in {"fitted", "proba", "predicted"}
                /\ count' = CountsOf(mvote)
                /\ phase' = "proba"
                /\ UNCHANGED <<y, mvote, pred>>

Predict == /\ phase \in {"proba", "predicted"}
           /\ pred' \in {f \in [Pts -> Classes] : \A j \in Pts : f[j] \in Best(count, j)}
           /\ phase' = "predicted"
           /\ UNCHANGED <<y, mvote, count>>

Next == \/ \E lab \in [Pts -> [Mem -> Classes \cup {M}]] : Fit(lab)
        \/ PredictProba \/ Predict
Spec == Init /\ [][Next]_vars

\* ---- properties ----------------------------------------------------------
TypeOK == /\ phase \in {"new", "fitted", "proba", "predicted"}
          /\ \A j \in Pts : \A c \in Classes : count[j][c] \in 0..NMem
\* predict_proba rows are distributions over the classes (numerators sum to the number of members)
RowsSumToOne == phase \in {"proba", "predicted"} =>
                  \A j \in Pts : SumSeq([c \in 1..NCls |-> count[j][c - 1]]) = NMem
\* a label an annotator gave at a point is the vote of THAT annotator's member there
OwnColumn == phase # "new" => \A i \in Mem, j \in Pts : y[j][i] # M => mvote[i][j] = y[j][i]
\* a point all annotators labeled alike is predicted as labeled, with probability one
Unanimous == phase = "predicted" =>
               \A j \in Pts : \A c \in Classes :
                  (\A i \in Mem : y[j][i] = c) => (pred[j] = c /\ count[j][c] = NMem)
\* the decision is a class of maximal probability
PredMaximal == phase = "predicted" => \A j \in Pts : pred[j] \in Best(count, j)
=============================================================================
