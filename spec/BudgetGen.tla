------------------------------ MODULE BudgetGen ------------------------------
(* Generator: every initial state is one stream scenario (a utility stream, *)
(* a cut of the stream into chunks, and which queries are issued twice),    *)
(* printed as JSON for harness/drivers/budget_common.py.                    *)
EXTENDS Integers, Sequences, FiniteSets, TLC, Json
CONSTANTS L
VARIABLES stream, cuts, twice
\* utilities as sixteenths; -1 stands for NaN
Vals == {0, 4, 8, 12, 16, -1}
Init == /\ \E k \in 1..L : stream \in [1..k -> Vals]
        /\ cuts \in SUBSET (1..(L - 1))
        /\ \A c \in cuts : c < Len(stream)
        /\ twice \in BOOLEAN
Next == UNCHANGED <<stream, cuts, twice>>
Spec == Init /\ [][Next]_<<stream, cuts, twice>>
GenCase == PrintT(ToJson([stream |-> stream, cuts |-> cuts, twice |-> twice])) /\ FALSE
=============================================================================
