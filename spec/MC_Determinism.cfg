SPECIFICATION Spec
CONSTANTS
  MaxCalls = 3
  MaxGlobal = 4
  Args = {1, 2}
  UsesGlobal = FALSE
  Stateful = TRUE
INVARIANT Reproducible
CHECK_DEADLOCK FALSE
