SPECIFICATION Spec
CONSTANTS
  MaxN = 4
  Vals <- MCVals
CONSTRAINT NotStuck
INVARIANT BatchOK
INVARIANT NeverLabeledUnoffered
INVARIANT RowsOK
CHECK_DEADLOCK FALSE
