SPECIFICATION TSpec
CONSTANTS
  Labels = {0, 1}
  Weights = {1, 2}
  Cfgs = {}
  Args = {}
  PreArgs = {}
  Record = FALSE
CONSTRAINT Progress
INVARIANT ImpliedWellFormed
INVARIANT LatestWins
INVARIANT NothingDropped
POSTCONDITION Post
CHECK_DEADLOCK FALSE
