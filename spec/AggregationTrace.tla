-------------------------- MODULE AggregationTrace --------------------------
(***************************************************************************)
(* Batch trace validation for Aggregation (C17).  One trace = one abstract *)
(* case (label matrix, weights, true labels, class mode) and the calls     *)
(*   compute_vote_vectors                      -> "Votes" / "Raised"       *)
(*   majority_vote under several seeds         -> "Majority"               *)
(*   ext_confusion_matrix(normalize = n)       -> "Confusion"              *)
(* recorded by harness/drivers/c17.py under one concrete label encoding.   *)
(* Floats are logged as exact rationals [num, den] (den > 0; [-1, 1] for a *)
(* value that is not a small rational), labels as class index / -1 for the *)
(* sentinel / -99 for anything else.  wscale is the rational by which the  *)
(* integer weights of the case were multiplied before the call.            *)
(***************************************************************************)
EXTENDS Aggregation, Json, IOUtils, TLCExt

Traces == JsonDeserialize(IOEnv.TRACE_FILE)

VARIABLES tid, l
tvars == <<vars, tid, l>>

ASSUME \A t \in 1..Len(Traces) : TLCSet(t, 0)

T  == Traces[tid]
Ev == T.events[l]
C(name, cond) == Chk(tid, l, name, cond)

IsEvent(e) == /\ l <= Len(T.events) /\ Ev.ev = e
              /\ l' = l + 1 /\ tid' = tid

TInit == /\ tid \in 1..Len(Traces)
         /\ l = 1
         /\ InitWith(Traces[tid].y, Traces[tid].w, Traces[tid].ytrue, Traces[tid].K,
                     Traces[tid].explicit, Traces[tid].mode)

TVotes == /\ IsEvent("Votes")
          /\ C("must-raise-without-classes", Len(VoteClasses) > 0)
          /\ C("phase", phase = "start")
          /\ VoteVectors
          /\ C("shape", Ev.shape = <<N, Len(VoteClasses)>>)
          /\ C("weighted-number-of-votes-per-class",
               Ev.res = [i \in 1..N |-> [c \in 1..Len(VoteClasses) |->
                            RatMul(T.wscale, <<votes'[i][c], 1>>)]])

TRaised == /\ IsEvent("Raised")
           /\ C("must-not-raise", Ev.fn = "compute_vote_vectors" /\ ENABLED VoteRaise)
           /\ C("raises-ValueError", Ev.exc = "ValueError")
           /\ VoteRaise

TMajority == /\ IsEvent("Majority")
             /\ C("one-label-per-sample", Len(Ev.res) = N)
             /\ C("missing-exactly-for-samples-without-label",
                  \A i \in 1..N : (Ev.res[i] = Missing) <=> ~HasLabel(i))
             /\ C("class-with-maximal-vote", MajorityAllowed(Ev.res))
             /\ MajorityVote(Ev.res)

Uniform(k) == RatNorm(<<1, k>>)
TConfusion ==
    /\ IsEvent("Confusion")
    /\ C("known-normalisation", Ev.norm \in Norms)
    /\ Confusion(Ev.norm)
    /\ C("shape", Ev.shape = <<A, Kc, Kc>>)
    /\ LET ok == \A a \in 1..A, t \in 1..Kc, p \in 1..Kc :
                    conf'[a][t][p] = Free \/ Ev.res[a][t][p] = conf'[a][t][p]
       IN CASE Ev.norm = "none" -> C("unnormalised-counts", ok)
            [] Ev.norm = "true" -> C("normalised-over-true-labels", ok)
            [] Ev.norm = "pred" -> C("normalised-over-predicted-labels", ok)
            [] Ev.norm = "all"  -> C("normalised-over-all-labels", ok)
    \* 0/0 is not documented; the repository's own test (test_multi_annot.py)
    \* pins an annotator without any label to the uniform matrix ('true',
    \* 'pred') resp. to a matrix that sums to one ('all')
    /\ C("annotator-without-labels-uniform",
         Ev.norm \in {"true", "pred"} =>
            \A a \in 1..A : NLabels(a) = 0 =>
               \A t \in 1..Kc, p \in 1..Kc : Ev.res[a][t][p] = Uniform(Kc))
    /\ C("annotator-without-labels-sums-to-one",
         Ev.norm = "all" =>
            \A a \in 1..A : NLabels(a) = 0 =>
               /\ \A t \in 1..Kc, p \in 1..Kc : Ev.res[a][t][p][2] > 0
               /\ RatSumSeq(Entries(Ev.res[a])) = <<1, 1>>)

TNext == TVotes \/ TRaised \/ TMajority \/ TConfusion

TSpec == TInit /\ [][TNext]_tvars

Progress == TLCSet(tid, IF TLCGet(tid) < l THEN l ELSE TLCGet(tid))

Post == /\ PrintT(<<"VALIDATED", Len(Traces)>>)
        /\ \A t \in 1..Len(Traces) :
             IF TLCGet(t) = Len(Traces[t].events) + 1 THEN TRUE
             ELSE PrintT(<<"REJECT", t, TLCGet(t)>>)
=============================================================================
