-------------------------- MODULE IndexWrapperTrace --------------------------
(***************************************************************************)
(* Batch validation of traces recorded from the real                       *)
(* IndexClassifierWrapper (harness/drivers/c19.py).  One event per public  *)
(* call, logged after the call:                                            *)
(*   ev      "Init" | "Fit" | "PartialFit" | "Precompute" | "Raised"       *)
(*   op      the call (same record as IndexWrapper!Ops), exc the exception *)
(*   st      projected wrapper state: is_fitted flags, idx_/y_/            *)
(*           sample_weight_ and base_* as <<sample, label, weight>> lists  *)
(*   refset, refseg   what the REFERENCE (a fresh copy of the wrapped      *)
(*           classifier, trained from scratch) was trained on              *)
(*   obs     per sample: predict / predict_proba / predict_freq of the     *)
(*           wrapper, each [r: raised, ok: well-formed, v: values]         *)
(*           (probabilities and frequencies in units of 2^-20)             *)
(*   ref     the same for the reference, fb: the reference predicts from   *)
(*           label counts (randomised predict of SklearnClassifier)        *)
(*   twin    (speed-up traces) the same for a wrapper with                 *)
(*           use_speed_up=False that received the same calls               *)
(* Every event must be the step IndexWrapper!Call allows, and the          *)
(* observations must agree with the state the specification reaches.       *)
(***************************************************************************)
EXTENDS IndexWrapper, Json, IOUtils, TLCExt

Traces == JsonDeserialize(IOEnv.TRACE_FILE)

VARIABLES tid, l
tvars == <<vars, tid, l>>

ASSUME \A t \in 1..Len(Traces) : TLCSet(t, 0)

T  == Traces[tid]
Ev == T.events[l]
C(name, cond) == Chk(tid, l, name, cond)

Tol == 2                                   \* band: 2 units of 2^-20

TInit == /\ tid \in 1..Len(Traces) /\ l = 1
         /\ InitWith(Traces[tid].cfg)

Close(a, b) == /\ Len(a) = Len(b)
               /\ \A k \in DOMAIN a : Abs(a[k] - b[k]) <= Tol
MaxOf(v) == CHOOSE x \in Range(v) : \A y \in Range(v) : y <= x

RecOK(x) == ~x.r /\ x.ok
\* classes are 0..K-1 in the order of predict_proba's columns.  predict must
\* return the reference's label; where the reference's probabilities tie
\* within the band (random tie-breaking) any maximiser is allowed; a
\* SklearnClassifier whose estimator could not be fitted draws its
\* prediction from the label distribution, so any class of positive
\* probability is allowed there.
AllowedPred(r, fb) ==
    {r.p.v[1]}
    \cup {c - 1 : c \in {c \in DOMAIN r.pp.v : r.pp.v[c] >= MaxOf(r.pp.v) - 2 * Tol}}
    \cup (IF fb THEN {c - 1 : c \in {c \in DOMAIN r.pp.v : r.pp.v[c] > 0}} ELSE {})

SampleOK(e, j, f, ck, c, kf) ==
    LET ok == PredOKAt(f, ck, c, kf, j)
        o  == e.obs[j]
    IN /\ C("predict-raises-iff-spec-disables", o.p.r = ~ok)
       /\ C("predict_proba-raises-iff-spec-disables", o.pp.r = ~ok)
       /\ C("predict_freq-raises-iff-spec-disables", cfg.kind = "pwc" => o.pf.r = ~ok)
       /\ ok =>
            /\ C("reference-available",
                 Len(e.ref) = cfg.n /\ RecOK(e.ref[j].p) /\ RecOK(e.ref[j].pp) /\ RecOK(e.ref[j].pf))
            /\ C("predict-well-formed", o.p.ok)
            /\ C("predict_proba-well-formed", o.pp.ok)
            /\ C("predict_freq-well-formed", o.pf.ok)
            /\ C("predict_proba-equals-reference", Close(o.pp.v, e.ref[j].pp.v))
            /\ C("predict_freq-equals-reference", Close(o.pf.v, e.ref[j].pf.v))
            /\ C("predict-equals-reference", o.p.v[1] \in AllowedPred(e.ref[j], e.fb))
            /\ (e.twin # <<>>) =>
                 LET tw == e.twin[j] IN
                 /\ C("twin-available", Len(e.twin) = cfg.n /\ RecOK(tw.p) /\ RecOK(tw.pp) /\ RecOK(tw.pf))
                 /\ C("speedup-neutral-predict_proba", Close(o.pp.v, tw.pp.v))
                 /\ C("speedup-neutral-predict_freq", Close(o.pf.v, tw.pf.v))
                 /\ C("speedup-neutral-predict", o.p.v[1] \in AllowedPred(tw, e.fb))

\* the observations logged with event e against the state (f, hb, ck, bk, c, sg, b, kf)
Observed(e, f, hb, ck, bk, c, sg, b, kf) ==
    /\ C("observations-logged", Len(e.obs) = cfg.n)
    /\ C("reference-trained-on-implied-set", e.refset = c /\ e.refseg = sg)
    /\ C("state-well-formed", e.st.ok)
    \* is_fitted(): with the speed-up a classifier fitted before __init__ is
    \* used for predictions but not kept as clf_ ("Speed-up not possible when
    \* prefitted"); the flag is left unspecified there
    /\ C("is_fitted-flag", (SU /\ f /\ ~ck) \/ e.st.fitted = f)
    /\ C("is_fitted-base-flag", e.st.hasBase = hb)
    /\ C("cur-triples-equal-spec", ck => e.st.known /\ e.st.cur = c)
    /\ C("base-triples-equal-spec", bk => e.st.bknown /\ e.st.base = b)
    /\ \A j \in 1..cfg.n : SampleOK(e, j, f, ck, c, kf)

Step == l <= Len(T.events) /\ l' = l + 1 /\ tid' = tid

\* observation right after __init__
TInitObs ==
    /\ Step /\ Ev.ev = "Init"
    /\ C("init-first", l = 1)
    /\ UNCHANGED vars
    /\ Observed(Ev, fitted, hasBase, curKnown, baseKnown, cur, seg, base, kfilled)

ExcOK(why, exc) == /\ why = "notfitted" => exc = "NotFittedError"
                   /\ why \in {"dup", "wmix"} => exc = "ValueError"

TCall ==
    /\ Step /\ Ev.ev \in {"Fit", "PartialFit", "Precompute", "Raised"}
    /\ LET op == Ev.op
           why == Why(op)
       IN /\ C("event-is-the-call", Ev.ev \in {"Raised", op.op})
          /\ IF Ev.ev = "Raised"
             THEN /\ C("raise-only-where-spec-disables-call", why # "ok")
                  /\ C("exception-class", ExcOK(why, Ev.exc))
             ELSE C("call-disabled-by-spec-must-raise", why = "ok")
          /\ Call(op)
    /\ (status' = "ok") =>
          Observed(Ev, fitted', hasBase', curKnown', baseKnown', cur', seg', base', kfilled')

TNext == TInitObs \/ TCall
TSpec == TInit /\ [][TNext]_tvars

Progress == TLCSet(tid, IF TLCGet(tid) < l THEN l ELSE TLCGet(tid))
Post == /\ PrintT(<<"VALIDATED", Len(Traces)>>)
        /\ \A t \in 1..Len(Traces) :
             IF TLCGet(t) = Len(Traces[t].events) + 1 THEN TRUE
             ELSE PrintT(<<"REJECT", t, TLCGet(t)>>)
=============================================================================
