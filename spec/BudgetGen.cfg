SPECIFICATION Spec
CONSTANTS
  L = 4
CONSTRAINT GenCase
CHECK_DEADLOCK FALSE
