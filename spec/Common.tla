------------------------------- MODULE Common -------------------------------
(***************************************************************************)
(* Shared operators of the scikit-activeml specification family.           *)
(*                                                                         *)
(* Floats are abstracted (harness/abstraction.py) to integers:             *)
(*   - NaN is the reserved integer NaN below;                              *)
(*   - a row of utilities becomes sign-preserving dense ranks (negative    *)
(*     floats -> negative ranks, 0.0 -> 0, positive floats -> positive     *)
(*     ranks), which keeps exactly the relations the code can observe      *)
(*     (==, <, > 0);                                                       *)
(*   - rationals are pairs <<num, den>> with den > 0, compared by cross    *)
(*     multiplication.                                                     *)
(***************************************************************************)
EXTENDS Integers, Sequences, FiniteSets, TLC

NaN == -1000000

Min2(a, b) == IF a <= b THEN a ELSE b
Max2(a, b) == IF a >= b THEN a ELSE b

Range(s) == {s[i] : i \in DOMAIN s}
Distinct(s) == \A i, j \in DOMAIN s : i # j => s[i] # s[j]

NonNaNIdx(f) == {j \in DOMAIN f : f[j] # NaN}
ArgmaxSet(f) == {j \in NonNaNIdx(f) : \A k \in NonNaNIdx(f) : f[k] <= f[j]}
ArgminSet(f) == {j \in NonNaNIdx(f) : \A k \in NonNaNIdx(f) : f[j] <= f[k]}

Prefix(s, n) == SubSeq(s, 1, n)

RECURSIVE SumSeq(_)
SumSeq(s) == IF s = <<>> THEN 0 ELSE Head(s) + SumSeq(Tail(s))

RECURSIVE GCD(_, _)
GCD(a, b) == IF b = 0 THEN a ELSE GCD(b, a % b)

Abs(x) == IF x < 0 THEN -x ELSE x

\* ---- rationals <<num, den>>, den > 0 -----------------------------------
RatNorm(r) == LET g == GCD(Abs(r[1]), r[2]) IN
              IF g = 0 THEN <<0, 1>> ELSE <<r[1] \div g, r[2] \div g>>
RatAdd(a, b) == RatNorm(<<a[1] * b[2] + b[1] * a[2], a[2] * b[2]>>)
RatSub(a, b) == RatNorm(<<a[1] * b[2] - b[1] * a[2], a[2] * b[2]>>)
RatMul(a, b) == RatNorm(<<a[1] * b[1], a[2] * b[2]>>)
RatLess(a, b) == a[1] * b[2] < b[1] * a[2]
RatLeq(a, b)  == a[1] * b[2] <= b[1] * a[2]
RatEq(a, b)   == a[1] * b[2] = b[1] * a[2]
RatOfInt(i) == <<i, 1>>

\* ceiling of a / b for positive b
CeilDiv(a, b) == (a + b - 1) \div b

\* clause checker used by the trace specifications: a failing, named clause
\* is printed (only consulted for traces that end up rejected) so that a
\* rejection comes with the name of the clause that failed.
Chk(tid, l, name, cond) ==
    IF cond THEN TRUE ELSE PrintT(<<"FAILED", tid, l, name>>) /\ FALSE
=============================================================================
