SPECIFICATION Spec
CONSTANTS
  MaxN = 4
  Vals <- MCVals
  PositionInsteadOfId = FALSE
INVARIANT ModeEquiv
INVARIANT NaNOutside
CHECK_DEADLOCK FALSE
