SPECIFICATION TSpec
CONSTANTS
  Priors = {}
  KVals = {}
  YVals = {}
  WVals = {}
  MaxLab = 0
  IgnoreWeights = FALSE
CONSTRAINT Progress
POSTCONDITION Post
CHECK_DEADLOCK FALSE
