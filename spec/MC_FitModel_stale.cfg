INIT MCInit
NEXT MCNext
CONSTANTS
  DataSets <- MCDataSets
  ParamVals <- MCParamVals
  Kinds = {"window"}
  WindowSizes = {0, 2}
  MaxDepth = 3
  WriteBack = FALSE
  FitOnAll = FALSE
  StaleWindow = TRUE
  GenN = 1
  GenA = 1
  GenSetParams = FALSE
CHECK_DEADLOCK FALSE
INVARIANT WindowRestart
