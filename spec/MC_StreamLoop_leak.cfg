SPECIFICATION Spec
CONSTANTS
  MKind = "Periodic"
  MB <- MCB
  WSize = 3
  MaxT = 7
  RndLen = 0
  LeakLabels = TRUE
INVARIANT OnlyAcquiredLabels
CHECK_DEADLOCK FALSE
