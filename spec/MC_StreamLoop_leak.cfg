SPECIFICATION Spec
CONSTANTS
  MKind = "Periodic"
  MB <- MCB
  WSize = 3
  MaxT = 7
  RndLen = 8
  LeakLabels = TRUE
INVARIANT OnlyAcquiredLabels
CHECK_DEADLOCK FALSE
