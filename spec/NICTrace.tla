------------------------------ MODULE NICTrace ------------------------------
(* Batch validation of recorded fit / predict calls of NICKernelRegressor   *)
(* and NadarayaWatsonRegressor (rbf kernel, gamma = log 2, lattice points:  *)
(* kernel values 1, 1/2, 1/4) against NIC.tla.  Fit binds the samples kept   *)
(* kept (y_, weights_ - the recorder also hands over unlabeled samples,     *)
(* which must have been dropped), every Predict event carries the kernel    *)
(* row and the observed mean and variance as rationals; they must be the    *)
(* ones Predict(k) computes.                                                *)
EXTENDS MC_NIC, IOUtils, TLCExt
Traces == JsonDeserialize(IOEnv.TRACE_FILE)
VARIABLES tid, l
tvars == <<vars, tid, l>>
ASSUME \A t \in 1..Len(Traces) : TLCSet(t, 0)
T  == Traces[tid]
Ev == T.events[l]
C(name, cond) == Chk(tid, l, name, cond)
IsEvent(e) == /\ l <= Len(T.events) /\ Ev.ev = e /\ l' = l + 1 /\ tid' = tid
Pair(r) == <<r[1], r[2]>>
TInit == /\ tid \in 1..Len(Traces) /\ l = 1
         /\ prior = [k0 |-> Pair(Traces[tid].prior.k0), nu0 |-> Pair(Traces[tid].prior.nu0),
                     mu0 |-> Pair(Traces[tid].prior.mu0), s0 |-> Pair(Traces[tid].prior.s0)]
         /\ data = <<>> /\ res = [mean |-> Zero, var |-> Zero] /\ lastk = <<>> /\ phase = "new"
AsData(d) == [j \in DOMAIN d |-> [y |-> d[j].y, w |-> d[j].w]]
TFit == /\ IsEvent("Fit") /\ Fit(AsData(Ev.given))
        /\ C("keeps-exactly-the-labeled-samples-and-their-weights", AsData(Ev.kept) = data')
TPredict == /\ IsEvent("Predict")
            /\ LET k == [j \in DOMAIN Ev.k |-> Pair(Ev.k[j])] IN
               /\ Predict(k)
               /\ C("mean-is-the-posterior-mean", Pair(Ev.mean) = res'.mean)
               /\ C("variance-is-the-predictive-variance", Pair(Ev.var) = res'.var)
TNext == TFit \/ TPredict
TSpec == TInit /\ [][TNext]_tvars
Progress == TLCSet(tid, IF TLCGet(tid) < l THEN l ELSE TLCGet(tid))
Post == /\ PrintT(<<"VALIDATED", Len(Traces)>>)
        /\ \A t \in 1..Len(Traces) :
             IF TLCGet(t) = Len(Traces[t].events) + 1 THEN TRUE
             ELSE PrintT(<<"REJECT", t, TLCGet(t)>>)
=============================================================================
