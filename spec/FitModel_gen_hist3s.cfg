INIT HistInit
NEXT HistNext
CONSTANTS
  DataSets <- MCHistDataSets
  ParamVals <- MCParamVals1
  Kinds = {"plain", "window", "strategy"}
  WindowSizes = {0, 3}
  MaxDepth = 3
  WriteBack = FALSE
  FitOnAll = FALSE
  StaleWindow = FALSE
  GenN = 1
  GenA = 1
  GenSetParams = TRUE
CHECK_DEADLOCK FALSE
CONSTRAINT GenHist
