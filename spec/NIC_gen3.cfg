SPECIFICATION Spec
CONSTANTS
  Priors <- MCPriors
  KVals <- MCKVals
  YVals = {0, 3}
  WVals = {1, 2}
  MaxLab = 3
  IgnoreWeights = FALSE
CONSTRAINT GenCase
CHECK_DEADLOCK FALSE
