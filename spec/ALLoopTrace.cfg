SPECIFICATION TSpec
CONSTANTS
  MaxN = 0
CONSTRAINT Progress
INVARIANT NeverTwice
INVARIANT NeverLate
POSTCONDITION Post
CHECK_DEADLOCK FALSE
