SPECIFICATION Spec
CONSTANTS
  MaxR = 2
  MaxC = 3
  Vals <- MCVals
INVARIANT ResultIsOptimum
INVARIANT ShapeOK
CHECK_DEADLOCK FALSE
