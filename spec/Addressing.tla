------------------------------ MODULE Addressing ------------------------------
(***************************************************************************)
(* How candidates are addressed (skactiveml/base.py _transform_candidates  *)
(* and the scatter `utilities[mapping] = utilities_cand` every strategy    *)
(* performs).  A strategy that scores samples is abstracted to a function  *)
(* `f` from sample identity to a score; the three addressings of the same  *)
(* candidate set S (given as a sequence `order`, any order) must report    *)
(* f[s] for sample s:                                                      *)
(*    none : util over 1..N, NaN at labeled samples                        *)
(*    idx  : util over 1..N, NaN outside S                                 *)
(*    rows : util over 1..|S|, position k belongs to sample order[k]       *)
(* Deviation switch PositionInsteadOfId (code-shaped: a strategy indexes a *)
(* per-sample quantity by the candidate's position in the candidate list   *)
(* instead of its sample id, as Quire's block deletion does at the pinned  *)
(* commit): then the index addressing reports another sample's score.      *)
(***************************************************************************)
EXTENDS Common

CONSTANTS MaxN, Vals, PositionInsteadOfId

VARIABLES N, labeled, f, order, utilNone, utilIdx, utilRows, phase
vars == <<N, labeled, f, order, utilNone, utilIdx, utilRows, phase>>

Unl == (1..N) \ labeled

RECURSIVE Perms(_)
Perms(S) == IF S = {} THEN {<<>>}
            ELSE UNION {{<<x>> \o t : t \in Perms(S \ {x})} : x \in S}

Init == /\ N \in 1..MaxN
        /\ labeled \in SUBSET (1..N) /\ labeled # 1..N
        /\ f \in [1..N -> Vals]
        /\ order \in Perms(Unl)          \* the unlabeled samples in any order
        /\ utilNone = <<>> /\ utilIdx = <<>> /\ utilRows = <<>> /\ phase = "call"

\* score of the k-th candidate as the strategy computes it
CandScore(k) == IF PositionInsteadOfId THEN f[Min2(k, N)] ELSE f[order[k]]

Call == /\ phase = "call"
        /\ utilNone' = [j \in 1..N |-> IF j \in Unl THEN f[j] ELSE NaN]
        /\ utilIdx' = [j \in 1..N |->
                         IF \E k \in DOMAIN order : order[k] = j
                         THEN CandScore(CHOOSE k \in DOMAIN order : order[k] = j) ELSE NaN]
        /\ utilRows' = [k \in DOMAIN order |-> CandScore(k)]
        /\ phase' = "done"
        /\ UNCHANGED <<N, labeled, f, order>>

Next == Call
Spec == Init /\ [][Next]_vars

\* C08: the same sample has the same utility however it is addressed
ModeEquiv == phase = "done" =>
               \A k \in DOMAIN order :
                  /\ utilIdx[order[k]] = utilNone[order[k]]
                  /\ utilRows[k] = utilNone[order[k]]
NaNOutside == phase = "done" => \A j \in labeled : utilNone[j] = NaN /\ utilIdx[j] = NaN
=============================================================================
