------------------------------ MODULE PoolTrace ------------------------------
(***************************************************************************)
(* Batch validation of recorded pool queries against PoolQuery.  One trace *)
(* = one call of <Strategy>.query; the events are synthesised from the     *)
(* returned value by harness/drivers/pool_common.py:                       *)
(*   Validate, Transform, then per selected sample either                  *)
(*     Pick {j}            (indices only)          - clauses of C01        *)
(*     Step {j, row}       (index and utility row) - clauses of C01 + C02  *)
(*   Finish {n}                                                            *)
(* Raised / Hang / Malformed* events match no action.                      *)
(***************************************************************************)
EXTENDS PoolQuery, Json, IOUtils, TLCExt

Traces == JsonDeserialize(IOEnv.TRACE_FILE)

VARIABLES tid, l
tvars == <<vars, tid, l>>

ASSUME \A t \in 1..Len(Traces) : TLCSet(t, 0)

T  == Traces[tid]
Ev == T.events[l]
C(name, cond) == Chk(tid, l, name, cond)
IsEvent(e) == /\ l <= Len(T.events) /\ Ev.ev = e /\ l' = l + 1 /\ tid' = tid
SetOf(s) == {s[i] : i \in DOMAIN s}

TInit == /\ tid \in 1..Len(Traces) /\ l = 1
         /\ InitWith(Traces[tid].n, SetOf(Traces[tid].labeled), Traces[tid].mode,
                     SetOf(Traces[tid].S), Traces[tid].M, Traces[tid].bs, Traces[tid].kind)

TValidate  == IsEvent("Validate") /\ Validate
TTransform == IsEvent("Transform") /\ Transform

IndexClauses(j) ==
    /\ C("batch-not-larger-than-requested", Len(picked) < bs)
    /\ C("index-in-range", j \in 1..width)
    /\ C("is-candidate", j \in cand)
    /\ C("not-selected-twice", j \notin Range(picked))

TPick == /\ IsEvent("Pick") /\ phase = "score"
         /\ IndexClauses(Ev.j)
         /\ picked' = Append(picked, Ev.j) /\ rows' = Append(rows, <<>>)
         /\ UNCHANGED <<N, labeled, mode, S, M, bs0, kind, bs, cand, width, score, phase>>

\* the row clauses (C02) come first: a batch defect (C01, checked on Pick events by its own check)
\* must not hide a wrong utility row
TStep == /\ IsEvent("Step") /\ phase = "score"
         /\ C("row-width", Len(Ev.row) = width)
         /\ C("nan-exactly-at-unavailable",
               \A k \in 1..width : Ev.row[k] = NaN <=> k \notin Selectable)
         /\ C("index-in-range", Ev.j \in 1..width)
         /\ C("chosen-is-number", Ev.row[Ev.j] # NaN)
         /\ IF kind = "max"
            THEN C("chosen-attains-row-maximum", Ev.j \in ArgmaxSet(Ev.row))
            ELSE C("chosen-has-positive-mass", Ev.row[Ev.j] > 0)
         /\ IndexClauses(Ev.j)
         /\ picked' = Append(picked, Ev.j) /\ rows' = Append(rows, Ev.row)
         /\ UNCHANGED <<N, labeled, mode, S, M, bs0, kind, bs, cand, width, score, phase>>

TFinish == /\ IsEvent("Finish") /\ phase = "score"
           /\ C("batch-size-is-min-of-requested-and-candidates", Len(picked) = bs)
           /\ C("one-utility-row-per-selected-sample", Ev.nrows = -1 \/ Ev.nrows = Len(picked))
           /\ phase' = "done"
           /\ UNCHANGED <<N, labeled, mode, S, M, bs0, kind, bs, cand, width, score, picked, rows>>

TNext == TValidate \/ TTransform \/ TPick \/ TStep \/ TFinish
TSpec == TInit /\ [][TNext]_tvars

Progress == TLCSet(tid, IF TLCGet(tid) < l THEN l ELSE TLCGet(tid))
Post == /\ PrintT(<<"VALIDATED", Len(Traces)>>)
        /\ \A t \in 1..Len(Traces) :
             IF TLCGet(t) = Len(Traces[t].events) + 1 THEN TRUE
             ELSE PrintT(<<"REJECT", t, TLCGet(t)>>)
=============================================================================
