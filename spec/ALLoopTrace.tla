----------------------------- MODULE ALLoopTrace -----------------------------
(* Batch validation of whole active-learning loops recorded from the real  *)
(* strategies (harness/drivers/c14.py): one Query event per cycle (the     *)
(* reveal is performed by the harness and is the Reveal action), a final   *)
(* Done event.  Raised / Malformed / NotExhausted events match no action.  *)
EXTENDS ALLoop, Json, IOUtils, TLCExt

Traces == JsonDeserialize(IOEnv.TRACE_FILE)
VARIABLES tid, l
tvars == <<vars, tid, l>>
ASSUME \A t \in 1..Len(Traces) : TLCSet(t, 0)

T  == Traces[tid]
Ev == T.events[l]
C(name, cond) == Chk(tid, l, name, cond)
IsEvent(e) == /\ l <= Len(T.events) /\ Ev.ev = e /\ l' = l + 1 /\ tid' = tid
SetOf(s) == {s[i] : i \in DOMAIN s}

TInit == /\ tid \in 1..Len(Traces) /\ l = 1
         /\ InitWith(Traces[tid].n, SetOf(Traces[tid].unlabeled), Traces[tid].bs)

\* one cycle: query returned Ev.q, the harness revealed its labels
TCycle == /\ IsEvent("Query") /\ phase = "query"
          /\ C("pool-not-yet-exhausted", unl # {})
          /\ C("only-still-unlabeled-samples", SetOf(Ev.q) \subseteq unl)
          /\ C("never-queried-before", SetOf(Ev.q) \cap Queried = {})
          /\ C("no-sample-twice-in-a-batch", Distinct(Ev.q))
          /\ C("batch-size", Len(Ev.q) = Min2(bs, Cardinality(unl)))
          /\ unl' = unl \ SetOf(Ev.q)
          /\ history' = Append(history, Ev.q)
          /\ batch' = Ev.q
          /\ phase' = IF unl' = {} THEN "done" ELSE "query"
          /\ UNCHANGED <<N, u0, bs>>

TDone == /\ IsEvent("Done")
         /\ C("pool-exhausted", phase = "done" /\ unl = {})
         /\ C("exactly-ceil-u-over-batch-size-queries", Len(history) = CeilDiv(u0, bs))
         /\ UNCHANGED vars

TNext == TCycle \/ TDone
TSpec == TInit /\ [][TNext]_tvars

Progress == TLCSet(tid, IF TLCGet(tid) < l THEN l ELSE TLCGet(tid))
Post == /\ PrintT(<<"VALIDATED", Len(Traces)>>)
        /\ \A t \in 1..Len(Traces) :
             IF TLCGet(t) = Len(Traces[t].events) + 1 THEN TRUE
             ELSE PrintT(<<"REJECT", t, TLCGet(t)>>)
=============================================================================
