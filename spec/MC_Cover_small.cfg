SPECIFICATION Spec
CONSTANTS
  MaxN = 4
  Coords = {0, 1, 2, 4}
  Deltas = {0, 1, 2}
  MaxBS = 3
  ForgetCover = FALSE
INVARIANT PicksDistinct
INVARIANT PicksAreCandidates
INVARIANT NaNExactlyAtUnavailable
INVARIANT DiminishingReturns
INVARIANT GreedyMaxCoverage
CHECK_DEADLOCK FALSE
