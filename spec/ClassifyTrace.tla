---------------------------- MODULE ClassifyTrace ----------------------------
(***************************************************************************)
(* Batch trace validation for Classify (C11).                              *)
(*                                                                         *)
(* mode = "exact": the classifier's probabilities are determined by the    *)
(*   case (ParzenWindowClassifier with a precomputed integer kernel row,   *)
(*   SklearnClassifier around DummyClassifier('prior'), any unfitted       *)
(*   SklearnClassifier).  Events Fit, Proba, Predict must be steps of      *)
(*   Classify with exactly the logged values (rationals [num, den]).       *)
(* mode = "num": the probabilities come from a numeric model (kernel PWC,  *)
(*   mixture model, logistic regressions, ensembles ...).  Event Fit is    *)
(*   checked as above; each Row event carries one observed query row       *)
(*   (fixed point round(p * 2^16), dense ranks of the expected-cost row,   *)
(*   predicted class index) on which the invariants are evaluated.         *)
(* Class indices are 1-based positions in the sorted class list; 0 means   *)
(* "not a member of classes_".                                             *)
(***************************************************************************)
EXTENDS Classify, Json, IOUtils, TLCExt

Traces == JsonDeserialize(IOEnv.TRACE_FILE)

VARIABLES tid, l
tvars == <<vars, tid, l>>

ASSUME \A t \in 1..Len(Traces) : TLCSet(t, 0)

T  == Traces[tid]
Ev == T.events[l]
C(name, cond) == Chk(tid, l, name, cond)

IsEvent(e) == /\ l <= Len(T.events) /\ Ev.ev = e
              /\ l' = l + 1 /\ tid' = tid

SeenSet(t) == {c \in 1..t.K : t.seen[c] = 1}

TInit == /\ tid \in 1..Len(Traces)
         /\ l = 1
         /\ LET t == Traces[tid] IN
            InitWith(t.kind, t.K, t.decl, t.dflt, t.cm, SeenSet(t), t.F, t.prior, t.lc, t.estOK)

One == 65536

\* fit: classes_ is the sorted, complete class list and cost_matrix_ is the
\* declared matrix permuted into that order
TFit == /\ IsEvent("Fit")
        /\ C("phase", phase = "case")
        /\ C("classes-sorted-and-complete", Ev.classes = [c \in Cls |-> c])
        /\ Fit
        /\ C("cost-matrix-follows-classes", Ev.cmS = cmS')

TProba == /\ IsEvent("Proba")
          /\ C("mode", T.mode = "exact")
          /\ C("phase", phase = "fitted")
          /\ Proba
          /\ C("proba-shape", Len(Ev.P) = K)
          /\ C("freq-equals-case", kind = "freq" => Ev.F = F)
          /\ C("proba-finite", Ev.fin)
          /\ C("proba-equals-spec-per-column",
               \A c \in Cls : /\ Ev.P[c][2] > 0
                              /\ Ev.P[c][1] * Pden' = Pnum'[c] * Ev.P[c][2])

TPredict == /\ IsEvent("Predict")
            /\ C("mode", T.mode = "exact")
            /\ C("phase", phase = "proba")
            /\ C("predict-nonempty", Len(Ev.preds) >= 1)
            /\ C("predict-in-classes", \A i \in DOMAIN Ev.preds : Ev.preds[i] \in Cls)
            /\ C("predict-minimises-cost",
                 \A i \in DOMAIN Ev.preds : Ev.preds[i] \in ArgminSet(cost))
            /\ Predict(Ev.preds[1])

MinOf(s) == CHOOSE m \in Range(s) : \A x \in Range(s) : m <= x

TRow == /\ IsEvent("Row")
        /\ C("mode", T.mode = "num")
        /\ C("phase", phase = "fitted")
        /\ C("proba-shape", Len(Ev.Pfx) = K /\ Len(Ev.cr) = K)
        /\ C("proba-finite", Ev.fin)
        /\ C("proba-non-negative", \A c \in Cls : Ev.Pfx[c] >= 0)
        /\ C("proba-row-sums-to-one",
             LET s == SumSeq(Ev.Pfx) IN s >= One - K /\ s <= One + K)
        /\ C("freq-non-negative", Ev.Ffin /\ \A c \in DOMAIN Ev.Ffx : Ev.Ffx[c] >= 0)
        /\ C("freq-of-unseen-class-is-zero",
             T.votes => \A c \in DOMAIN Ev.Ffx : c \notin seen => Ev.Ffx[c] = 0)
        /\ C("proba-of-unseen-class-is-zero",
             T.remap => \A c \in Cls : c \notin seen => Ev.Pfx[c] = 0)
        /\ C("uniform-without-labels",
             (seen = {} /\ ~T.hard /\ ConstPrior) =>
                 \A c \in Cls : Ev.Prat[c][2] > 0 /\ Ev.Prat[c][1] * K = Ev.Prat[c][2])
        /\ C("predict-in-classes", Ev.pred \in Cls)
        /\ C("predict-has-minimal-cost-rank", Ev.pred \in Cls => Ev.cr[Ev.pred] = MinOf(Ev.cr))
        /\ UNCHANGED vars

TNext == TFit \/ TProba \/ TPredict \/ TRow

TSpec == TInit /\ [][TNext]_tvars

Progress == TLCSet(tid, IF TLCGet(tid) < l THEN l ELSE TLCGet(tid))

Post == /\ PrintT(<<"VALIDATED", Len(Traces)>>)
        /\ \A t \in 1..Len(Traces) :
             IF TLCGet(t) = Len(Traces[t].events) + 1 THEN TRUE
             ELSE PrintT(<<"REJECT", t, TLCGet(t)>>)
=============================================================================
