--------------------------- MODULE AnnotPerfTrace ---------------------------
(* Batch validation of recorded fit / predict_annotator_perf calls of       *)
(* IntervalEstimationAnnotModel against AnnotPerf.tla: Fit binds the label  *)
(* matrix and the majority vote (which must be a maximal class per sample); *)
(* the observed mean accuracies (exact rationals) must be the smoothed      *)
(* agreement counts, the intervals symmetric around them; Perf events check *)
(* that predict_annotator_perf returns the selected column for every row.   *)
EXTENDS AnnotPerf, Json, IOUtils, TLCExt
Traces == JsonDeserialize(IOEnv.TRACE_FILE)
VARIABLES tid, l
tvars == <<vars, tid, l>>
ASSUME \A t \in 1..Len(Traces) : TLCSet(t, 0)
T  == Traces[tid]
Ev == T.events[l]
C(name, cond) == Chk(tid, l, name, cond)
IsEvent(e) == /\ l <= Len(T.events) /\ Ev.ev = e /\ l' = l + 1 /\ tid' = tid
TInit == tid \in 1..Len(Traces) /\ l = 1 /\ Init
AsLab(m) == [i \in Smp |-> [a \in Ann |-> m[i][a]]]
AsVote(v) == [i \in Smp |-> v[i]]
TFit == /\ IsEvent("Fit")
        /\ C("majority-vote-is-a-maximal-class", \A i \in Smp : Ev.mv[i] \in Majorities(AsLab(Ev.y), i))
        /\ Fit(AsLab(Ev.y), AsVote(Ev.mv))
        /\ C("mean-is-the-smoothed-agreement-with-the-vote",
             \A a \in Ann : Ev.mean[a][1] * perf'[a][2] = perf'[a][1] * Ev.mean[a][2])
        /\ C("interval-symmetric-around-the-mean-and-ordered", \A a \in Ann : Ev.sym[a])
TPerf == /\ IsEvent("Perf")
         /\ C("every-row-is-the-selected-column", \A r \in DOMAIN Ev.rows : Ev.rows[r] = Ev.col)
         /\ UNCHANGED vars
TNext == TFit \/ TPerf
TSpec == TInit /\ [][TNext]_tvars
Progress == TLCSet(tid, IF TLCGet(tid) < l THEN l ELSE TLCGet(tid))
Post == /\ PrintT(<<"VALIDATED", Len(Traces)>>)
        /\ \A t \in 1..Len(Traces) :
             IF TLCGet(t) = Len(Traces[t].events) + 1 THEN TRUE
             ELSE PrintT(<<"REJECT", t, TLCGet(t)>>)
=============================================================================
