--------------------------- MODULE SelectionTrace ---------------------------
(***************************************************************************)
(* Batch trace validation for Selection: every trace is one recorded call  *)
(* of simple_batch (events synthesised from the returned value by          *)
(* harness/drivers/c18.py) and must be a behaviour of Selection.           *)
(***************************************************************************)
EXTENDS Selection, Json, IOUtils, TLCExt

Traces == JsonDeserialize(IOEnv.TRACE_FILE)

VARIABLES tid, l
tvars == <<vars, tid, l>>

ASSUME \A t \in 1..Len(Traces) : TLCSet(t, 0)

T  == Traces[tid]
Ev == T.events[l]
C(name, cond) == Chk(tid, l, name, cond)

IsEvent(e) == /\ l <= Len(T.events) /\ Ev.ev = e
              /\ l' = l + 1 /\ tid' = tid

TInit == /\ tid \in 1..Len(Traces)
         /\ l = 1
         /\ InitWith(Traces[tid].util, Traces[tid].bs, Traces[tid].method)

\* the set of first picks observed over many seeds must be exactly the set of
\* exact maxima (every tied optimum reachable, nothing else ever chosen)
TFirstPicks == /\ IsEvent("FirstPicks")
               /\ C("phase", phase = "clip")
               /\ C("first-picks-equal-argmax",
                    {Ev.set[i] : i \in DOMAIN Ev.set} = ArgmaxSet(util))
               /\ UNCHANGED vars

TClip == IsEvent("Clip") /\ Clip

TPick == /\ IsEvent("Pick")
         /\ C("phase", phase = "pick")
         /\ C("count", Len(picked) < bs)
         /\ C("index-in-range", Ev.j \in DOMAIN util0)
         /\ IF method = "max"
            THEN /\ C("not-nan", util[Ev.j] # NaN)
                 /\ C("is-exact-maximum", Ev.j \in ArgmaxSet(util))
                 /\ PickMax(Ev.j)
            ELSE /\ C("prop-admissible", PropAdmissible)
                 /\ C("positive-weight", Ev.j \in Positive(util0))
                 /\ C("distinct", Ev.j \notin Range(picked))
                 /\ PickProp(Ev.j)
         /\ C("row", Ev.row = rows'[Len(rows')])

TFinish == /\ IsEvent("Finish")
           /\ C("phase", phase = "pick")
           /\ C("batch-count", Len(picked) = bs)
           /\ Finish

TRaised == /\ IsEvent("Raised")
           /\ C("raise-allowed", ENABLED PropRaise)
           /\ PropRaise

\* the same call repeated with the same seed returned Ev.picked
TAgain == /\ IsEvent("Again")
          /\ C("phase", phase \in {"done", "raised"})
          /\ C("same-seed-same-result", Ev.picked = picked)
          /\ UNCHANGED vars

TNext == TFirstPicks \/ TClip \/ TPick \/ TFinish \/ TRaised \/ TAgain

TSpec == TInit /\ [][TNext]_tvars

Progress == TLCSet(tid, IF TLCGet(tid) < l THEN l ELSE TLCGet(tid))

Post == /\ PrintT(<<"VALIDATED", Len(Traces)>>)
        /\ \A t \in 1..Len(Traces) :
             IF TLCGet(t) = Len(Traces[t].events) + 1 THEN TRUE
             ELSE PrintT(<<"REJECT", t, TLCGet(t)>>)
=============================================================================
