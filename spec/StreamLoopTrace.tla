--------------------------- MODULE StreamLoopTrace ---------------------------
(* Batch validation of recorded stream active-learning cycles                *)
(* (query -> update -> partial_fit, one instance per cycle) against          *)
(* StreamLoop: decision and committed strategy state as Budget.tla computes  *)
(* them, training window = latest instances with labels exactly where they   *)
(* were acquired, model = fresh estimator fitted on the window, budget bound *)
(* at every prefix.                                                          *)
EXTENDS StreamLoop, Json, IOUtils, TLCExt
Traces == JsonDeserialize(IOEnv.TRACE_FILE)
VARIABLES tid, l
tvars == <<vars, tid, l>>
ASSUME \A t_ \in 1..Len(Traces) : TLCSet(t_, 0)
T  == Traces[tid]
Ev == T.events[l]
C(name, cond) == Chk(tid, l, name, cond)
IsEvent(e) == /\ l <= Len(T.events) /\ Ev.ev = e /\ l' = l + 1 /\ tid' = tid
StOf(s) == [u |-> s.u, th |-> s.th, t |-> s.t, cnt |-> s.cnt, obs |-> s.obs, qd |-> s.qd,
            hist |-> s.hist, pos |-> s.pos]
MCB0 == <<1, 1>>
TInit == /\ tid \in 1..Len(Traces) /\ l = 1
         /\ cm = InitState(Traces[tid].P) /\ win = <<>> /\ model = <<>> /\ t = 0 /\ granted = 0
         /\ rnd = Traces[tid].rnd /\ acquired = {}
TCycle ==
    /\ IsEvent("Cycle")
    /\ LET c == Cycle(T.P, cm, T.rnd)
           w2 == TruncW(Append(win, [id |-> t + 1, lab |-> IF c.d THEN Ev.lab ELSE M]), T.wsize)
           g2 == granted + (IF c.d THEN 1 ELSE 0)
       IN /\ C("decision-equals-simulation", Ev.q = c.d)
          /\ C("strategy-state-after-update", StOf(Ev.st) = c.st2)
          /\ C("window-holds-the-latest-instances", Ev.win = [i \in DOMAIN w2 |-> w2[i].id])
          /\ C("labels-only-where-acquired", Ev.wlabs = [i \in DOMAIN w2 |-> w2[i].lab])
          /\ C("model-fitted-on-the-window", Ev.pred = Ev.ref)
          /\ C("budget-respected-at-every-prefix", NoOverspendAt(T.P, g2, t + 1))
          /\ cm' = c.st2 /\ win' = w2 /\ model' = w2 /\ granted' = g2
          /\ acquired' = IF c.d THEN acquired \cup {t + 1} ELSE acquired
    /\ t' = t + 1 /\ UNCHANGED rnd
TNext == TCycle
TSpec == TInit /\ [][TNext]_tvars
Progress == TLCSet(tid, IF TLCGet(tid) < l THEN l ELSE TLCGet(tid))
Post == /\ PrintT(<<"VALIDATED", Len(Traces)>>)
        /\ \A t_ \in 1..Len(Traces) :
             IF TLCGet(t_) = Len(Traces[t_].events) + 1 THEN TRUE
             ELSE PrintT(<<"REJECT", t_, TLCGet(t_)>>)
=============================================================================
