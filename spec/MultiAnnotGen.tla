---------------------------- MODULE MultiAnnotGen ----------------------------
(* Generator of multi-annotator scenarios: label-missing pattern, the way   *)
(* candidates x annotators are specified, index subsets / availability      *)
(* matrix, batch size and n_annotators_per_sample.  Matrices and subsets    *)
(* are drawn by TLC (Randomization, controlled by -seed); everything else   *)
(* is enumerated.                                                           *)
EXTENDS Integers, Sequences, FiniteSets, TLC, Json, Randomization
CONSTANTS NSmax, NAmax, K
Half(S) == (Cardinality(S) + 1) \div 2
VARIABLES ns, na, missing, cmode, amode, C, A1, mask, bs, pref
vars == <<ns, na, missing, cmode, amode, C, A1, mask, bs, pref>>
Init == /\ ns \in 2..NSmax /\ na \in 2..NAmax
        /\ missing \in RandomSetOfSubsets(K, Half((1..ns) \X (1..na)), (1..ns) \X (1..na))
        /\ cmode \in {"none", "idx", "rows"}
        /\ amode \in {"none", "idx", "mask"}
        /\ C \in (IF cmode = "none" THEN {{}} ELSE RandomSetOfSubsets(2, Half(1..ns), 1..ns) \ {{}})
        /\ A1 \in (IF amode = "idx" THEN (SUBSET (1..na)) \ {{}} ELSE {{}})
        /\ mask \in (IF amode = "mask"
                     THEN LET P == (1..(IF cmode = "none" THEN ns ELSE Cardinality(C))) \X (1..na)
                          IN RandomSetOfSubsets(K, Half(P), P)
                     ELSE {{}})
        /\ bs \in {1, 2, 3, 5, 10}
        /\ pref \in 1..na
Next == UNCHANGED vars
Spec == Init /\ [][Next]_vars
GenCase == PrintT(ToJson([ns |-> ns, na |-> na, missing |-> missing, cmode |-> cmode, amode |-> amode,
                          C |-> C, A1 |-> A1, mask |-> mask, bs |-> bs, pref |-> pref])) /\ FALSE
=============================================================================
