SPECIFICATION Spec
CONSTANTS
  K = 3
  MaxLen = 4
  Codes <- MCCodes
INVARIANT EncodingInvariant
INVARIANT RoundTrip
INVARIANT DeclaredIsIdentity
CHECK_DEADLOCK FALSE
