SPECIFICATION GenSpec
CONSTANTS
  ObsVals <- MCObs
  DigVals <- MCDig
CONSTRAINT GenCase
CHECK_DEADLOCK FALSE
