SPECIFICATION Spec
CONSTANTS
  L = 5
CONSTRAINT GenCase
CHECK_DEADLOCK FALSE
