--------------------------- MODULE MC_IndexWrapper ---------------------------
(***************************************************************************)
(* Model checking / behaviour generation for IndexWrapper.                 *)
(*                                                                         *)
(* MC_IndexWrapper*.cfg : exhaustive search of all operation sequences up  *)
(*   to Depth calls, all 8 flag combinations x 3 classifier kinds          *)
(*   x stored weights none/given x (not fitted | fitted | fitted + base    *)
(*   through __init__), labels {0, 1, missing}, weights {none, 1, 2}.      *)
(* IndexWrapper_gen*.cfg / IndexWrapper_sim.cfg : the same state machine   *)
(*   with the history variable switched on; Emit prints every behaviour    *)
(*   of exactly Depth calls (or ending in a broken state) as one JSON      *)
(*   line, exhaustively (breadth first) or for random walks (-simulate).   *)
(***************************************************************************)
EXTENDS IndexWrapper, Json, Randomization

CONSTANTS MCN,        \* number of samples
          MaxLen,     \* longest index list
          Alphabet,   \* "tiny" | "narrow" | "mid" | "wide" | "sim"
          Prefits,    \* subset of {"none", "fit", "fitbase"}
          CfgSel,     \* "all" | "core" (flags that are inert for a kind left FALSE)
          Depth,
          Sample      \* 0: generator offers every call; k > 0: random walks (-simulate)
                      \* choose among calls built from k random argument records

VARIABLE done
mvars == <<vars, done>>

MCLabels  == {0, 1}
MCWeights == {1, 2}

Lists(n, m) == UNION {[1..len -> 1..n] : len \in 1..m}
ArgsOf(I, ys, ws) == {[I |-> I, Y |-> y, W |-> w] : y \in ys, w \in ws}
AllY(I) == {<<>>} \cup [1..Len(I) -> MCLabels \cup {Missing}]
AllW(I) == {<<>>} \cup [1..Len(I) -> MCWeights]

\* wide: every index list up to MaxLen, every label override, every weight vector
ArgsWide == UNION {ArgsOf(I, AllY(I), AllW(I)) : I \in Lists(MCN, MaxLen)}
\* mid: single samples with every override / weight, pairs with stored or
\* swapped labels
ArgsMid == UNION {ArgsOf(I, AllY(I), AllW(I)) : I \in Lists(MCN, 1)}
           \cup UNION {ArgsOf(I, {<<>>, <<1, 0>>, <<Missing, 1>>}, {<<>>, <<2, 1>>})
                       : I \in [1..2 -> 1..MCN]}
\* narrow: a handful of calls that still meet every mechanism (stored label,
\* override, stored missing label, override by missing, repeated sample,
\* duplicate inside one call, weights none / 1 / 2)
ArgsNarrow == {[I |-> <<1>>, Y |-> <<>>, W |-> <<>>],
               [I |-> <<1>>, Y |-> <<1>>, W |-> <<2>>],
               [I |-> <<2>>, Y |-> <<Missing>>, W |-> <<>>],
               [I |-> <<3>>, Y |-> <<0>>, W |-> <<1>>],
               [I |-> <<2, 3>>, Y |-> <<>>, W |-> <<>>],
               [I |-> <<3, 1>>, Y |-> <<1, 0>>, W |-> <<1, 2>>],
               [I |-> <<2, 2>>, Y |-> <<0, 1>>, W |-> <<>>]}

\* tiny (deepest search): stored label, override + reordering + replacement
\* of sample 1, a weighted call (mixing modes is refused)
ArgsTiny == {[I |-> <<1>>, Y |-> <<>>, W |-> <<>>],
             [I |-> <<3, 1>>, Y |-> <<Missing, 1>>, W |-> <<>>],
             [I |-> <<2>>, Y |-> <<0>>, W |-> <<2>>]}

\* sim (random walks): wide plus lists of three distinct samples
Distinct3 == {I \in [1..3 -> 1..MCN] : I[1] # I[2] /\ I[1] # I[3] /\ I[2] # I[3]}
ArgsSim == ArgsWide \cup UNION {ArgsOf(I, {<<>>, <<0, 1, Missing>>, <<1, 1, 0>>, <<Missing, 0, 0>>},
                                           {<<>>, <<1, 2, 1>>, <<2, 2, 2>>}) : I \in Distinct3}

MCArgs == CASE Alphabet = "tiny" -> ArgsTiny
            [] Alphabet = "sim" -> ArgsSim
            [] Alphabet = "narrow" -> ArgsNarrow
            [] Alphabet = "mid" -> ArgsMid
            [] OTHER -> ArgsWide

AllS == [k \in 1..MCN |-> k]
MCPreArgs ==
    IF Alphabet \in {"wide", "sim"}
    THEN {[F |-> f, P |-> p, fp |-> a, pp |-> b] :
            f \in {AllS, <<1>>, <<2, 3>>}, p \in {AllS, <<2>>, <<1, 3>>},
            a \in {"all", "labeled"}, b \in {"all", "unlabeled"}}
    ELSE IF Alphabet = "tiny"
    THEN {[F |-> <<1, 3>>, P |-> AllS, fp |-> "all", pp |-> "all"]}
    ELSE {[F |-> AllS, P |-> AllS, fp |-> "all", pp |-> "all"],
          [F |-> AllS, P |-> AllS, fp |-> "labeled", pp |-> "all"],
          [F |-> <<1, 2>>, P |-> <<3>>, fp |-> "all", pp |-> "unlabeled"]}

InitYs == IF MCN = 3 THEN {<<0, 1, Missing>>}
          ELSE {[k \in 1..MCN |-> IF k = MCN THEN Missing ELSE k % 2],
                [k \in 1..MCN |-> IF k = 1 THEN 1 ELSE IF k % 2 = 0 THEN Missing ELSE 0]}
InitWs == {<<>>, [k \in 1..MCN |-> 1 + (k % 2)]}

AllCfgs == {[n |-> MCN, kind |-> kd, su |-> su, eu |-> eu, ipf |-> ipf,
             initY |-> y, initW |-> w, prefit |-> pf, preI |-> <<1, 2>>] :
            kd \in {"pwc", "nb", "lr"}, su \in BOOLEAN, eu \in BOOLEAN, ipf \in BOOLEAN,
            y \in InitYs, w \in InitWs, pf \in Prefits}
MCCfgs == {c \in AllCfgs : CfgSel = "all" \/ ((c.kind # "pwc" => ~c.su) /\ (c.kind # "nb" => ~c.ipf))}

MCInit == Init /\ done = FALSE

\* exhaustive model checking: all behaviours of up to Depth calls (the initial
\* state has level 1; states reached by Depth calls are checked, not expanded)
MCNext == TLCGet("level") <= Depth /\ Next /\ UNCHANGED done
MCSpec == MCInit /\ [][MCNext]_mvars
\* configurations the state machine cannot tell apart (it reads cfg only
\* through Native, SU, eu, the stored labels / weights and the prefit mode)
\* are explored once
MCView == <<Native, SU, cfg.eu, cfg.initY, cfg.initW, cfg.prefit, core, status, last, done>>

\* generator: calls only (predictions are observed by the driver after every
\* call), and Emit prints a behaviour once it is complete.  Random walks
\* draw their arguments from the wide alphabet; they start with a precompute
\* when the speed-up is in effect (otherwise nothing could be predicted) and
\* prefer fit while nothing is fitted.
FullPre == [F |-> AllS, P |-> AllS, fp |-> "all", pp |-> "all"]
GenOps ==
    IF Sample = 0 THEN Ops
    ELSE IF SU /\ hist = <<>>
    THEN {PreOp(FullPre)} \cup {PreOp(p) : p \in RandomSubset(1, MCPreArgs)}
    ELSE LET A == RandomSubset(Sample, MCArgs)
             B == RandomSubset(1, MCArgs)
         IN {FitOp(a, sb) : a \in A, sb \in BOOLEAN}
            \cup {PFOp(a, ub, sb) : a \in (IF fitted THEN A ELSE B), ub \in BOOLEAN, sb \in BOOLEAN}
            \cup {PreOp(p) : p \in RandomSubset(1, MCPreArgs)}
Complete == Len(hist) >= Depth \/ status = "broken"
GenNext == \/ /\ ~done /\ ~Complete
              /\ \E op \in GenOps : Call(op)
              /\ UNCHANGED done
           \/ /\ ~done /\ Complete
              /\ PrintT(ToJson([cfg |-> cfg, hist |-> hist]))
              /\ done' = TRUE
              /\ UNCHANGED vars
GenSpec == MCInit /\ [][GenNext]_mvars
=============================================================================
