----------------------------- MODULE RankingTrace -----------------------------
(* Batch validation of recorded combine_ranking calls: the observed combined *)
(* ranking (as dense ranks) must satisfy Ranking!LexOrderOK.                 *)
EXTENDS Ranking, Json, IOUtils, TLCExt
Traces == JsonDeserialize(IOEnv.TRACE_FILE)
VARIABLES tid, l
tvars == <<vars, tid, l>>
ASSUME \A t \in 1..Len(Traces) : TLCSet(t, 0)
T  == Traces[tid]
Ev == T.events[l]
C(name, cond) == Chk(tid, l, name, cond)
IsEvent(e) == /\ l <= Len(T.events) /\ Ev.ev = e /\ l' = l + 1 /\ tid' = tid
TInit == /\ tid \in 1..Len(Traces) /\ l = 1 /\ rs = Traces[tid].rs /\ res = <<>> /\ phase = "call"
TResult == /\ IsEvent("Result")
           /\ C("shape", Len(Ev.c) = N)
           /\ C("nan-exactly-where-first-ranking-is-nan", \A i \in 1..N : (Ev.c[i] = NaN) <=> (rs[1][i] = NaN))
           /\ C("hierarchical-order", LexOrderOK(rs, Ev.c))
           /\ res' = Ev.c /\ phase' = "done" /\ UNCHANGED rs
TNext == TResult
TSpec == TInit /\ [][TNext]_tvars
Progress == TLCSet(tid, IF TLCGet(tid) < l THEN l ELSE TLCGet(tid))
Post == /\ PrintT(<<"VALIDATED", Len(Traces)>>)
        /\ \A t \in 1..Len(Traces) :
             IF TLCGet(t) = Len(Traces[t].events) + 1 THEN TRUE
             ELSE PrintT(<<"REJECT", t, TLCGet(t)>>)
=============================================================================
