SPECIFICATION Spec
CONSTANTS
  MaxN = 5
  Coords = {0, 1, 2, 4}
  Deltas = {0, 1, 2}
  MaxBS = 3
  ForgetCover = TRUE
INVARIANT DiminishingReturns
CHECK_DEADLOCK FALSE
