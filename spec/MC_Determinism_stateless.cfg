SPECIFICATION Spec
CONSTANTS
  MaxCalls = 3
  MaxGlobal = 4
  Args = {1, 2}
  UsesGlobal = FALSE
  Stateful = FALSE
INVARIANT Reproducible
CHECK_DEADLOCK FALSE
