INIT PairInit
NEXT MCNext
CONSTANTS
  DataSets <- MCDataSets
  ParamVals <- MCParamVals1
  Kinds = {"plain"}
  WindowSizes = {0}
  MaxDepth = 1
  WriteBack = FALSE
  FitOnAll = FALSE
  StaleWindow = FALSE
  GenN = 2
  GenA = 2
  GenSetParams = FALSE
CHECK_DEADLOCK FALSE
CONSTRAINT GenPair
