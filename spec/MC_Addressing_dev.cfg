SPECIFICATION Spec
CONSTANTS
  MaxN = 4
  Vals <- MCVals
  PositionInsteadOfId = TRUE
INVARIANT ModeEquiv
INVARIANT NaNOutside
CHECK_DEADLOCK FALSE
