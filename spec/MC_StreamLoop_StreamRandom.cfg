SPECIFICATION Spec
CONSTANTS
  MKind = "StreamRandom"
  MB <- MCB
  WSize = 3
  MaxT = 7
  RndLen = 7
  LeakLabels = FALSE
INVARIANT BudgetRespected
INVARIANT OnlyAcquiredLabels
INVARIANT WindowIsLatest
INVARIANT ModelOnWindow
CHECK_DEADLOCK FALSE
