------------------------------- MODULE Labels -------------------------------
(***************************************************************************)
(* skactiveml/utils/_label.py         is_unlabeled, is_labeled,            *)
(*                                    unlabeled_indices, labeled_indices,  *)
(*                                    check_missing_label                  *)
(* skactiveml/utils/_label_encoder.py ExtLabelEncoder                      *)
(*                                                                         *)
(* Abstract domain: a label array holds classes 0..K-1 and the marker      *)
(* Missing (= -1).  An array is a record                                   *)
(*     [ndim |-> 1|2, rows |-> r, cols |-> c, flat |-> <<...>>]            *)
(* with the entries in row-major order (ndim = 1: cols = 1, rows = length; *)
(* rows = 0 is the empty array; 2-D arrays have cols >= 1, which is the    *)
(* documented precondition 'n_features > 0' of _label.py:50-55).           *)
(* The harness concretises an abstract array under a grid of label dtypes, *)
(* missing-label sentinels and order-preserving class renamings and        *)
(* projects what the code returns back into this domain.                   *)
(*                                                                         *)
(* One action per public call of the encoder:                              *)
(*   Fit        _label_encoder.py:34-72                                    *)
(*   Transform  _label_encoder.py:90-117                                   *)
(*   Inverse    _label_encoder.py:119-146                                  *)
(* the predicates / index functions are pure operators, and CheckMissing   *)
(* is the accept/reject table of check_missing_label (_label.py:121-160).  *)
(***************************************************************************)
EXTENDS Common

CONSTANTS MaxK,      \* largest number of classes
          MaxLen,    \* longest 1-D array
          MaxRows,   \* 2-D arrays have 0..MaxRows rows ...
          MaxCols    \* ... and 1..MaxCols columns

Missing == -1

VARIABLES y,         \* the caller's label array (never changes)
          K,         \* classes are 0..K-1
          explicit,  \* TRUE: the encoder is given classes = [0..K-1]
          phase,     \* "new" | "fitted" | "encoded" | "decoded"
          classes,   \* classes_ of the fitted encoder (sequence)
          enc,       \* result of transform(y)   (flat, row-major)
          dec        \* result of inverse_transform(enc)

vars == <<y, K, explicit, phase, classes, enc, dec>>

---------------------------------------------------------------------------
\* arrays
LabelVals(k) == (0..(k - 1)) \cup {Missing}

Arrays1(k) == UNION {{[ndim |-> 1, rows |-> n, cols |-> 1, flat |-> f] :
                         f \in [1..n -> LabelVals(k)]} : n \in 0..MaxLen}
Arrays2(k) == UNION {{[ndim |-> 2, rows |-> rc[1], cols |-> rc[2], flat |-> f] :
                         f \in [1..(rc[1] * rc[2]) -> LabelVals(k)]} :
                     rc \in (0..MaxRows) \X (1..MaxCols)}

Size(a)  == Len(a.flat)
Shape(a) == IF a.ndim = 1 THEN <<a.rows>> ELSE <<a.rows, a.cols>>
WellFormed(a) == /\ a.ndim \in {1, 2}
                 /\ (a.ndim = 1 => a.cols = 1)
                 /\ a.cols >= 1 /\ a.rows >= 0
                 /\ Size(a) = a.rows * a.cols

---------------------------------------------------------------------------
\* predicates (_label.py:9-79).  is_labeled is literally ~is_unlabeled.
IsUnlabeled(a) == [i \in 1..Size(a) |-> a.flat[i] = Missing]
IsLabeled(a)   == [i \in 1..Size(a) |-> ~IsUnlabeled(a)[i]]

\* index functions (_label.py:82-118): np.argwhere enumerates the True
\* entries of the mask in row-major order; 1-D arrays give 0-based positions,
\* 2-D arrays give 0-based <<row, column>> pairs.
RECURSIVE Sel(_, _)
Sel(mask, i) == IF i > Len(mask) THEN <<>>
                ELSE (IF mask[i] THEN <<i>> ELSE <<>>) \o Sel(mask, i + 1)

Pos(a, i) == IF a.ndim = 1 THEN i - 1
             ELSE <<(i - 1) \div a.cols, (i - 1) % a.cols>>

IndicesOf(a, mask) == LET s == Sel(mask, 1) IN [j \in 1..Len(s) |-> Pos(a, s[j])]
UnlabeledIndices(a) == IndicesOf(a, IsUnlabeled(a))
LabeledIndices(a)   == IndicesOf(a, IsLabeled(a))

---------------------------------------------------------------------------
\* encoder
RECURSIVE SortedSeq(_)
SortedSeq(S) == IF S = {} THEN <<>>
                ELSE LET m == CHOOSE x \in S : \A z \in S : x <= z
                     IN <<m>> \o SortedSeq(S \ {m})

Present(a) == {a.flat[i] : i \in 1..Size(a)} \ {Missing}

\* fit: the sorted distinct labels of y, or the (sorted) explicit class list
FitClasses(a, k, ex) == IF ex THEN [c \in 1..k |-> c - 1] ELSE SortedSeq(Present(a))

CodeOf(cls, v) == (CHOOSE c \in 1..Len(cls) : cls[c] = v) - 1
Known(cls, a)  == Present(a) \subseteq Range(cls)
TransformOf(cls, a) == [i \in 1..Size(a) |->
                           IF a.flat[i] = Missing THEN -1 ELSE CodeOf(cls, a.flat[i])]
InverseOf(cls, e) == [i \in 1..Len(e) |-> IF e[i] = -1 THEN Missing ELSE cls[e[i] + 1]]

InitWith(a, k, ex) ==
    /\ y = a /\ K = k /\ explicit = ex /\ phase = "new"
    /\ classes = <<>> /\ enc = <<>> /\ dec = <<>>

\* without an explicit class list only the value domain matters, so that
\* mode is explored with the largest domain only
Init == \E k \in 1..MaxK, ex \in BOOLEAN :
          /\ (~ex => k = MaxK)
          /\ \E a \in Arrays1(k) \cup Arrays2(k) : InitWith(a, k, ex)

Fit == /\ phase = "new"
       /\ classes' = FitClasses(y, K, explicit)
       /\ phase' = "fitted"
       /\ UNCHANGED <<y, K, explicit, enc, dec>>

Transform == /\ phase = "fitted"
             /\ Known(classes, y)            \* unseen labels are a ValueError
             /\ enc' = TransformOf(classes, y)
             /\ phase' = "encoded"
             /\ UNCHANGED <<y, K, explicit, classes, dec>>

Inverse == /\ phase = "encoded"
           /\ dec' = InverseOf(classes, enc)
           /\ phase' = "decoded"
           /\ UNCHANGED <<y, K, explicit, classes, enc>>

Next == Fit \/ Transform \/ Inverse
Spec == Init /\ [][Next]_vars

---------------------------------------------------------------------------
(* The accept / reject table of check_missing_label(missing_label,          *)
(* target_type), _label.py:121-160.                                         *)
(*   sentinel kinds: "nan" (np.nan, a number), "none" (None), "num" (any    *)
(*       other number), "str" (a string), "other" (anything else: list,     *)
(*       tuple, arbitrary object)                                           *)
(*   dtype kinds:    "num" (integer / float), "str" (character),            *)
(*       "obj" (object), "any" (target_type = None)                         *)
(* Documented (docstring 'number or str or None or np.nan' and the explicit *)
(* raise statements, asserted by utils/tests/test_label.py):                *)
(*   - a sentinel that is neither number, string nor None is a TypeError;   *)
(*   - a numeric sentinel is incompatible with string labels;               *)
(*   - a string sentinel is incompatible with numeric labels;               *)
(*   - object labels admit only None;                                       *)
(*   - None is compatible with everything.                                  *)
(***************************************************************************)
SentKinds  == {"nan", "none", "num", "str", "other"}
DtypeKinds == {"num", "str", "obj", "any"}

CheckMissing(s, d) ==
    IF s = "other" THEN "raise"
    ELSE IF d = "any" THEN "ok"
    ELSE IF d = "str" /\ s \in {"nan", "num"} THEN "raise"
    ELSE IF d = "num" /\ s = "str" THEN "raise"
    ELSE IF d = "obj" /\ s # "none" THEN "raise"
    ELSE "ok"

(* What a call on an array of dtype kind d with sentinel kind s must do:    *)
(* "ok" (return a value), "raise" (TypeError) or "either" (not specified).  *)
(* The predicates apply the table to the common type of labels and          *)
(* sentinel.  Two corners are left unspecified on purpose:                  *)
(*   - empty arrays: is_unlabeled returns before looking at the dtype       *)
(*     (_label.py:26-27) and an empty list has no label type at all;        *)
(*   - a number *ndarray* with a string sentinel: numpy's common type of    *)
(*     the two is a string type, so the table is consulted with "str"/"str" *)
(*     (_label.py:47-48, see the Todo at _label.py:58-60); for python lists *)
(*     the explicit uniformity test (_label.py:28-46) raises.               *)
(* The encoder consults the table with the dtype of y itself                *)
(* (_label_encoder.py:57-59), so only the empty-array corner remains.       *)
PredExpect(s, d, form, empty) ==
    IF CheckMissing(s, d) = "ok" THEN "ok"
    ELSE IF empty THEN "either"
    ELSE IF d = "num" /\ s = "str" /\ form = "ndarray" THEN "either"
    ELSE "raise"

EncExpect(s, d, empty) ==
    IF CheckMissing(s, d) = "ok" THEN "ok"
    ELSE IF empty THEN "either"
    ELSE "raise"

\* sanity of the table itself
ASSUME \A d \in DtypeKinds : CheckMissing("none", d) = "ok" /\ CheckMissing("other", d) = "raise"
ASSUME \A s \in SentKinds \ {"other"} : CheckMissing(s, "any") = "ok"
ASSUME \A s \in SentKinds : CheckMissing(s, "obj") = "ok" <=> s = "none"
ASSUME CheckMissing("nan", "num") = "ok" /\ CheckMissing("num", "num") = "ok"
       /\ CheckMissing("str", "str") = "ok"

---------------------------------------------------------------------------
\* Properties (C16)
TypeOK == /\ WellFormed(y)
          /\ phase \in {"new", "fitted", "encoded", "decoded"}
          /\ K \in 1..MaxK /\ explicit \in BOOLEAN

\* is_labeled is the exact complement of is_unlabeled, and is_unlabeled marks
\* precisely the missing entries
Complement == \A i \in 1..Size(y) :
                 /\ IsLabeled(y)[i] = ~IsUnlabeled(y)[i]
                 /\ IsUnlabeled(y)[i] <=> (y.flat[i] = Missing)

\* row-major order of 0-based positions
PosLess(a, p, q) == IF a.ndim = 1 THEN p < q
                    ELSE p[1] < q[1] \/ (p[1] = q[1] /\ p[2] < q[2])
Increasing(a, s) == \A j \in 1..(Len(s) - 1) : PosLess(a, s[j], s[j + 1])
AllPos(a) == {Pos(a, i) : i \in 1..Size(a)}

\* the two index lists enumerate, in order, a partition of all positions into
\* missing and present entries
IndexOrder ==
    LET u == UnlabeledIndices(y)
        v == LabeledIndices(y)
    IN /\ Increasing(y, u) /\ Increasing(y, v)
       /\ Range(u) = {Pos(y, i) : i \in {k \in 1..Size(y) : y.flat[k] = Missing}}
       /\ Range(v) = {Pos(y, i) : i \in {k \in 1..Size(y) : y.flat[k] # Missing}}
       /\ Range(u) \cap Range(v) = {}
       /\ Range(u) \cup Range(v) = AllPos(y)
       /\ Len(u) + Len(v) = Size(y)

\* classes_ is strictly increasing and holds exactly the given / seen classes
Sorted == phase # "new" =>
            /\ \A c \in 1..(Len(classes) - 1) : classes[c] < classes[c + 1]
            /\ Range(classes) = (IF explicit THEN 0..(K - 1) ELSE Present(y))
            /\ Missing \notin Range(classes)

\* transform: missing -> -1, class -> its rank in classes_ (0..K-1), order
\* preserving
Encoding == phase \in {"encoded", "decoded"} =>
              /\ Len(enc) = Size(y)
              /\ \A i \in 1..Size(y) :
                    /\ (enc[i] = -1) <=> (y.flat[i] = Missing)
                    /\ enc[i] \in -1..(Len(classes) - 1)
                    /\ enc[i] # -1 => classes[enc[i] + 1] = y.flat[i]
              /\ \A i, j \in 1..Size(y) :
                    (y.flat[i] # Missing /\ y.flat[j] # Missing) =>
                        ((y.flat[i] < y.flat[j]) <=> (enc[i] < enc[j]))

\* inverse_transform(transform(y)) reproduces y
RoundTrip == phase = "decoded" => dec = y.flat

\* a fitted encoder can always encode the array it was fitted on
NoStuck == phase = "fitted" => ENABLED Transform
=============================================================================
