SPECIFICATION TSpec
CONSTANTS
  MaxK = 3
  MaxLen = 0
  MaxRows = 0
  MaxCols = 1
CONSTRAINT Progress
INVARIANT Complement
INVARIANT IndexOrder
INVARIANT Sorted
INVARIANT Encoding
INVARIANT RoundTrip
POSTCONDITION Post
CHECK_DEADLOCK FALSE
