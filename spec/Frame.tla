-------------------------------- MODULE Frame --------------------------------
(***************************************************************************)
(* Frame conditions of a pool query (C05): what a query may NOT change.    *)
(* The observable environment of a strategy object is abstracted to opaque *)
(* identifiers (digests numbered by the harness):                          *)
(*   data    caller-owned arrays: X, y, candidates, sample_weight,         *)
(*           utility_weight (a record of ids)                              *)
(*   model   the classifier / regressor / ensemble / discriminator handed  *)
(*           in: get_params(deep=True) + fitted attributes                 *)
(*   params  the strategy's own get_params(deep=True), dictionaries and    *)
(*           nested estimators by content                                  *)
(* Actions: Query (must leave all three unchanged), SetParams (the only    *)
(* way `params` may change), Clone (a new object with equal params).       *)
(***************************************************************************)
EXTENDS Naturals, Sequences, TLC

CONSTANTS Ids        \* identifiers available to the model checker

VARIABLES data, model, params, results
vars == <<data, model, params, results>>

Init == data \in Ids /\ model \in Ids /\ params \in Ids /\ results = <<>>

\* a query is a function of (params, data, model) and leaves them alone
Query(r) == /\ results' = Append(results, <<params, data, model, r>>)
            /\ UNCHANGED <<data, model, params>>
SetParams(p) == params' = p /\ UNCHANGED <<data, model, results>>
CallerEdits(d, m) == data' = d /\ model' = m /\ UNCHANGED <<params, results>>

Next == (\E r \in Ids : Query(r)) \/ (\E p \in Ids : SetParams(p))
        \/ (\E d, m \in Ids : CallerEdits(d, m))
Spec == Init /\ [][Next]_vars

\* C05 as an action property: a step that appends a result changes nothing else
QueryFrame == [][(Len(results') > Len(results)) =>
                    (data' = data /\ model' = model /\ params' = params)]_vars
=============================================================================
