----------------------------- MODULE CognitiveQS -----------------------------
(***************************************************************************)
(* skactiveml/stream/_density_uncertainty.py : CognitiveDualQueryStrategy  *)
(* (and its Ran / FixUn / VarUn / RanVarUn variants), strategy layer on    *)
(* top of a budget manager (Budget.tla).  Committed state (record `c`):    *)
(*   cw  cognition_window_  the remembered instances (integer features)    *)
(*   md  min_dist_          distance of each remembered instance to its    *)
(*                          nearest later instance (Inf = none yet)        *)
(*   th  theta_             how often the instance was "recalled"          *)
(*   tx  t_x_               time stamp of the last recall                  *)
(*   t   t_                 number of instances seen                       *)
(* CStep is one call of _calculate_ldf: the local density factor of x is   *)
(* the number of remembered instances for which x is a new nearest         *)
(* neighbour; those are recalled (theta + 1, time stamp := t).  When the   *)
(* window holds more than CWS instances the one with the weakest memory    *)
(* strength exp(-(t - tx) / (theta + 1)) is forgotten.  The strength order *)
(* is decided exactly on the rationals (t - tx)/(theta + 1); exact ties    *)
(* are resolved nondeterministically (any tied instance may be forgotten), *)
(* so CStep yields a SET of successor states.                              *)
(* query simulates a chunk and restores everything; the manager is asked   *)
(* once per candidate that passes the density threshold (NaN utility for   *)
(* the others when force_full_budget) and is NOT advanced inside the       *)
(* chunk.  update: with force_full_budget the manager is advanced over the *)
(* whole chunk (NaN for the filtered candidates); without it (the default) *)
(* the manager is advanced over the candidates that pass the density       *)
(* threshold only (CWPFold yields the pass pattern along with the window). *)
(* The code hands that filtered list to the manager together with the      *)
(* UNFILTERED indices - right exactly when no filtered candidate precedes  *)
(* a queried one (FilteredBeforeQueried; recorded finding otherwise).      *)
(***************************************************************************)
EXTENDS DensityQS

InitC == [cw |-> <<>>, md |-> <<>>, th |-> <<>>, tx |-> <<>>, t |-> 0]

RemoveAt(s, r) == [k \in 1..(Len(s) - 1) |-> IF k < r THEN s[k] ELSE s[k + 1]]

\* weakest memory: largest (t - tx[k]) / (th[k] + 1)
Weakest(c, tx2, th2) ==
    {r \in DOMAIN c.cw :
        \A k \in DOMAIN c.cw :
            (c.t - tx2[k]) * (th2[r] + 1) <= (c.t - tx2[r]) * (th2[k] + 1)}

\* set of [ldf, c] after one candidate x
CStep(cws, c, x) ==
    LET m == Len(c.cw)
        d == [k \in 1..m |-> Dist(c.cw[k], x)]
        isNew == [k \in 1..m |-> d[k] < c.md[k]]
        ldf == Cardinality({k \in 1..m : isNew[k]})
        tx2 == [k \in 1..m |-> IF isNew[k] THEN c.t ELSE c.tx[k]]
        th2 == [k \in 1..m |-> IF isNew[k] THEN c.th[k] + 1 ELSE c.th[k]]
        md2 == [k \in 1..m |-> IF isNew[k] THEN d[k] ELSE c.md[k]]
        own == IF m = 0 THEN Inf ELSE MinOf({d[k] : k \in 1..m})
        md3 == md2 \o <<own>>
    IN IF m > cws
       THEN {[ldf |-> ldf,
              c |-> [cw |-> RemoveAt(c.cw, r) \o <<x>>, md |-> RemoveAt(md3, r),
                     th |-> RemoveAt(th2, r) \o <<0>>, tx |-> RemoveAt(tx2, r) \o <<c.t>>, t |-> c.t]]
             : r \in Weakest(c, tx2, th2)}
       ELSE {[ldf |-> ldf,
              c |-> [cw |-> c.cw \o <<x>>, md |-> md3, th |-> th2 \o <<0>>, tx |-> tx2 \o <<c.t>>, t |-> c.t]]}

Tick(c) == [c EXCEPT !.t = c.t + 1]

\* set of decision sequences of query(chunk) (the manager state cm is not advanced)
RECURSIVE CQFold(_, _, _, _, _, _, _, _, _, _)
CQFold(P, cws, thr, c, cm, xs, us, rnd, wants, i) ==
    IF i > Len(xs) THEN {<<>>}
    ELSE UNION {
           LET passes == r.ldf >= thr
               step == SimStep(P, cm, IF passes THEN us[i] ELSE NaNR, rnd, wants[i])
               d == passes /\ step.d
           IN {<<d>> \o rest : rest \in CQFold(P, cws, thr, Tick(r.c), cm, xs, us, rnd, wants, i + 1)}
         : r \in CStep(cws, c, xs[i])}

\* set of window states after update(chunk)
RECURSIVE CWFold(_, _, _, _)
CWFold(cws, c, xs, i) ==
    IF i > Len(xs) THEN {c}
    ELSE UNION {CWFold(cws, Tick(r.c), xs, i + 1) : r \in CStep(cws, c, xs[i])}

\* set of [c |-> window after update(chunk), pass |-> which candidates passed the density threshold]
RECURSIVE CWPFold(_, _, _, _, _)
CWPFold(cws, thr, c, xs, i) ==
    IF i > Len(xs) THEN {[c |-> c, pass |-> <<>>]}
    ELSE UNION {{[c |-> r2.c, pass |-> <<r.ldf >= thr>> \o r2.pass]
                 : r2 \in CWPFold(cws, thr, Tick(r.c), xs, i + 1)}
               : r \in CStep(cws, c, xs[i])}

\* subsequence of s at the positions where keep is TRUE
RECURSIVE SelSeq(_, _)
SelSeq(s, keep) == IF s = <<>> THEN <<>>
                   ELSE (IF Head(keep) THEN <<Head(s)>> ELSE <<>>) \o SelSeq(Tail(s), Tail(keep))

FilteredBeforeQueried(pass, qs) ==
    \E i, j \in DOMAIN qs : i < j /\ ~pass[i] /\ qs[j]
=============================================================================
