SPECIFICATION Spec
CONSTANTS
  CWS = 2
  Depth = 7
INVARIANT Aligned
INVARIANT Bounded
INVARIANT Stamps
INVARIANT NewestKept
CHECK_DEADLOCK FALSE
