------------------------------ MODULE MultiAnnot ------------------------------
(***************************************************************************)
(* Multi-annotator pool queries (skactiveml/base.py                        *)
(* MultiAnnotatorPoolQueryStrategy, pool/multiannotator/_wrapper.py        *)
(* SingleAnnotatorWrapper, _interval_estimation_threshold.py).             *)
(*                                                                         *)
(* Rows are the candidate samples (sample ids 1..NS, or row numbers when   *)
(* candidates are feature rows), columns the annotators 1..NA.  `Avail` is *)
(* the set of available <<row, annotator>> pairs, defined from the         *)
(* candidates / annotators arguments in the five documented ways:          *)
(*   "none-none"  both None: the pairs whose label is still missing        *)
(*   "x-idx"      annotators as indices: every row x the given annotators  *)
(*   "x-mask"     annotators as Boolean matrix: the pairs that are True    *)
(*   "x-none"     candidates given, annotators None: rows x all annotators *)
(* combined with candidates None / indices / feature rows.                 *)
(*                                                                         *)
(* SingleAnnotatorWrapper: Validate clips the batch size to #Avail; Rank   *)
(* lets the wrapped single-annotator strategy order the candidate rows;    *)
(* Assign decides how many annotators each ranked row gets (n_annotators_  *)
(* per_sample, raised while the batch cannot be filled: RaiseAssign is one *)
(* iteration of that loop); PickPair takes the best available pair of the  *)
(* current row.                                                            *)
(* Deviation switch RankAny (code-shaped, _wrapper.py:467-485 at the       *)
(* pinned commit): the ranking may contain rows without any available      *)
(* annotator and the raise loop is not clipped to the reachable number of  *)
(* pairs - then RaiseAssign can repeat forever.                            *)
(***************************************************************************)
EXTENDS Common

CONSTANTS MaxS, MaxA, RankAny

VARIABLES NS, NA, Avail, bs0, pref,      \* arguments
          bs, rank, per, picked, cur, phase
vars == <<NS, NA, Avail, bs0, pref, bs, rank, per, picked, cur, phase>>

RowsOf(A) == {p[1] : p \in A}
AvailOf(A, s) == {p[2] : p \in {q \in A : q[1] = s}}
NAvail(s) == Cardinality(AvailOf(Avail, s))

InitWith(ns, na, av, b, pr) ==
    /\ NS = ns /\ NA = na /\ Avail = av /\ bs0 = b /\ pref = pr
    /\ bs = b /\ rank = <<>> /\ per = <<>> /\ picked = <<>> /\ cur = 1 /\ phase = "validate"

Init == \E ns \in 1..MaxS, na \in 1..MaxA :
          \E av \in SUBSET ((1..ns) \X (1..na)), b \in 1..(ns * na + 1), pr \in 1..na :
             av # {} /\ InitWith(ns, na, av, b, pr)

Validate == /\ phase = "validate"
            /\ bs' = Min2(bs0, Cardinality(Avail))
            /\ phase' = "rank"
            /\ UNCHANGED <<NS, NA, Avail, bs0, pref, rank, per, picked, cur>>

\* sequences of k distinct elements of S
RECURSIVE Arr(_, _)
Arr(S, k) == IF k = 0 THEN {<<>>}
             ELSE UNION {{<<x>> \o t : t \in Arr(S \ {x}, k - 1)} : x \in S}

\* the wrapped strategy ranks min(bs, #rows) candidate rows
Rankable == IF RankAny THEN 1..NS ELSE RowsOf(Avail)
Rank == /\ phase = "rank"
        /\ \E r \in Arr(Rankable, Min2(bs, Cardinality(Rankable))) : rank' = r
        /\ per' = [i \in 1..Len(rank') |-> Min2(NAvail(rank'[i]), pref)]
        /\ phase' = "assign"
        /\ UNCHANGED <<NS, NA, Avail, bs0, pref, bs, picked, cur>>

Total(p) == SumSeq(p)
\* one iteration of the while loop of _n_to_assign_annotators
RaiseAssign == /\ phase = "assign" /\ Total(per) < bs
               /\ per' = [i \in DOMAIN per |-> Min2(NAvail(rank[i]), per[i] + 1)]
               /\ UNCHANGED <<NS, NA, Avail, bs0, pref, bs, rank, picked, cur, phase>>
EndAssign == /\ phase = "assign" /\ Total(per) >= bs
             /\ phase' = "pick"
             /\ UNCHANGED <<NS, NA, Avail, bs0, pref, bs, rank, per, picked, cur>>

Taken(s) == {p[2] : p \in {q \in Range(picked) : q[1] = s}}
PickPair(a) ==
    /\ phase = "pick" /\ Len(picked) < bs /\ cur <= Len(rank)
    /\ a \in AvailOf(Avail, rank[cur]) \ Taken(rank[cur])
    /\ picked' = Append(picked, <<rank[cur], a>>)
    /\ cur' = IF Cardinality(Taken(rank[cur])) + 1 >= per[cur] THEN cur + 1 ELSE cur
    /\ UNCHANGED <<NS, NA, Avail, bs0, pref, bs, rank, per, phase>>
\* a ranked row without assigned annotators is skipped
SkipRow == /\ phase = "pick" /\ Len(picked) < bs /\ cur <= Len(rank) /\ per[cur] = 0
           /\ cur' = cur + 1
           /\ UNCHANGED <<NS, NA, Avail, bs0, pref, bs, rank, per, picked, phase>>
Finish == /\ phase = "pick" /\ Len(picked) = bs
          /\ phase' = "done"
          /\ UNCHANGED <<NS, NA, Avail, bs0, pref, bs, rank, per, picked, cur>>

Next == Validate \/ Rank \/ RaiseAssign \/ EndAssign \/ (\E a \in 1..NA : PickPair(a)) \/ SkipRow \/ Finish
Spec == Init /\ [][Next]_vars /\ WF_vars(Next)

---------------------------------------------------------------------------
\* C07
PairsOK == phase = "done" =>
             /\ Len(picked) = Min2(bs0, Cardinality(Avail))
             /\ Distinct(picked)
             /\ Range(picked) \subseteq Avail
\* rows appear in consecutive groups; a row with at least `pref` available
\* annotators ("enough annotators are available") that is not the last row of
\* the batch gets at least `pref` pairs, and no row gets more than it has
Groups == LET firsts == {i \in DOMAIN picked : i = 1 \/ picked[i][1] # picked[i - 1][1]}
          IN firsts
Contiguous == \A i, j \in DOMAIN picked :
                (i < j /\ picked[i][1] = picked[j][1]) => \A k \in i..j : picked[k][1] = picked[i][1]
PerSampleOK == phase = "done" =>
                 /\ Contiguous
                 /\ \A s \in RowsOf(Range(picked)) :
                      LET cnt == Cardinality(Taken(s))
                          isLast == picked[Len(picked)][1] = s
                      IN /\ cnt <= NAvail(s)
                         /\ ((~isLast /\ NAvail(s) >= pref) => cnt >= pref)
NoStuckPick == phase = "pick" => ENABLED (Next)
Termination == <>(phase = "done")
=============================================================================
