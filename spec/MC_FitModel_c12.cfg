INIT MCInit
NEXT MCNext
CONSTANTS
  DataSets <- MCDataSetsAll
  ParamVals <- MCParamVals
  Kinds = {"plain"}
  WindowSizes = {0}
  MaxDepth = 2
  WriteBack = FALSE
  FitOnAll = FALSE
  StaleWindow = FALSE
  GenN = 1
  GenA = 1
  GenSetParams = FALSE
CHECK_DEADLOCK FALSE
INVARIANT TypeOK
INVARIANT ParamsFrameInv
INVARIANT HistoryFree
INVARIANT FitIgnoresUnlabeled
