------------------------------- MODULE MC_Cover -------------------------------
EXTENDS Cover, Json
RECURSIVE SortedSeq(_)
SortedSeq(S) == IF S = {} THEN <<>>
                ELSE LET m == CHOOSE m \in S : \A k \in S : m <= k IN <<m>> \o SortedSeq(S \ {m})
GenCase == IF picks = <<>>
           THEN PrintT(ToJson([U |-> U, delta |-> delta, cands |-> SortedSeq(cands), bs |-> bs])) /\ FALSE
           ELSE FALSE
=============================================================================
