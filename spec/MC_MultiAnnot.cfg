SPECIFICATION Spec
CONSTANTS
  MaxS = 3
  MaxA = 2
  RankAny = FALSE
INVARIANT PairsOK
INVARIANT PerSampleOK
INVARIANT NoStuckPick
PROPERTY Termination
CHECK_DEADLOCK FALSE
