---------------------------- MODULE MC_DensityQS ----------------------------
(* Model checking of the density strategy layer: the environment chooses    *)
(* chunks of integer features with utilities; checked: query is pure        *)
(* (nothing but update changes win/md/cm), update commits the window the    *)
(* query simulated, and - for Advance = TRUE only - chunking invariance and *)
(* the density bound of C04; with Advance = FALSE (the code) both fail.     *)
EXTENDS DensityQS
CONSTANTS WS, Adv, Depth, MaxChunk, BNum, BDen
P == [kind |-> "Fixed", W |-> 2, B |-> <<BNum, BDen>>, S |-> <<1, 2>>, Theta0 |-> <<1, 1>>,
      K |-> 2, WTol |-> <<2, 1>>, Allow |-> FALSE, Stale |-> FALSE, Sharp |-> FALSE]
VARIABLES win, md, cm, n, granted, shWin, shMd, shCm, shDec, allDec
vars == <<win, md, cm, n, granted, shWin, shMd, shCm, shDec, allDec>>
Feat == {0, 1, 3}
Util == {<<1, 1>>, <<1, 4>>}
NoRnd == <<>>
Init == /\ win = <<>> /\ md = <<>> /\ cm = InitState(P) /\ n = 0 /\ granted = 0
        /\ shWin = <<>> /\ shMd = <<>> /\ shCm = InitState(P) /\ shDec = <<>> /\ allDec = <<>>
RECURSIVE Shadow(_, _, _, _, _, _)
\* the same stream processed one instance at a time (query + update per instance)
Shadow(w, m, c, xs, us, i) ==
    IF i > Len(xs) THEN [win |-> w, md |-> m, cm |-> c, dec |-> <<>>]
    ELSE LET dec == QFold(P, WS, Adv, w, m, c, <<xs[i]>>, <<us[i]>>, NoRnd, <<FALSE>>, 1)
             wf == WFold(WS, w, m, <<xs[i]>>, 1)
             c2 == CommitFold(P, c, dec, <<us[i]>>, NoRnd, c.u, 1)
             rest == Shadow(wf.win, wf.md, c2, xs, us, i + 1)
         IN [win |-> rest.win, md |-> rest.md, cm |-> rest.cm, dec |-> dec \o rest.dec]
Step(xs, us) ==
    /\ n + Len(xs) <= Depth
    /\ LET dec == QFold(P, WS, Adv, win, md, cm, xs, us, NoRnd, [i \in DOMAIN xs |-> FALSE], 1)
           wf == WFold(WS, win, md, xs, 1)
           sh == Shadow(shWin, shMd, shCm, xs, us, 1)
       IN /\ win' = wf.win /\ md' = wf.md
          /\ cm' = CommitFold(P, cm, dec, us, NoRnd, cm.u, 1)
          /\ n' = n + Len(xs) /\ granted' = granted + Cardinality({i \in DOMAIN dec : dec[i]})
          /\ allDec' = allDec \o dec
          /\ shWin' = sh.win /\ shMd' = sh.md /\ shCm' = sh.cm /\ shDec' = shDec \o sh.dec
Next == \E k \in 1..MaxChunk : \E xs \in [1..k -> Feat], us \in [1..k -> Util] : Step(xs, us)
Spec == Init /\ [][Next]_vars
WindowOK == Len(win) <= WS /\ Len(md) = Len(win)
ChunkInvariant == allDec = shDec /\ win = shWin /\ md = shMd /\ cm = shCm
NoOverspend == BoundWindow(P, granted, n)
=============================================================================
