SPECIFICATION TSpec
CONSTANTS
  MaxK = 0
  VoteShapes = {}
  ConfShapes = {}
  Weights = {}
CONSTRAINT Progress
INVARIANT VoteRowSum
INVARIANT VoteSupport
INVARIANT MajorityOK
INVARIANT ConfCounts
INVARIANT ConfNormalised
POSTCONDITION Post
CHECK_DEADLOCK FALSE
