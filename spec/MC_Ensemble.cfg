SPECIFICATION Spec
CONSTANTS
  NMem = 3
  NCls = 2
  NPts = 2
  SharedColumn = FALSE
INVARIANT TypeOK
INVARIANT RowsSumToOne
INVARIANT OwnColumn
INVARIANT Unanimous
INVARIANT PredMaximal
CHECK_DEADLOCK FALSE
