SPECIFICATION Spec
CONSTANTS
  MaxN = 3
  Vals <- MCVals
CONSTRAINT GenCase
CHECK_DEADLOCK FALSE
