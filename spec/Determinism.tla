----------------------------- MODULE Determinism -----------------------------
(***************************************************************************)
(* Reproducibility for a fixed random_state (C06).  Two twin objects A, B  *)
(* are constructed with equal parameters (an integer random_state); each   *)
(* owns a private random stream whose position advances with its own call  *)
(* history.  numpy's process-global generator is a third stream that other *)
(* code may reseed or advance at any time (the "schedules" quantifier).    *)
(*                                                                         *)
(* The result of a call is a function of (parameters, arguments, own       *)
(* history): abstractly the pair <<argument id, private position>>.  The   *)
(* deviation switch UsesGlobal models code that draws from np.random       *)
(* (random_state=None passed down, estimators built without the            *)
(* strategy's seed): then the global position leaks into the result.       *)
(* memo records the first result per key = <<argument id, own history      *)
(* index>>; Reproducible says every later call with the same key - on the  *)
(* same object for stateless calls, on the twin for histories - returns    *)
(* the memoised result.                                                    *)
(***************************************************************************)
EXTENDS Naturals, Sequences, FiniteSets, TLC

CONSTANTS MaxCalls, MaxGlobal, Args, UsesGlobal, Stateful

VARIABLES gpos, hist, memo, ok, nglobal
vars == <<gpos, hist, memo, ok, nglobal>>
Twins == {"A", "B"}

Init == /\ gpos = 0 /\ hist = [t \in Twins |-> 0] /\ memo = <<>> /\ ok = TRUE /\ nglobal = 0

ReseedGlobal(v) == /\ nglobal < MaxGlobal /\ gpos' = v /\ nglobal' = nglobal + 1
                   /\ UNCHANGED <<hist, memo, ok>>
DrawGlobal == /\ nglobal < MaxGlobal /\ gpos' = gpos + 1 /\ nglobal' = nglobal + 1
              /\ UNCHANGED <<hist, memo, ok>>

Result(t, a) == <<a, IF Stateful THEN hist[t] ELSE 0, IF UsesGlobal THEN gpos ELSE 0>>
Key(t, a) == <<a, IF Stateful THEN hist[t] ELSE 0>>
Lookup(k) == {memo[i][2] : i \in {j \in DOMAIN memo : memo[j][1] = k}}

Call(t, a) == /\ hist[t] < MaxCalls
              /\ LET k == Key(t, a)  r == Result(t, a) IN
                   /\ ok' = (ok /\ (Lookup(k) = {} \/ Lookup(k) = {r}))
                   /\ memo' = Append(memo, <<k, r>>)
              /\ hist' = [hist EXCEPT ![t] = hist[t] + 1]
              /\ UNCHANGED <<gpos, nglobal>>

Next == (\E v \in 1..2 : ReseedGlobal(v)) \/ DrawGlobal \/ (\E t \in Twins, a \in Args : Call(t, a))
Spec == Init /\ [][Next]_vars

Reproducible == ok
=============================================================================
