SPECIFICATION Spec
CONSTANTS
  MaxK = 3
  VoteShapes <- MCShapes
  ConfShapes <- MCShapes
  Weights <- MCWeights3
CONSTRAINT GenCase
CHECK_DEADLOCK FALSE
