SPECIFICATION Spec
CONSTANTS
  WSizes = {0}
  MaxOps = 3
  MaxBatch = 2
  DropNewest = FALSE
CONSTRAINT GenCase
CHECK_DEADLOCK FALSE
