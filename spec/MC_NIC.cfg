SPECIFICATION Spec
CONSTANTS
  Priors <- MCPriors
  KVals <- MCKVals
  YVals = {0, 1, 3}
  WVals = {1, 2}
  MaxLab = 2
  IgnoreWeights = FALSE
INVARIANT MeanBetween
INVARIANT PriorOnly
INVARIANT VarPositive
INVARIANT WeightIsMultiplicity
CHECK_DEADLOCK FALSE
