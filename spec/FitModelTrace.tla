---------------------------- MODULE FitModelTrace ----------------------------
(***************************************************************************)
(* Batch trace validation for FitModel (C12, C13).                         *)
(*                                                                         *)
(* A trace is the recorded life of one object (and, after a "Fresh"        *)
(* event, of its clones).  Every event carries, measured AFTER the call:   *)
(*   pids  ids of the digests of every get_params(deep=True) entry         *)
(*   dids  ids of the digests of the caller-owned objects (dicts, arrays,  *)
(*         estimators) that were handed to the constructor                 *)
(* Fit / PartialFit / Predict events also carry band-encoded predictions   *)
(* on fixed probe points (pred), Fit / PartialFit additionally those of a  *)
(* fresh clone of the unfitted prototype (ref) on which the driver made    *)
(* the calls `refcalls`.                                                   *)
(*                                                                         *)
(* The trace specification replays the actions of FitModel; `memo` records *)
(* for every abstract model reached the predictions observed for it.       *)
(* Clauses:                                                                *)
(*   params-unchanged / caller-objects-unchanged        ParamsFrame (C13)  *)
(*   reference-calls-are-the-specs                      the clone was      *)
(*        given exactly the calls the specification prescribes (for a      *)
(*        sliding window: one fit on the window the SPEC computed)         *)
(*   fit-equals-fresh-clone                             HistoryFree/Window *)
(*   equal-model-equal-predictions                      FitIgnoresUnlabeled*)
(*        (C12: the abstract model depends on the labeled bag only) and    *)
(*        repeated fits / predict leaving the model alone (C13)            *)
(*   pair-has-equal-labeled-part                        non-vacuity: TLC   *)
(*        itself finds the earlier event with the same abstract model      *)
(***************************************************************************)
EXTENDS FitModel, Json, IOUtils, TLCExt

Traces == JsonDeserialize(IOEnv.TRACE_FILE)

VARIABLES memo, tid, l
tvars == <<vars, memo, tid, l>>

ASSUME \A t \in 1..Len(Traces) : TLCSet(t, 0)

T  == Traces[tid]
Ev == T.events[l]
C(name, cond) == Chk(tid, l, name, cond)

IsEvent(e) == /\ l <= Len(T.events) /\ Ev.ev = e
              /\ l' = l + 1 /\ tid' = tid

TInit == /\ tid \in 1..Len(Traces)
         /\ l = 1 /\ memo = <<>>
         /\ InitWith(Traces[tid].kind, Traces[tid].wsize, Traces[tid].onlyLab,
                     Traces[tid].dicts0 # <<>>, Traces[tid].params0, Traces[tid].sym,
                     Traces[tid].dicts0)

Close(a, b) == /\ Len(a) = Len(b)
               /\ \A i \in DOMAIN a : Abs(a[i] - b[i]) <= T.band

\* every clause of a set is evaluated (a conjunction would stop at the first
\* failing one and hide the names of the others)
All(S) == S = {TRUE}

\* get_params and the caller's objects are as before the call
Frame == All({C("params-unchanged", Ev.pids = params),
              C("caller-objects-unchanged", Ev.dids = paramDicts)})

SameModel(m) == {k \in DOMAIN memo : memo[k][1] = m}

Trained ==
    /\ All({Frame,
            C("reference-calls-are-the-specs", Ev.refcalls = RefCalls'),
            C("fit-equals-fresh-clone", clean' => Close(Ev.pred, Ev.ref)),
            C("equal-model-equal-predictions",
              \A k \in SameModel(model') : Close(memo[k][2], Ev.pred)),
            C("pair-has-equal-labeled-part", Cardinality(SameModel(model')) >= Ev.match),
            \* wrappers around scikit-learn estimators: `base` are the predictions of the wrapped estimator
            \* given fit / partial_fit on the labeled rows of the same calls (<<>>: it has nothing to say)
            C("wrapper-follows-the-wrapped-estimator-on-the-labeled-history",
              Ev.base = <<>> \/ (Len(Ev.pred) >= Len(Ev.base) /\ Close(SubSeq(Ev.pred, 1, Len(Ev.base)), Ev.base)))})
    /\ memo' = Append(memo, <<model', Ev.pred>>)

TFit        == IsEvent("Fit") /\ Fit(Ev.d) /\ Trained
TPartialFit == IsEvent("PartialFit") /\ PartialFit(Ev.d) /\ Trained

TPredict == /\ IsEvent("Predict") /\ Predict /\ Frame
            /\ C("predict-leaves-model-unchanged",
                 \A k \in SameModel(model) : Close(memo[k][2], Ev.pred))
            /\ UNCHANGED memo

TQuery  == IsEvent("Query") /\ Query(Ev.d) /\ Frame /\ UNCHANGED memo
TUpdate == IsEvent("Update") /\ Update /\ Frame /\ UNCHANGED memo

TSetParams == /\ IsEvent("SetParams") /\ SetParams(Ev.pids, Ev.sym, Ev.dids)
              /\ UNCHANGED memo

TFresh == /\ IsEvent("Fresh") /\ Fresh
          /\ C("clone-reports-constructor-parameters", Ev.pids = proto /\ Ev.dids = protoDicts)
          /\ UNCHANGED memo

\* "Raised" / "Malformed" events are matched by no action.
TNext == TFit \/ TPartialFit \/ TPredict \/ TQuery \/ TUpdate \/ TSetParams \/ TFresh

TSpec == TInit /\ [][TNext]_tvars

Progress == TLCSet(tid, IF TLCGet(tid) < l THEN l ELSE TLCGet(tid))

Post == /\ PrintT(<<"VALIDATED", Len(Traces)>>)
        /\ \A t \in 1..Len(Traces) :
             IF TLCGet(t) = Len(Traces[t].events) + 1 THEN TRUE
             ELSE PrintT(<<"REJECT", t, TLCGet(t)>>)
=============================================================================
