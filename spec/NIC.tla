--------------------------------- MODULE NIC ---------------------------------
(***************************************************************************)
(* skactiveml/regressor/_nic_kernel_regressor.py (beyond the listed        *)
(* properties): the normal-inverse-chi-squared kernel regressor and its    *)
(* special case NadarayaWatsonRegressor, transcribed exactly over the      *)
(* rationals.  C15 checks that the outputs of a regressor are coherent     *)
(* with each other; this module says WHICH numbers they are.               *)
(*                                                                         *)
(*   fit(X, y, sample_weight): keeps the labeled samples (y_, weights_)    *)
(*   predict at a query point with kernel row k (k[j] = K(x, x_j)):        *)
(*     _estimate_ml_params   N      = sum_j w_j k_j                        *)
(*                           mu_ml  = sum_j w_j k_j y_j / N                *)
(*                           var_ml = sum_j w_j k_j (y_j - mu_ml)^2 / N    *)
(*     no labeled sample     update = (0, 0, 0, 0)                         *)
(*     _combine_params       kappa = kappa_0 + N, nu = nu_0 + N            *)
(*                           mu    = (kappa_0 mu_0 + N mu_ml) / kappa      *)
(*                           sigma2 = (nu_0 sigma2_0 + N var_ml            *)
(*                                     + kappa_0 N (mu_0 - mu_ml)^2/kappa) *)
(*                                    / nu                                 *)
(*     predictive Student t  df = nu, loc = mu,                            *)
(*                           scale^2 = (1 + kappa) / kappa * sigma2        *)
(*     predict               mean = mu, variance = scale^2 nu / (nu - 2)   *)
(*                                                                         *)
(* One action per public call; the kernel row is the argument of Predict   *)
(* (the harness uses metric="precomputed", so the row is an input).        *)
(* Envelope: a positive kernel mass N at every query point with labeled    *)
(* samples (N = 0 gives 0/0 in the code), kappa > 0, nu > 2.               *)
(* `IgnoreWeights` is a code-shaped deviation (vacuity guard).             *)
(***************************************************************************)
EXTENDS Common

CONSTANTS Priors,        \* set of [k0, nu0, mu0, s0] records of rationals
          KVals, YVals, WVals,   \* kernel values (rationals), labels (integers), weights (integers)
          MaxLab,        \* labeled samples per fit
          IgnoreWeights

RatDiv(a, b) == RatNorm(IF b[1] < 0 THEN <<-(a[1] * b[2]), a[2] * (-b[1])>> ELSE <<a[1] * b[2], a[2] * b[1]>>)
RatSq(a) == RatMul(a, a)
Zero == <<0, 1>>
One == <<1, 1>>

RECURSIVE RatSum(_)
RatSum(s) == IF s = <<>> THEN Zero ELSE RatAdd(Head(s), RatSum(Tail(s)))

VARIABLES prior, data,   \* data: sequence of [y, w] - the labeled samples of the last fit
          res,           \* result of the last predict: [mean, var]
          lastk, phase
vars == <<prior, data, res, lastk, phase>>

W(d, j) == IF IgnoreWeights THEN 1 ELSE d[j].w
Mass(d, k) == RatSum([j \in DOMAIN d |-> RatMul(RatOfInt(W(d, j)), k[j])])
MuML(d, k) == RatDiv(RatSum([j \in DOMAIN d |-> RatMul(RatOfInt(W(d, j) * d[j].y), k[j])]), Mass(d, k))
VarML(d, k) == LET mu == MuML(d, k) IN
               RatDiv(RatSum([j \in DOMAIN d |->
                                RatMul(RatMul(RatOfInt(W(d, j)), k[j]), RatSq(RatSub(RatOfInt(d[j].y), mu)))]),
                      Mass(d, k))

Update(d, k) == IF d = <<>> THEN [n |-> Zero, mu |-> Zero, var |-> Zero]
                ELSE [n |-> Mass(d, k), mu |-> MuML(d, k), var |-> VarML(d, k)]

Posterior(p, u) ==
    LET kappa == RatAdd(p.k0, u.n)
        nu == RatAdd(p.nu0, u.n)
        mu == RatDiv(RatAdd(RatMul(p.k0, p.mu0), RatMul(u.n, u.mu)), kappa)
        scatter == RatAdd(RatAdd(RatMul(p.nu0, p.s0), RatMul(u.n, u.var)),
                          RatDiv(RatMul(RatMul(p.k0, u.n), RatSq(RatSub(p.mu0, u.mu))), kappa))
    IN [kappa |-> kappa, nu |-> nu, mu |-> mu, s |-> RatDiv(scatter, nu)]

Predictive(p, d, k) ==
    LET q == Posterior(p, Update(d, k))
        scale2 == RatMul(RatDiv(RatAdd(One, q.kappa), q.kappa), q.s)
    IN [mean |-> q.mu, var |-> RatMul(scale2, RatDiv(q.nu, RatSub(q.nu, <<2, 1>>)))]

\* the envelope: positive kernel mass, kappa > 0
Admissible(p, d, k) == /\ Len(k) = Len(d)
                       /\ (d # <<>> => RatLess(Zero, Mass(d, k)))
                       /\ RatLess(Zero, RatAdd(p.k0, Update(d, k).n))

Samples == [y : YVals, w : WVals]
DataSets == UNION {[1..n -> Samples] : n \in 0..MaxLab}
Rows(n) == [1..n -> KVals]

Init == /\ prior \in Priors /\ data = <<>> /\ res = [mean |-> Zero, var |-> Zero]
        /\ lastk = <<>> /\ phase = "new"
Fit(d) == /\ data' = d /\ phase' = "fitted" /\ UNCHANGED <<prior, res, lastk>>
Predict(k) == /\ phase \in {"fitted", "predicted"}
              /\ Admissible(prior, data, k)
              /\ res' = Predictive(prior, data, k)
              /\ lastk' = k /\ phase' = "predicted"
              /\ UNCHANGED <<prior, data>>
Next == \/ \E d \in DataSets : Fit(d)
        \/ \E k \in Rows(Len(data)) : Predict(k)
Spec == Init /\ [][Next]_vars

\* ---- properties ----------------------------------------------------------
Ys(d) == {d[j].y : j \in DOMAIN d}
\* the predicted mean is a convex combination of the labels and (for kappa_0 > 0) the prior mean
MeanBetween == phase = "predicted" =>
    LET pts == {RatOfInt(v) : v \in Ys(data)} \cup (IF RatLess(Zero, prior.k0) THEN {prior.mu0} ELSE {})
    IN /\ \E a \in pts : RatLeq(a, res.mean)
       /\ \E b \in pts : RatLeq(res.mean, b)
\* without a labeled sample the prediction is the prior predictive
PriorOnly == (phase = "predicted" /\ data = <<>>) =>
    /\ RatEq(res.mean, prior.mu0)
    /\ RatEq(res.var, RatMul(RatMul(RatDiv(RatAdd(One, prior.k0), prior.k0), prior.s0),
                             RatDiv(prior.nu0, RatSub(prior.nu0, <<2, 1>>))))
VarPositive == phase = "predicted" => (RatLess(Zero, prior.s0) => RatLess(Zero, res.var))
\* a sample of weight 2 counts as the same sample twice
Twice(d) == IF d = <<>> THEN <<>>
            ELSE IF d[1].w = 2 THEN <<[y |-> d[1].y, w |-> 1], [y |-> d[1].y, w |-> 1]>> \o Tail(d)
            ELSE d
TwiceRow(d, k) == IF d # <<>> /\ d[1].w = 2 THEN <<k[1], k[1]>> \o Tail(k) ELSE k
WeightIsMultiplicity == phase = "predicted" =>
    LET a == Predictive(prior, Twice(data), TwiceRow(data, lastk))
    IN RatEq(a.mean, res.mean) /\ RatEq(a.var, res.var)
=============================================================================
