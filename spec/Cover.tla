-------------------------------- MODULE Cover --------------------------------
(***************************************************************************)
(* skactiveml/pool/_prob_cover.py : the greedy maximum-coverage loop of    *)
(* ProbCover for a fixed ball radius (deltas = [delta], so that delta_max_ *)
(* is delta and no clustering is involved), on points of the integer line. *)
(*                                                                         *)
(*   edges = distances <= delta                 (every point covers itself)*)
(*   per batch step:                                                       *)
(*     is_covered = edges[~is_candidate].any(axis=0)                       *)
(*     edges[:, is_covered] = False                                        *)
(*     utilities[candidates] = edges[candidates].sum(axis=1)               *)
(*     idx = rand_argmax(utilities); is_candidate[idx] = False             *)
(*                                                                         *)
(* Every sample that is not a candidate (labeled samples, unlabeled samples*)
(* outside an index candidate list, earlier picks of the batch) is a       *)
(* centre whose ball is covered.  Because the set of non-candidates only   *)
(* grows, the cumulative column clearing equals "not within delta of any   *)
(* current non-candidate" - Row is that closed form.                       *)
(* Deviation ForgetCover (vacuity guard): only the latest pick covers.     *)
(***************************************************************************)
EXTENDS Common

CONSTANTS MaxN, Coords, Deltas, MaxBS, ForgetCover

VARIABLES U, delta, cands, bs, picks, rows
vars == <<U, delta, cands, bs, picks, rows>>

Idx == DOMAIN U
Edge(u, v) == Abs(U[u] - U[v]) <= delta
Remaining(done) == cands \ Range(done)
NonCand(done) == IF ForgetCover /\ done # <<>>
                 THEN (Idx \ cands) \cup {done[Len(done)]}
                 ELSE Idx \ Remaining(done)
Covered(done) == {v \in Idx : \E u \in NonCand(done) : Edge(u, v)}
Row(done) == [u \in Idx |-> IF u \in Remaining(done)
                            THEN Cardinality({v \in Idx : Edge(u, v) /\ v \notin Covered(done)})
                            ELSE NaN]

Init == /\ \E n \in 1..MaxN :
             /\ U \in [1..n -> Coords]
             /\ \E cs \in SUBSET (1..n) : cs # {} /\ cands = cs /\ bs \in 1..Min2(MaxBS, Cardinality(cs))
        /\ delta \in Deltas
        /\ picks = <<>> /\ rows = <<>>
Pick(p) == /\ Len(picks) < bs
           /\ LET r == Row(picks) IN p \in ArgmaxSet(r) /\ rows' = Append(rows, r)
           /\ picks' = Append(picks, p)
           /\ UNCHANGED <<U, delta, cands, bs>>
Next == \E p \in Idx : Pick(p)
Spec == Init /\ [][Next]_vars

\* ---- properties ----------------------------------------------------------
PicksDistinct == Distinct(picks)
PicksAreCandidates == Range(picks) \subseteq cands
NaNExactlyAtUnavailable ==
    \A i \in DOMAIN rows : \A u \in Idx :
        (rows[i][u] = NaN) <=> (u \notin cands \/ \E j \in 1..(i - 1) : picks[j] = u)
\* submodularity of coverage: the gain of a candidate never grows during the batch
DiminishingReturns ==
    \A i, j \in DOMAIN rows : (i < j) =>
        \A u \in Idx : (rows[j][u] # NaN) => rows[j][u] <= rows[i][u]
\* every pick is a remaining candidate that newly covers the most points
Gain(u, done) == Cardinality({v \in Idx : Edge(u, v)} \ Covered(done))
GreedyMaxCoverage ==
    \A i \in DOMAIN picks :
        LET done == SubSeq(picks, 1, i - 1) IN
        \A u \in Remaining(done) : Gain(u, done) <= Gain(picks[i], done)
=============================================================================
