SPECIFICATION TSpec
CONSTANTS
  WSizes = {}
  MaxOps = 0
  MaxBatch = 0
  DropNewest = FALSE
CONSTRAINT Progress
POSTCONDITION Post
CHECK_DEADLOCK FALSE
