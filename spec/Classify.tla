------------------------------ MODULE Classify ------------------------------
(***************************************************************************)
(* Decision layer of the scikit-activeml classifiers (property C11).       *)
(*                                                                         *)
(*   skactiveml/base.py        SkactivemlClassifier._validate_data         *)
(*                             (classes_, cost_matrix_ : 1192-1217),       *)
(*                             SkactivemlClassifier.predict (1104-1109),   *)
(*                             ClassFrequencyEstimator.predict_proba       *)
(*                             (1309-1314)                                 *)
(*   skactiveml/classifier/_wrapper.py  SklearnClassifier.predict_proba    *)
(*                             (217-243), .predict (177-193), ._fit        *)
(*                                                                         *)
(* Abstract classes are the positions 1..K of the *sorted* class list      *)
(* (classes_).  The user declares them in an arbitrary order: decl[i] is   *)
(* the sorted position of the i-th declared class, and the cost matrix cm  *)
(* is indexed by *declared* positions (cost_matrix[i,j] = cost of          *)
(* predicting classes[j] for a sample of class classes[i]).  A label value *)
(* is LabelOf(r) = 10*r, deliberately different from the column index r-1  *)
(* the code computes with.                                                 *)
(*                                                                         *)
(* kind = "freq": ClassFrequencyEstimator - frequencies F (classes_ order) *)
(*                plus prior pseudo counts (classes_ order) are normalised,*)
(*                rows with sum zero become uniform.                       *)
(* kind = "wrap": SklearnClassifier - the wrapped estimator only knows the *)
(*                classes in `seen`; its probability columns (F[c]/sum F   *)
(*                for c in seen, the exact behaviour of                    *)
(*                DummyClassifier('prior')) are re-mapped into all         *)
(*                declared classes; if it could not be fitted (estOK =     *)
(*                FALSE) the label counts lc (uniform if there is none)    *)
(*                are used.                                                *)
(*                                                                         *)
(* One action per step of the code: Fit, Proba, Predict(j).                *)
(* Two code-shaped deviation switches reproduce what the pinned code does  *)
(* in SklearnClassifier.predict (both TRUE = the behaviour C11 states):    *)
(*   DecodeInCostBranch   FALSE: the cost-matrix branch returns the column *)
(*                        index instead of the member of classes_          *)
(*   ArgminWhenUnfitted   FALSE: without a fitted estimator the class is   *)
(*                        *sampled* from the fallback distribution         *)
(***************************************************************************)
EXTENDS Common, TLC

CONSTANTS MaxK,        \* largest number of classes explored
          FreqVals,    \* frequency values (non-negative integers)
          PriorVals,   \* prior pseudo counts
          CostVals,    \* off-diagonal cost values for K <= 2
          CostVals3,   \* off-diagonal cost values for K >= 3
          DecodeInCostBranch,
          ArgminWhenUnfitted

VARIABLES kind, K, decl, dflt, cm, seen, F, prior, lc, estOK,   \* the case
          phase,      \* "case" | "fitted" | "proba" | "done"
          cmS,        \* cost_matrix_ (classes_ order)
          Pnum, Pden, \* predict_proba row = Pnum[c] / Pden
          cost,       \* expected cost numerators (over Pden) per column
          col,        \* winning column (1-based)
          pred        \* returned label value

cvars == <<kind, K, decl, dflt, cm, seen, F, prior, lc, estOK>>
vars  == <<cvars, phase, cmS, Pnum, Pden, cost, col, pred>>

LabelOf(r) == 10 * r
Cls == 1..K

RECURSIVE SumOver(_, _)
SumOver(f, S) == IF S = {} THEN 0
                 ELSE LET x == CHOOSE y \in S : TRUE IN f[x] + SumOver(f, S \ {x})

Perms(n) == {p \in [1..n -> 1..n] : \A i, j \in 1..n : i # j => p[i] # p[j]}
Eye1(n)  == [i \in 1..n |-> [j \in 1..n |-> IF i = j THEN 0 ELSE 1]]
ZeroDiag(n, V) == {m \in [1..n -> [1..n -> V \cup {0}]] : \A i \in 1..n : m[i][i] = 0}
Zeros(n) == [c \in 1..n |-> 0]

\* position in the declared list of the class with sorted position r
\* (= np.argsort(classes)[r])
PosOf(r) == CHOOSE i \in Cls : decl[i] = r

InitWith(kd, k, d, df, c, sn, f, pr, l, ok) ==
    /\ kind = kd /\ K = k /\ decl = d /\ dflt = df /\ cm = c /\ seen = sn
    /\ F = f /\ prior = pr /\ lc = l /\ estOK = ok
    /\ phase = "case" /\ cmS = <<>> /\ Pnum = <<>> /\ Pden = 0 /\ cost = <<>>
    /\ col = 0 /\ pred = 0

\* CmSel(k, c) lets a generator configuration prune the cost matrices early
InitSel(CmSel(_, _)) ==
    \E kd \in {"freq", "wrap"}, k \in 1..MaxK :
    \E df \in BOOLEAN :
    \E c \in (IF df THEN {Eye1(k)}
               ELSE {m \in ZeroDiag(k, IF k >= 3 THEN CostVals3 ELSE CostVals) : CmSel(k, m)}) :
    \E d \in Perms(k), sn \in SUBSET (1..k) :
    \E f \in [1..k -> FreqVals] :
       /\ \A x \in 1..k : f[x] > 0 => x \in sn
       /\ IF kd = "freq"
          THEN \E pr \in [1..k -> PriorVals] :
                  InitWith(kd, k, d, df, c, sn, f, pr,
                           [x \in 1..k |-> IF x \in sn THEN 1 ELSE 0], TRUE)
          ELSE \E ok \in BOOLEAN :
                 /\ sn = {} => ~ok
                 /\ ok => SumOver(f, sn) > 0
                 /\ IF ok
                    THEN InitWith(kd, k, d, df, c, sn, f, Zeros(k),
                                  [x \in 1..k |-> IF x \in sn THEN 1 ELSE 0], ok)
                    ELSE /\ f = Zeros(k)
                         /\ \E l \in [1..k -> 0..2] :
                              /\ \A x \in 1..k : l[x] > 0 <=> x \in sn
                              /\ InitWith(kd, k, d, df, c, sn, f, Zeros(k), l, ok)

Init == InitSel(LAMBDA k, c : TRUE)

---------------------------------------------------------------------------
\* _validate_data: classes_ = sorted classes; cost_matrix_ = the declared
\* matrix with rows and columns permuted by argsort(classes)
Fit == /\ phase = "case"
       /\ cmS' = IF dflt THEN Eye1(K)
                 ELSE [r \in Cls |-> [s \in Cls |-> cm[PosOf(r)][PosOf(s)]]]
       /\ phase' = "fitted"
       /\ UNCHANGED <<cvars, Pnum, Pden, cost, col, pred>>

\* the columns the wrapped estimator knows, in its own (sorted) order
RECURSIVE SortedSeq(_)
SortedSeq(S) == IF S = {} THEN <<>>
                ELSE LET m == CHOOSE x \in S : \A y \in S : x <= y
                     IN <<m>> \o SortedSeq(S \ {m})
EstCols == SortedSeq(seen)

Uniform == [c \in Cls |-> 1]

FreqProba ==
    LET T == [c \in Cls |-> F[c] + prior[c]]
        S == SumOver(T, Cls)
    IN IF S > 0 THEN <<T, S>> ELSE <<Uniform, K>>

WrapProba ==
    IF estOK
    THEN \* P_ext[:, class_indices] = P (or 1 for a single known class)
         LET n  == Len(EstCols)
             S  == SumOver(F, seen)
             at == [c \in Cls |-> {i \in 1..n : EstCols[i] = c}]
         IN <<[c \in Cls |-> IF at[c] = {} THEN 0
                             ELSE IF n = 1 THEN S
                             ELSE F[EstCols[CHOOSE i \in at[c] : TRUE]]], S>>
    ELSE LET S == SumOver(lc, Cls)
         IN IF S = 0 THEN <<Uniform, K>> ELSE <<lc, S>>

Proba == /\ phase = "fitted"
         /\ LET p == IF kind = "freq" THEN FreqProba ELSE WrapProba
            IN /\ Pnum' = p[1] /\ Pden' = p[2]
               /\ cost' = [j \in Cls |-> SumOver([i \in Cls |-> p[1][i] * cmS[i][j]], Cls)]
         /\ phase' = "proba"
         /\ UNCHANGED <<cvars, cmS, col, pred>>

Sampled == kind = "wrap" /\ ~estOK /\ ~ArgminWhenUnfitted
RawIndex == kind = "wrap" /\ estOK /\ ~dflt /\ ~DecodeInCostBranch

Allowed == IF Sampled THEN {j \in Cls : Pnum[j] > 0} ELSE ArgminSet(cost)

Predict(j) == /\ phase = "proba"
              /\ j \in Allowed
              /\ col' = j
              /\ pred' = IF RawIndex THEN j - 1 ELSE LabelOf(j)
              /\ phase' = "done"
              /\ UNCHANGED <<cvars, cmS, Pnum, Pden, cost>>

Next == Fit \/ Proba \/ \E j \in Cls : Predict(j)

Spec == Init /\ [][Next]_vars

---------------------------------------------------------------------------
\* Properties (C11)
HasProba == phase \in {"proba", "done"}

TypeOK == /\ phase \in {"case", "fitted", "proba", "done"}
          /\ K \in 1..10 /\ seen \subseteq Cls
          /\ phase # "case" => DOMAIN cmS = Cls
          /\ HasProba => DOMAIN Pnum = Cls /\ DOMAIN cost = Cls

\* non-negative, finite, rows sum to one
Simplex == HasProba => /\ Pden > 0
                       /\ \A c \in Cls : Pnum[c] >= 0
                       /\ SumOver(Pnum, Cls) = Pden

\* column c of predict_proba belongs to classes_[c]: it is proportional to
\* the evidence of exactly that class, and classes the wrapped estimator
\* never saw get probability zero
Order == HasProba =>
    IF kind = "freq"
    THEN LET S == SumOver([c \in Cls |-> F[c] + prior[c]], Cls)
         IN S > 0 => \A c \in Cls : Pnum[c] * S = (F[c] + prior[c]) * Pden
    ELSE IF estOK
         THEN \A c \in Cls : IF c \in seen
                             THEN Pnum[c] * SumOver(F, seen) = F[c] * Pden
                             ELSE Pnum[c] = 0
         ELSE SumOver(lc, Cls) > 0 =>
                  \A c \in Cls : Pnum[c] * SumOver(lc, Cls) = lc[c] * Pden

\* cost_matrix_[r][s] is the declared cost of predicting the class with
\* sorted position s for a sample of the class with sorted position r
CostSemantics == phase # "case" =>
    \A i, j \in Cls : cmS[decl[i]][decl[j]] = (IF dflt THEN Eye1(K)[i][j] ELSE cm[i][j])

PredictInClasses == phase = "done" => pred \in {LabelOf(r) : r \in Cls}

\* expected cost of predicting the class with sorted position s, stated with
\* the *declared* matrix (independent of cmS)
ExpCost(s) == SumOver([r \in Cls |-> Pnum[r] *
                 (IF dflt THEN Eye1(K)[r][s] ELSE cm[PosOf(r)][PosOf(s)])], Cls)

PredictMinimisesCost == phase = "done" =>
    /\ pred = LabelOf(col)
    /\ \A s \in Cls : ExpCost(col) <= ExpCost(s)

\* every tied minimiser may be returned (ties are broken at random)
TieFair == phase = "proba" => \A j \in ArgminSet(cost) : ENABLED Predict(j)

ConstPrior == \A c, d \in Cls : prior[c] = prior[d]
UniformNoLabels == (HasProba /\ seen = {} /\ ConstPrior) =>
                      \A c \in Cls : Pnum[c] * K = Pden
=============================================================================
