------------------------------ MODULE DensityQS ------------------------------
(***************************************************************************)
(* skactiveml/stream/_density_uncertainty.py : StreamDensityBasedAL        *)
(*                                                                         *)
(* Strategy layer on top of a budget manager (Budget.tla).  Committed      *)
(* state:                                                                  *)
(*   win  window_    the last WS instances (here: integer features)        *)
(*   md   min_dist_  per window element the distance to its nearest later  *)
(*                   instance seen so far (Inf = none yet)                 *)
(*   cm   the budget manager's committed state                             *)
(* LdfStep is one call of _calculate_ldf followed by window_.append: the   *)
(* local density factor of x is the number of window elements for which x  *)
(* is a new nearest neighbour.  query simulates the chunk on copies of win *)
(* and md and asks the manager once per candidate WITHOUT advancing it     *)
(* (Advance = FALSE is the code as it is: every candidate of a chunk is    *)
(* judged against the manager state of the chunk start; Advance = TRUE is  *)
(* the per-instance reference from which the C04 bound would follow).      *)
(* update replays the window evolution and commits the manager with the    *)
(* queried flags.                                                          *)
(***************************************************************************)
EXTENDS Budget

Inf == 999999
Dist(a, b) == Abs(a - b)
PushW(ws, s, x) == IF Len(s) >= ws THEN Tail(s) \o <<x>> ELSE s \o <<x>>
MinOf(S) == CHOOSE m \in S : \A k \in S : m <= k

\* one candidate x against window win / min distances md (both length <= ws)
LdfStep(ws, win, md, x) ==
    IF win = <<>> THEN [ldf |-> 0, win |-> PushW(ws, win, x), md |-> PushW(ws, md, Inf)]
    ELSE LET d == [i \in DOMAIN win |-> Dist(win[i], x)]
             isNew == [i \in DOMAIN win |-> d[i] < md[i]]
             md1 == [i \in DOMAIN win |-> IF isNew[i] THEN d[i] ELSE md[i]]
             own == MinOf({d[i] : i \in DOMAIN win})
         IN [ldf |-> Cardinality({i \in DOMAIN win : isNew[i]}),
             win |-> PushW(ws, win, x), md |-> PushW(ws, md1, own)]

\* decisions of query(chunk): xs features, us utilities, wants oracle for normal-deviate kinds
RECURSIVE QFold(_, _, _, _, _, _, _, _, _, _, _)
QFold(P, ws, adv, win, md, cm, xs, us, rnd, wants, i) ==
    IF i > Len(xs) THEN <<>>
    ELSE LET r == LdfStep(ws, win, md, xs[i])
             step == SimStep(P, cm, IF r.ldf > 0 THEN us[i] ELSE NaNR, rnd, wants[i])
             d == r.ldf > 0 /\ step.d
             cm2 == IF adv THEN step.st ELSE cm
         IN <<d>> \o QFold(P, ws, adv, r.win, r.md, cm2, xs, us, rnd, wants, i + 1)

\* window / min-dist state after the chunk
RECURSIVE WFold(_, _, _, _, _)
WFold(ws, win, md, xs, i) ==
    IF i > Len(xs) THEN [win |-> win, md |-> md]
    ELSE LET r == LdfStep(ws, win, md, xs[i]) IN WFold(ws, r.win, r.md, xs, i + 1)
=============================================================================
