SPECIFICATION TSpec
CONSTANTS
  MaxK = 0
  FreqVals = {}
  PriorVals = {}
  CostVals = {}
  CostVals3 = {}
  DecodeInCostBranch = TRUE
  ArgminWhenUnfitted = TRUE
CONSTRAINT Progress
INVARIANT TypeOK
INVARIANT Simplex
INVARIANT Order
INVARIANT CostSemantics
INVARIANT PredictInClasses
INVARIANT PredictMinimisesCost
INVARIANT UniformNoLabels
POSTCONDITION Post
CHECK_DEADLOCK FALSE
