SPECIFICATION Spec
CONSTANTS
  WS = 2
  Adv = FALSE
  Depth = 5
  MaxChunk = 3
  BNum = 1
  BDen = 4
INVARIANT WindowOK
INVARIANT ChunkInvariant
INVARIANT NoOverspend
CHECK_DEADLOCK FALSE
