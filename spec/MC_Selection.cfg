SPECIFICATION Spec
CONSTANTS
  MaxN = 4
  Vals <- MCVals
INVARIANT TypeOK
INVARIANT DistinctOK
INVARIANT NeverNaN
INVARIANT Optimum
INVARIANT RowMask
INVARIANT NonIncr
INVARIANT NoZeroWeight
INVARIANT CountOK
INVARIANT TieFair
INVARIANT NoStuck
CHECK_DEADLOCK FALSE
