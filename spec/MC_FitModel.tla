----------------------------- MODULE MC_FitModel -----------------------------
(***************************************************************************)
(* Model-checking constants for FitModel and the two TLC generators:       *)
(*   PairInit  (FitModel_gen*.cfg)       pairs (D, E) of data sets with    *)
(*             equal labeled part for C12 (E = D with unlabeled samples    *)
(*             dropped, weights of missing entries changed, rows permuted) *)
(*   HistInit / HistNext (FitModel_gen_hist*.cfg)  call histories for C13  *)
(*             with, after every call, the calls a fresh clone has to be   *)
(*             given to reach the same model (computed by the spec).       *)
(***************************************************************************)
EXTENDS FitModel, Json

CONSTANTS GenN,        \* largest number of samples of a generated data set
          GenA,        \* number of annotators of the generated data sets
          GenSetParams \* histories contain set_params calls

VARIABLE gen
mcvars == <<vars, gen>>

Mean   == SymbolicDefault
Fixed1 == <<"fixed", 1>>
Fixed2 == <<"fixed", 2>>
MCParamVals  == {<<Mean, TRUE>>, <<Fixed1, FALSE>>}
MCParamVals1 == {<<Fixed1, FALSE>>}

S1(i, l, w) == <<i, <<l>>, <<w>>>>

\* --- histories (C13): three data sets, the third has the labeled part of
\* the first one (one unlabeled sample dropped, rows permuted)
HD1 == <<S1(1, 0, 1), S1(2, Missing, 1), S1(3, 1, 2)>>
HD2 == <<S1(4, 1, 1), S1(5, 0, 1)>>
HD3 == <<S1(3, 1, 2), S1(1, 0, 1)>>
HD4 == <<S1(2, 0, 2)>>
HD5 == <<S1(2, Missing, 1), S1(4, Missing, 2)>>   \* no label at all (an only_labeled window must become empty)
MCDataSets == {HD1, HD2, HD3, HD4}
MCHistDataSets == {HD1, HD2, HD3, HD5}   \* data sets of the generated histories
\* data sets in which ONE class is observed (whatever a classifier derives from the set of observed classes while
\* predicting - positions of the wrapped estimator's probability columns - must not survive the next fit)
HD6 == <<S1(6, 1, 1), S1(5, 1, 2)>>
MCFlipDataSets == {HD4, HD6, HD1}

\* --- all small data sets (C12): ids {1,2}, labels {0,1,Missing}, the
\* first sample with weights {1,2}
SmallSamples == {S1(1, l, w) : l \in {0, 1, Missing}, w \in {1, 2}}
                  \cup {S1(2, l, 1) : l \in {0, 1, Missing}}
MCDataSetsAll == {<<>>} \cup {<<s>> : s \in SmallSamples}
                   \cup {p \in SmallSamples \X SmallSamples : p[1][1] # p[2][1]}

MCInit == Init /\ gen = <<>>
MCNext == Next /\ UNCHANGED gen

---------------------------------------------------------------------------
\* generator of pairs
LabVals == IF GenA = 1 THEN {<<0>>, <<1>>, <<Missing>>}
           ELSE {<<a, b>> : a \in {0, 1, Missing}, b \in {0, 1, Missing}}
WVals   == IF GenA = 1 THEN {<<1>>, <<2>>} ELSE {<<1, 1>>, <<2, 2>>, <<1, 2>>}
AsData(f) == [i \in DOMAIN f |-> <<i, f[i][1], f[i][2]>>]

Flip(w) == IF w = 1 THEN 2 ELSE 1
\* weights of the *missing* entries of the rows in rw are changed
Reweight(D, rw) ==
    [i \in DOMAIN D |->
        IF i \in rw
        THEN <<D[i][1], D[i][2],
               [a \in DOMAIN D[i][3] |-> IF D[i][2][a] = Missing THEN Flip(D[i][3][a]) ELSE D[i][3][a]]>>
        ELSE D[i]]
HasMissing(s) == \E a \in DOMAIN s[2] : s[2][a] = Missing
Keep(D, drop) == SelectSeq(D, LAMBDA s : s[1] \notin drop)
Perms == {"id", "rev", "rot", "lab-first", "unl-first"}
Permute(D, p) ==
    CASE p = "id"  -> D
      [] p = "rev" -> [i \in DOMAIN D |-> D[Len(D) + 1 - i]]
      [] p = "rot" -> IF D = <<>> THEN D ELSE Append(Tail(D), Head(D))
      [] p = "lab-first" -> SelectSeq(D, IsLabeledSample) \o SelectSeq(D, LAMBDA s : ~IsLabeledSample(s))
      [] p = "unl-first" -> SelectSeq(D, LAMBDA s : ~IsLabeledSample(s)) \o SelectSeq(D, IsLabeledSample)

PairInit ==
    /\ InitWith("plain", 0, FALSE, FALSE, Fixed1, FALSE, <<>>)
    /\ \E n \in 1..GenN : \E f \in [1..n -> LabVals \X WVals] :
         LET D   == AsData(f)
             unl == {i \in DOMAIN D : ~IsLabeledSample(D[i])}
             mis == {i \in DOMAIN D : HasMissing(D[i])}
         IN  \E drop \in SUBSET unl, rw \in SUBSET mis, p \in Perms :
               LET E == Permute(Keep(Reweight(D, rw), {D[i][1] : i \in drop}), p)
               IN  E # D /\ gen = <<D, E>>
\* the generator itself promises the relation the property is about
PairOK   == gen = <<>> \/ Labeled(gen[1]) = Labeled(gen[2])
GenPair  == PrintT(ToJson([d |-> gen[1], e |-> gen[2], ok |-> PairOK])) /\ FALSE

---------------------------------------------------------------------------
\* generator of histories
HistInit == /\ gen = <<>>
            /\ \E k \in Kinds :
                 \E w \in (IF k = "window" THEN WindowSizes ELSE {0}),
                    ol \in (IF k = "window" THEN BOOLEAN ELSE {FALSE}) :
                       InitWith(k, w, ol, FALSE, Fixed1, FALSE, <<>>)

HistStep == \/ \E D \in DataSets : Fit(D) \/ PartialFit(D) \/ Query(D)
            \/ Predict \/ Update
            \/ (GenSetParams /\ SetParams(Fixed2, FALSE, <<>>))

HistNext == /\ HistStep
            /\ gen' = Append(gen, [op |-> last'.op, d |-> last'.d,
                                   ref |-> IF kind = "strategy" THEN <<>> ELSE RefCalls',
                                   clean |-> clean'])

GenHist == IF steps = MaxDepth
           THEN PrintT(ToJson([kind |-> kind, wsize |-> wsize, onlyLab |-> onlyLab,
                               steps |-> gen])) /\ FALSE
           ELSE TRUE
=============================================================================
