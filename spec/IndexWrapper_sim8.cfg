SPECIFICATION GenSpec
CONSTANTS
  Labels <- MCLabels
  Weights <- MCWeights
  Cfgs <- MCCfgs
  Args <- MCArgs
  PreArgs <- MCPreArgs
  Record = TRUE
  MCN = 4
  MaxLen = 2
  Alphabet = "sim"
  Prefits = {"none", "fit", "fitbase"}
  CfgSel = "all"
  Sample = 4
  Depth = 8
CHECK_DEADLOCK FALSE
