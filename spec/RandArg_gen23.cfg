SPECIFICATION Spec
CONSTANTS
  MaxR = 2
  MaxC = 3
  Vals <- MCVals
CONSTRAINT GenCase
CHECK_DEADLOCK FALSE
