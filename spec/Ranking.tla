-------------------------------- MODULE Ranking --------------------------------
(***************************************************************************)
(* skactiveml/utils/_selection.py : combine_ranking (beyond the listed     *)
(* properties; used by the multi-annotator strategies).  Rankings are flat *)
(* arrays of equal length; the combined ranking orders the positions       *)
(* hierarchically: the first ranking decides, the second one only breaks   *)
(* ties of the first, and so on.  A NaN in the first ranking stays NaN.    *)
(* The code computes dense ranks of the running result and adds a sigmoid  *)
(* of the next ranking (in (0,1), strictly increasing for moderate values) *)
(* - Combine is that step; LexOrderOK is the contract.                     *)
(***************************************************************************)
EXTENDS Common

CONSTANTS MaxN, Vals

VARIABLES rs, res, phase
vars == <<rs, res, phase>>

N == Len(rs[1])
Init == /\ \E n \in 1..MaxN, k \in 2..3 :
             rs \in [1..k -> [1..n -> Vals]] \cup
                    {<<a>> \o t : a \in [1..n -> Vals \cup {NaN}], t \in [1..(k - 1) -> [1..n -> Vals]]}
        /\ res = <<>> /\ phase = "call"

\* lexicographic comparison of positions i, j over rankings 1..k (first ranking non-NaN)
RECURSIVE LexLess(_, _, _, _)
LexLess(r, i, j, k) == IF k > Len(r) THEN FALSE
                       ELSE r[k][i] < r[k][j] \/ (r[k][i] = r[k][j] /\ LexLess(r, i, j, k + 1))
LexEq(r, i, j) == \A k \in DOMAIN r : r[k][i] = r[k][j]

\* dense lexicographic rank (what the code's rank + sigmoid scheme realises)
DenseLex(r, i) == Cardinality({<<r[1][j], r[2][j], IF Len(r) > 2 THEN r[3][j] ELSE 0>> :
                               j \in {q \in 1..Len(r[1]) : r[1][q] # NaN /\ LexLess(r, q, i, 1)}})
Combine == /\ phase = "call"
           /\ res' = [i \in 1..N |-> IF rs[1][i] = NaN THEN NaN ELSE DenseLex(rs, i)]
           /\ phase' = "done" /\ UNCHANGED rs
Next == Combine
Spec == Init /\ [][Next]_vars

LexOrderOK(r, c) ==
    /\ Len(c) = Len(r[1])
    /\ \A i \in DOMAIN c : (c[i] = NaN) <=> (r[1][i] = NaN)
    /\ \A i, j \in DOMAIN c : (c[i] # NaN /\ c[j] # NaN) =>
          /\ (c[i] < c[j] <=> LexLess(r, i, j, 1))
          /\ (c[i] = c[j] <=> LexEq(r, i, j))
Contract == phase = "done" => LexOrderOK(rs, res)
=============================================================================
