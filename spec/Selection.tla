------------------------------ MODULE Selection ------------------------------
(***************************************************************************)
(* skactiveml/utils/_selection.py : simple_batch, rand_argmax, rand_argmin *)
(*                                                                         *)
(* Abstract state: a flat utility array (N-D arrays are flattened in       *)
(* row-major order by the harness; simple_batch itself treats positions    *)
(* uniformly), values are sign-preserving ranks, NaN = Common!NaN.         *)
(* One action per step of the code:                                        *)
(*   Clip      _selection.py:128-136  batch_size := min(bs, #non-NaN)      *)
(*   PickMax   _selection.py:143-147  one iteration of the 'max' loop      *)
(*   PickProp  _selection.py:148-161  one draw of choice(replace=False)    *)
(*   PropRaise the proportional branch has no admissible result            *)
(*   Finish    return                                                      *)
(***************************************************************************)
EXTENDS Common, TLC

CONSTANTS MaxN,      \* largest array length explored by the model checker
          Vals       \* value domain (integers); NaN is added by Init

VARIABLES util0,     \* the caller's utilities (never changes)
          bs0,       \* requested batch size
          method,    \* "max" | "proportional"
          util,      \* working copy (entries are overwritten with NaN)
          bs,        \* clipped batch size
          picked,    \* sequence of selected positions
          rows,      \* batch_utilities: one row per pick
          phase      \* "clip" | "pick" | "done" | "raised"

vars == <<util0, bs0, method, util, bs, picked, rows, phase>>

Positive(f)   == {j \in DOMAIN f : f[j] # NaN /\ f[j] > 0}
Negative(f)   == {j \in DOMAIN f : f[j] # NaN /\ f[j] < 0}

InitWith(u, b, m) ==
    /\ util0 = u /\ util = u /\ bs0 = b /\ bs = b /\ method = m
    /\ picked = <<>> /\ rows = <<>> /\ phase = "clip"

\* the proportional method is specified for non-negative utilities only
\* ("probabilities proportional to utilities")
Init == \E n \in 1..MaxN :
          \E u \in [1..n -> Vals \cup {NaN}], b \in 1..(n + 1),
             m \in {"max", "proportional"} :
               /\ (m = "proportional" => \A i \in 1..n : u[i] = NaN \/ u[i] >= 0)
               /\ InitWith(u, b, m)

Clip == /\ phase = "clip"
        /\ bs' = Min2(bs, Cardinality(NonNaNIdx(util)))
        /\ phase' = "pick"
        /\ UNCHANGED <<util0, bs0, method, util, picked, rows>>

PickMax(j) ==
    /\ phase = "pick" /\ method = "max" /\ Len(picked) < bs
    /\ j \in ArgmaxSet(util)                      \* rand_argmax: an exact maximum
    /\ rows' = Append(rows, util)                 \* snapshot before masking
    /\ picked' = Append(picked, j)
    /\ util' = [util EXCEPT ![j] = NaN]
    /\ UNCHANGED <<util0, bs0, method, bs, phase>>

PropAdmissible == Negative(util0) = {} /\ Cardinality(Positive(util0)) >= bs

PickProp(j) ==
    /\ phase = "pick" /\ method = "proportional" /\ Len(picked) < bs
    /\ PropAdmissible
    /\ j \in Positive(util0) /\ j \notin Range(picked)
    /\ rows' = Append(rows, [k \in DOMAIN util0 |->
                               IF k \in Range(picked) THEN NaN ELSE util0[k]])
    /\ picked' = Append(picked, j)
    /\ UNCHANGED <<util0, bs0, method, util, bs, phase>>

PropRaise ==
    /\ phase = "pick" /\ method = "proportional"
    /\ (~PropAdmissible \/ bs = 0)     \* numpy's choice rejects p = 0 everywhere
    /\ phase' = "raised"
    /\ UNCHANGED <<util0, bs0, method, util, bs, picked, rows>>

Finish ==
    /\ phase = "pick" /\ Len(picked) = bs
    /\ (method = "proportional" => PropAdmissible \/ bs = 0)
    /\ phase' = "done"
    /\ UNCHANGED <<util0, bs0, method, util, bs, picked, rows>>

Next == Clip \/ (\E j \in DOMAIN util0 : PickMax(j) \/ PickProp(j))
             \/ PropRaise \/ Finish

Spec == Init /\ [][Next]_vars

---------------------------------------------------------------------------
\* Properties (C18; re-used by PoolQuery for C01/C02)
TypeOK == /\ phase \in {"clip", "pick", "done", "raised"}
          /\ Len(picked) = Len(rows)

DistinctOK == Distinct(picked)
NeverNaN   == \A i \in DOMAIN picked : util0[picked[i]] # NaN /\ rows[i][picked[i]] # NaN
Optimum    == method = "max" =>
                \A i \in DOMAIN picked : picked[i] \in ArgmaxSet(rows[i])
RowMask    == \A i \in DOMAIN rows : \A k \in DOMAIN util0 :
                 IF util0[k] = NaN \/ k \in Range(Prefix(picked, i - 1))
                 THEN rows[i][k] = NaN ELSE rows[i][k] = util0[k]
NonIncr    == method = "max" =>
                \A i \in 1..(Len(picked) - 1) :
                    rows[i][picked[i]] >= rows[i + 1][picked[i + 1]]
NoZeroWeight == method = "proportional" =>
                  \A i \in DOMAIN picked : util0[picked[i]] > 0
CountOK    == phase = "done" =>
                Len(picked) = Min2(bs0, Cardinality(NonNaNIdx(util0)))
\* the result must not depend on anything but the multiset of maxima: every
\* tied optimum is a possible next pick (rand_argmax breaks ties at random)
TieFair    == (phase = "pick" /\ method = "max" /\ Len(picked) < bs) =>
                 \A j \in ArgmaxSet(util) : ENABLED PickMax(j)
\* a finished call never got stuck: from "pick" either a pick, Finish or
\* PropRaise is enabled
NoStuck    == phase = "pick" => ENABLED (Next)
=============================================================================
