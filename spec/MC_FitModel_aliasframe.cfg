INIT MCInit
NEXT MCNext
CONSTANTS
  DataSets <- MCDataSets
  ParamVals <- MCParamVals
  Kinds = {"plain", "window", "strategy"}
  WindowSizes = {2}
  MaxDepth = 3
  WriteBack = TRUE
  FitOnAll = FALSE
  StaleWindow = FALSE
  GenN = 1
  GenA = 1
  GenSetParams = FALSE
CHECK_DEADLOCK FALSE
PROPERTY ParamsFrame
