SPECIFICATION Spec
CONSTANTS
  NSmax = 3
  NAmax = 3
  K = 3
CONSTRAINT GenCase
CHECK_DEADLOCK FALSE
