SPECIFICATION Spec
CONSTANTS
  MinN = 5
  MaxN = 5
CONSTRAINT GenCase
CHECK_DEADLOCK FALSE
