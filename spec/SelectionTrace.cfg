SPECIFICATION TSpec
CONSTANTS
  MaxN = 0
  Vals = {}
CONSTRAINT Progress
INVARIANT DistinctOK
INVARIANT NeverNaN
INVARIANT Optimum
INVARIANT RowMask
INVARIANT NonIncr
INVARIANT NoZeroWeight
INVARIANT CountOK
POSTCONDITION Post
CHECK_DEADLOCK FALSE
