SPECIFICATION Spec
CONSTANTS
  MaxK = 3
  MaxLen = 4
  MaxRows = 2
  MaxCols = 3
CONSTRAINT GenCase
CHECK_DEADLOCK FALSE
