SPECIFICATION Spec
CONSTANTS
  MaxN = 4
  Vals <- MCVals
CONSTRAINT GenCase
CHECK_DEADLOCK FALSE
