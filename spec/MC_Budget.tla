------------------------------ MODULE MC_Budget ------------------------------
(***************************************************************************)
(* Model checking of the budget accounting: one action per loop iteration  *)
(* of query_by_utility / update, the environment chooses every chunk, every *)
(* utility (adversarially, NaN included), the uniform stream and the       *)
(* outcome of normal-deviate comparisons.                                  *)
(*                                                                         *)
(* Checked: C04 NoOverspend at every prefix (inside chunks too), the       *)
(* auxiliary bound on u, C03 QueryPure, C10 SimEqualsCommit and            *)
(* ChunkInvariant (against a shadow run that processes the same stream one *)
(* instance at a time).                                                    *)
(***************************************************************************)
EXTENDS Budget, Json

CONSTANTS Kind, W, BNum, BDen, Stale, Allow, Depth, MaxChunk, RndLen
UtilVals == IF Kind = "Split" THEN {<<0, 1>>, <<1, 2>>, <<1, 1>>, NaNR}   \* (the uniform stream multiplies states)
            ELSE {<<0, 1>>, <<1, 4>>, <<1, 2>>, <<3, 4>>, <<1, 1>>, NaNR}

P == [kind |-> Kind, W |-> W, B |-> <<BNum, BDen>>, S |-> <<1, 2>>, Theta0 |-> <<1, 1>>,
      K |-> 2, WTol |-> <<2, 1>>, Allow |-> Allow, Stale |-> Stale, Sharp |-> FALSE]

VARIABLES cm,      \* committed state
          tmp,     \* temporaries of the running simulation
          chunk, wants, i, dec, mode, u0,
          rnd,     \* uniform stream (environment, fixed per behaviour)
          n, granted,          \* history: instances seen / labels granted
          shadow, shadowDec, allDec,  \* one-instance-at-a-time run of the same stream
          snap     \* committed state when the running query began (for QueryPureInv)

vars == <<cm, tmp, chunk, wants, i, dec, mode, u0, rnd, n, granted, shadow, shadowDec, allDec, snap>>

UsesRnd == Kind \in {"Split", "Random", "StreamRandom"}
RndRec == IF Kind = "Split" THEN [vgt : BOOLEAN, leb : BOOLEAN, geb : {FALSE}]
          ELSE IF Kind = "Random" THEN [vgt : {FALSE}, leb : BOOLEAN, geb : {FALSE}]
          ELSE [vgt : {FALSE}, leb : {FALSE}, geb : BOOLEAN]
NoRnd == [vgt |-> FALSE, leb |-> FALSE, geb |-> FALSE]

Init == /\ cm = InitState(P) /\ tmp = InitState(P) /\ shadow = InitState(P)
        /\ chunk = <<>> /\ wants = <<>> /\ i = 1 /\ dec = <<>> /\ mode = "idle" /\ u0 = Zero
        /\ rnd \in (IF UsesRnd THEN [1..RndLen -> RndRec] ELSE {[k \in 1..RndLen |-> NoRnd]})
        /\ n = 0 /\ granted = 0 /\ shadowDec = <<>> /\ allDec = <<>> /\ snap = InitState(P)

Chunks == UNION {[1..k -> (IF Kind \in {"Periodic", "StreamRandom"} THEN {Zero}
                           ELSE IF Kind = "BIQF" THEN UtilVals \ {NaNR} ELSE UtilVals)]
                 : k \in 1..MaxChunk}

BeginQuery(c, w) ==
    /\ mode \in {"idle", "queried"}
    /\ (mode = "queried" => c = chunk /\ w = wants)   \* repeated query, same arguments
    /\ n + Len(c) <= Depth
    /\ chunk' = c /\ wants' = w /\ tmp' = cm /\ i' = 1 /\ dec' = <<>> /\ mode' = "query"
    /\ snap' = cm
    /\ UNCHANGED <<cm, u0, rnd, n, granted, shadow, shadowDec, allDec>>

Sim == /\ mode = "query" /\ i <= Len(chunk)
       /\ LET r == SimStep(P, tmp, chunk[i], rnd, wants[i])
          IN tmp' = r.st /\ dec' = Append(dec, r.d)
       /\ i' = i + 1
       /\ UNCHANGED <<cm, chunk, wants, mode, u0, rnd, n, granted, shadow, shadowDec, allDec, snap>>

EndQuery == /\ mode = "query" /\ i > Len(chunk)
            /\ mode' = "queried"
            /\ UNCHANGED <<cm, tmp, chunk, wants, i, dec, u0, rnd, n, granted, shadow, shadowDec, allDec, snap>>

BeginUpdate == /\ mode = "queried"
               /\ mode' = "update" /\ i' = 1 /\ u0' = cm.u
               /\ UNCHANGED <<cm, tmp, chunk, wants, dec, rnd, n, granted, shadow, shadowDec, allDec, snap>>

Commit == /\ mode = "update" /\ i <= Len(chunk)
          /\ cm' = CommitStep(P, cm, dec[i], chunk[i], rnd, u0)
          /\ n' = n + 1 /\ granted' = granted + (IF dec[i] THEN 1 ELSE 0)
          /\ allDec' = Append(allDec, dec[i])
          \* the shadow run: query + update of this single instance
          /\ LET r == SimStep(P, shadow, chunk[i], rnd, wants[i])
             IN /\ shadow' = CommitStep(P, shadow, r.d, chunk[i], rnd, shadow.u)
                /\ shadowDec' = Append(shadowDec, r.d)
          /\ i' = i + 1
          /\ UNCHANGED <<tmp, chunk, wants, dec, mode, u0, rnd, snap>>

EndUpdate == /\ mode = "update" /\ i > Len(chunk)
             /\ mode' = "idle"
             /\ UNCHANGED <<cm, tmp, chunk, wants, i, dec, u0, rnd, n, granted, shadow, shadowDec, allDec, snap>>

Next == \/ \E c \in Chunks :
             \E w \in (IF Kind \in OracleKinds THEN [1..Len(c) -> BOOLEAN]
                       ELSE {[k \in 1..Len(c) |-> FALSE]}) : BeginQuery(c, w)
        \/ Sim \/ EndQuery \/ BeginUpdate \/ Commit \/ EndUpdate

Spec == Init /\ [][Next]_vars

---------------------------------------------------------------------------
\* C04: at every prefix n (Commit advances n one instance at a time)
NoOverspend == NoOverspendAt(P, granted, n)
\* auxiliary: the estimate u never exceeds W*B + 1 (from which the window bound follows)
UBound == Kind \in WindowKinds => RatLeq(cm.u, RatAdd(RatMul(<<W, 1>>, P.B), One))
\* C03: nothing but update changes the committed state
QueryPure == [][(mode \in {"idle", "query", "queried"} /\ mode' # "update") => (cm' = cm)]_vars
\* the same as a state invariant (cheaper for TLC than the action property)
QueryPureInv == mode \in {"query", "queried"} => cm = snap
\* C10: after update the committed state equals what the simulation computed
Proj(st) == IF Kind \in OracleKinds THEN [st EXCEPT !.pos = 0] ELSE st
SimEqualsCommit == (mode = "update" /\ i > Len(chunk)) => Proj(cm) = Proj(tmp)
\* C10: chunking invariance for the kinds it is claimed for
ChunkKinds == {"Fixed", "Variable", "Split", "Random", "BIQF", "Periodic", "StreamRandom"}
ChunkInvariant == (mode = "idle" /\ Kind \in ChunkKinds) => (cm = shadow /\ allDec = shadowDec)
\* C10: decisions are a Boolean per candidate (indices strictly increasing in range)
IndicesOK == Len(dec) <= Len(chunk)
=============================================================================
