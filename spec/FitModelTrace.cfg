SPECIFICATION TSpec
CONSTANTS
  DataSets = {}
  ParamVals = {}
  Kinds = {}
  WindowSizes = {}
  MaxDepth = 1000000
  WriteBack = FALSE
  FitOnAll = FALSE
  StaleWindow = FALSE
CONSTRAINT Progress
INVARIANT TypeOK
INVARIANT ParamsFrameInv
INVARIANT HistoryFree
INVARIANT Window
INVARIANT WindowRestart
POSTCONDITION Post
CHECK_DEADLOCK FALSE
