SPECIFICATION TSpec
CONSTANTS
  MaxN = 0
  Vals = {}
CONSTRAINT Progress
POSTCONDITION Post
CHECK_DEADLOCK FALSE
