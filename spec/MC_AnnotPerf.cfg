SPECIFICATION Spec
CONSTANTS
  NAnn = 2
  NCls = 2
  NSmp = 2
  FirstColumn = FALSE
INVARIANT InsideUnit
INVARIANT NoLabelHalf
INVARIANT OwnLabels
INVARIANT SomeoneAgrees
CHECK_DEADLOCK FALSE
