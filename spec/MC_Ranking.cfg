SPECIFICATION Spec
CONSTANTS
  MaxN = 3
  Vals <- MCVals
INVARIANT Contract
CHECK_DEADLOCK FALSE
