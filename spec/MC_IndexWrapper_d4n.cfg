SPECIFICATION MCSpec
CONSTANTS
  Labels <- MCLabels
  Weights <- MCWeights
  Cfgs <- MCCfgs
  Args <- MCArgs
  PreArgs <- MCPreArgs
  Record = FALSE
  MCN = 3
  MaxLen = 2
  Alphabet = "narrow"
  Prefits = {"none", "fit", "fitbase"}
  CfgSel = "all"
  Sample = 0
  Depth = 4
VIEW MCView
INVARIANT TypeOK
INVARIANT ImpliedWellFormed
INVARIANT LatestWins
INVARIANT LatestWinsBase
INVARIANT NothingDropped
INVARIANT NothingDroppedBase
INVARIANT BaseIsCopy
INVARIANT BrokenOnlyDirty
INVARIANT KernelOnlySU
INVARIANT PredictCovered
PROPERTY BaseStable
PROPERTY RefusalPure
PROPERTY KernelMonotone
CHECK_DEADLOCK FALSE
