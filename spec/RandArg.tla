------------------------------- MODULE RandArg -------------------------------
(***************************************************************************)
(* skactiveml/utils/_selection.py : rand_argmax / rand_argmin              *)
(*                                                                         *)
(* a is a 1-D (ndim = 1, one row) or 2-D array given as a sequence of      *)
(* rows; axis is "none", "0" or "1".  The code computes                    *)
(*    mask = (a == nanopt(a, axis, keepdims))                              *)
(*    idx  = argmax(random(a.shape) * mask, axis)                          *)
(* so along every slice it returns a position where mask holds (random     *)
(* numbers are positive with probability one); a slice without any         *)
(* non-NaN entry has an all-False mask and argmax returns 0.               *)
(***************************************************************************)
EXTENDS Common

CONSTANTS MaxR, MaxC, Vals

VARIABLES a, ndim, axis, isMax, res, phase
vars == <<a, ndim, axis, isMax, res, phase>>

R == Len(a)
Cn == Len(a[1])

InitWith(arr, nd, ax, mx) ==
    /\ a = arr /\ ndim = nd /\ axis = ax /\ isMax = mx /\ res = <<>> /\ phase = "call"

Init == \E r \in 1..MaxR, c \in 1..MaxC :
          \E arr \in [1..r -> [1..c -> Vals \cup {NaN}]], mx \in BOOLEAN :
             \/ (r = 1 /\ \E ax \in {"none", "0"} : InitWith(arr, 1, ax, mx))
             \/ (\E ax \in {"none", "0", "1"} : InitWith(arr, 2, ax, mx))

Better(x, y) == IF isMax THEN x >= y ELSE x <= y

\* nanmax / nanmin over a set of cells; cells are <<i, j>>
Cells == {<<i, j>> : i \in 1..R, j \in 1..Cn}
NonNaNCells(S) == {p \in S : a[p[1]][p[2]] # NaN}
OptCells(S) == {p \in NonNaNCells(S) :
                  \A q \in NonNaNCells(S) : Better(a[p[1]][p[2]], a[q[1]][q[2]])}
\* mask positions of one slice: the exact optima, as the code computes them
MaskCells(S) == OptCells(S)

Col(j) == {<<i, j>> : i \in 1..R}
Row(i) == {<<i, j>> : j \in 1..Cn}

\* allowed index along a slice: a masked cell, or 0 when the mask is empty
\* (0-based position as numpy returns it is logged 1-based by the harness)
PickIn(S, proj(_)) == IF MaskCells(S) = {} THEN {1} ELSE {proj(p) : p \in MaskCells(S)}

AllowedResults ==
    IF axis = "none" THEN
        IF MaskCells(Cells) = {} THEN {IF ndim = 1 THEN <<1>> ELSE <<1, 1>>}
        ELSE {IF ndim = 1 THEN <<p[2]>> ELSE <<p[1], p[2]>> : p \in MaskCells(Cells)}
    ELSE IF ndim = 1 THEN            \* axis = "0" on a vector
        {<<k>> : k \in PickIn(Cells, LAMBDA p : p[2])}
    ELSE IF axis = "0" THEN
        {s \in [1..Cn -> 1..R] : \A j \in 1..Cn : s[j] \in PickIn(Col(j), LAMBDA p : p[1])}
    ELSE
        {s \in [1..R -> 1..Cn] : \A i \in 1..R : s[i] \in PickIn(Row(i), LAMBDA p : p[2])}

Return(s) == /\ phase = "call" /\ s \in AllowedResults
             /\ res' = s /\ phase' = "done" /\ UNCHANGED <<a, ndim, axis, isMax>>

Next == \E s \in AllowedResults : Return(s)
Spec == Init /\ [][Next]_vars

---------------------------------------------------------------------------
\* C18, stated independently of the mask computation: the returned position
\* holds an exact optimum of the non-NaN entries along the requested axis.
ValAt(i, j) == a[i][j]
IsOpt(i, j, S) == /\ a[i][j] # NaN
                  /\ \A q \in S : a[q[1]][q[2]] # NaN => Better(a[i][j], a[q[1]][q[2]])
ResultIsOptimum ==
    phase = "done" =>
      IF axis = "none" THEN
          NonNaNCells(Cells) # {} =>
             IF ndim = 1 THEN IsOpt(1, res[1], Cells) ELSE IsOpt(res[1], res[2], Cells)
      ELSE IF ndim = 1 THEN NonNaNCells(Cells) # {} => IsOpt(1, res[1], Cells)
      ELSE IF axis = "0" THEN
          \A j \in 1..Cn : NonNaNCells(Col(j)) # {} => IsOpt(res[j], j, Col(j))
      ELSE \A i \in 1..R : NonNaNCells(Row(i)) # {} => IsOpt(i, res[i], Row(i))
ShapeOK ==
    phase = "done" =>
      Len(res) = (IF axis = "none" THEN ndim
                  ELSE IF ndim = 1 THEN 1
                  ELSE IF axis = "0" THEN Cn ELSE R)
=============================================================================
