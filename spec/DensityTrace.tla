------------------------------ MODULE DensityTrace ------------------------------
(***************************************************************************)
(* Batch validation of recorded StreamDensityBasedAL histories (integer    *)
(* features, stub classifier, explicit budget manager in the exact regime) *)
(* against DensityQS with Advance = FALSE (the code as it is).  Every      *)
(* Query / Update event carries the projected committed state after the    *)
(* call: window_, min_dist_ and the nested manager state.                  *)
(***************************************************************************)
EXTENDS DensityQS, Json, IOUtils, TLCExt

Traces == JsonDeserialize(IOEnv.TRACE_FILE)
VARIABLES win, md, cm, n, granted, last, tid, l
tvars == <<win, md, cm, n, granted, last, tid, l>>
ASSUME \A t \in 1..Len(Traces) : TLCSet(t, 0)

T  == Traces[tid]
P  == T.P
Ev == T.events[l]
C(name, cond) == Chk(tid, l, name, cond)
IsEvent(e) == /\ l <= Len(T.events) /\ Ev.ev = e /\ l' = l + 1 /\ tid' = tid
NoLast == [valid |-> FALSE, xs |-> <<>>, us |-> <<>>, res |-> <<>>]

TInit == /\ tid \in 1..Len(Traces) /\ l = 1
         /\ win = <<>> /\ md = <<>> /\ cm = InitState(Traces[tid].P) /\ n = 0 /\ granted = 0 /\ last = NoLast

MgrOf(s) == [u |-> s.u, th |-> s.th, t |-> s.t, cnt |-> s.cnt, obs |-> s.obs, qd |-> s.qd,
             hist |-> s.hist, pos |-> s.pos]
InSeq(x, s) == \E k \in DOMAIN s : s[k] = x
Indices(dec) == LET S == {i \in DOMAIN dec : dec[i]} IN
                [k \in 1..Cardinality(S) |-> CHOOSE i \in S : Cardinality({j \in S : j < i}) = k - 1]

TQuery ==
    /\ IsEvent("Query")
    /\ LET wants == [i \in DOMAIN Ev.xs |-> InSeq(i, Ev.res)]
           dec == QFold(P, T.ws, FALSE, win, md, cm, Ev.xs, Ev.us, T.rnd, wants, 1)
       IN /\ C("utilities-one-per-candidate", Ev.nutil = Len(Ev.xs))
          /\ C("result-equals-simulation", Indices(dec) = Ev.res)
          /\ C("query-leaves-window-unchanged", Ev.st.win = win /\ Ev.st.md = md)
          /\ C("query-leaves-manager-unchanged", MgrOf(Ev.st.mgr) = cm)
          /\ C("repeated-query-same-result",
                (last.valid /\ last.xs = Ev.xs /\ last.us = Ev.us) => last.res = Ev.res)
          /\ last' = [valid |-> TRUE, xs |-> Ev.xs, us |-> Ev.us, res |-> Ev.res]
    /\ UNCHANGED <<win, md, cm, n, granted>>

TUpdate ==
    /\ IsEvent("Update")
    /\ LET qs == [i \in DOMAIN Ev.xs |-> InSeq(i, Ev.q)]
           wf == WFold(T.ws, win, md, Ev.xs, 1)
           new == CommitFold(P, cm, qs, Ev.us, T.rnd, cm.u, 1)
       IN /\ C("window-after-update", Ev.st.win = wf.win /\ Ev.st.md = wf.md)
          /\ C("manager-after-update-equals-per-instance-commit", MgrOf(Ev.st.mgr) = new)
          /\ win' = wf.win /\ md' = wf.md /\ cm' = new
          /\ n' = n + Len(Ev.xs) /\ granted' = granted + Cardinality({i \in DOMAIN qs : qs[i]})
    /\ last' = NoLast

TNext == TQuery \/ TUpdate
TSpec == TInit /\ [][TNext]_tvars
Progress == TLCSet(tid, IF TLCGet(tid) < l THEN l ELSE TLCGet(tid))
Post == /\ PrintT(<<"VALIDATED", Len(Traces)>>)
        /\ \A t \in 1..Len(Traces) :
             IF TLCGet(t) = Len(Traces[t].events) + 1 THEN TRUE
             ELSE PrintT(<<"REJECT", t, TLCGet(t)>>)
=============================================================================
