---------------------------- MODULE WrappersTrace ----------------------------
(***************************************************************************)
(* Batch validation for C20 (b) SubSamplingWrapper and (c) the order in    *)
(* which SingleAnnotatorWrapper chooses samples.  The harness records the  *)
(* call the wrapper actually made to the wrapped strategy (arguments and   *)
(* result, translated to the caller's index space by matching feature      *)
(* rows) as an Inner event, and the wrapper's own result as an Outer event.*)
(* (a) ParallelUtilityEstimationWrapper is validated by EquivTrace.        *)
(***************************************************************************)
EXTENDS Common, Json, IOUtils, TLCExt

Traces == JsonDeserialize(IOEnv.TRACE_FILE)
VARIABLES inner, tid, l
tvars == <<inner, tid, l>>
ASSUME \A t \in 1..Len(Traces) : TLCSet(t, 0)

NegInf == -999999
T  == Traces[tid]
Ev == T.events[l]
C(name, cond) == Chk(tid, l, name, cond)
IsEvent(e) == /\ l <= Len(T.events) /\ Ev.ev = e /\ l' = l + 1 /\ tid' = tid
SetOf(s) == {s[i] : i \in DOMAIN s}

NoInner == [S |-> <<>>, q |-> <<>>, rows |-> <<>>, rank |-> <<>>]
TInit == /\ tid \in 1..Len(Traces) /\ l = 1 /\ inner = NoInner

\* (sub-sampling cases that hand sample weights through the wrapper log `wok`: every weight reached the wrapped
\*  strategy at the row of its own sample)
TInner == /\ IsEvent("Inner")
          /\ C("sample-weights-follow-their-samples", "wok" \in DOMAIN Ev => Ev.wok)
          /\ inner' = [S |-> Ev.S, q |-> Ev.q, rows |-> Ev.rows, rank |-> Ev.rank]

\* documented size of the sub-sample
Cands == SetOf(T.cands)
SizeOf == IF T.frac THEN CeilDiv(Cardinality(Cands) * T.maxc[1], T.maxc[2]) ELSE T.maxc[1]
Sub == SetOf(inner.S)

TOuterSub ==
    /\ IsEvent("OuterSub")
    /\ C("subsample-is-subset-of-candidates", Sub \subseteq Cands)
    /\ C("subsample-has-documented-size", Cardinality(Sub) = Min2(SizeOf, Cardinality(Cands)))
    /\ C("selection-from-subsample", SetOf(Ev.q) \subseteq Sub)
    /\ C("selection-equals-wrapped-strategy-selection", Ev.q = inner.q)
    /\ C("same-selection-without-return_utilities", Ev.qplain = Ev.q)
    /\ C("one-row-per-selected-sample", Len(Ev.rows) = Len(Ev.q) /\ Len(inner.rows) = Len(Ev.rows))
    /\ C("row-width", \A i \in DOMAIN Ev.rows : Len(Ev.rows[i]) = T.n)
    /\ C("nan-at-non-candidates",
          \A i \in DOMAIN Ev.rows : \A j \in 1..T.n : j \notin Cands => Ev.rows[i][j] = NaN)
    /\ C("minus-infinity-at-candidates-outside-subsample",
          \A i \in DOMAIN Ev.rows : \A j \in Cands \ Sub : Ev.rows[i][j] = NegInf)
    /\ C("wrapped-utilities-on-subsample",
          \A i \in DOMAIN Ev.rows : \A j \in Sub : Ev.rows[i][j] = inner.rows[i][j])
    /\ UNCHANGED inner

\* (c) samples are chosen in the order the wrapped strategy ranks them
RECURSIVE FirstAppearance(_, _)
FirstAppearance(s, seen) ==
    IF s = <<>> THEN <<>>
    ELSE IF Head(s) \in seen THEN FirstAppearance(Tail(s), seen)
    ELSE <<Head(s)>> \o FirstAppearance(Tail(s), seen \cup {Head(s)})
TOuterSaw ==
    /\ IsEvent("OuterSaw")
    /\ LET order == FirstAppearance(Ev.samples, {})
       IN C("samples-in-the-order-of-the-wrapped-ranking",
            Len(order) <= Len(inner.rank) /\ order = Prefix(inner.rank, Len(order)))
    /\ UNCHANGED inner

TNext == TInner \/ TOuterSub \/ TOuterSaw
TSpec == TInit /\ [][TNext]_tvars

Progress == TLCSet(tid, IF TLCGet(tid) < l THEN l ELSE TLCGet(tid))
Post == /\ PrintT(<<"VALIDATED", Len(Traces)>>)
        /\ \A t \in 1..Len(Traces) :
             IF TLCGet(t) = Len(Traces[t].events) + 1 THEN TRUE
             ELSE PrintT(<<"REJECT", t, TLCGet(t)>>)
=============================================================================
