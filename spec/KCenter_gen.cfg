SPECIFICATION Spec
CONSTANTS
  MaxN = 5
  Coords = {0, 1, 3}
  MaxBS = 4
  ResetForgetsMarks = FALSE
CONSTRAINT GenCase
CHECK_DEADLOCK FALSE
