SPECIFICATION Spec
CONSTANTS
  MaxN = 5
  Coords = {0, 1, 3}
  MaxBS = 4
  ResetForgetsMarks = TRUE
INVARIANT PicksDistinct
INVARIANT PicksAreCandidates
INVARIANT NaNExactlyAtUnavailable
INVARIANT FarthestFirst
CHECK_DEADLOCK FALSE
