SPECIFICATION Spec
CONSTANTS
  MaxN = 5
  Coords = {0, 1, 3}
  MaxBS = 4
  ResetForgetsMarks = TRUE
INVARIANT PicksDistinct
CHECK_DEADLOCK FALSE
