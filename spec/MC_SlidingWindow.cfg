SPECIFICATION Spec
CONSTANTS
  WSizes = {0, 1, 2, 3}
  MaxOps = 3
  MaxBatch = 2
  DropNewest = FALSE
INVARIANT TypeOK
INVARIANT Bound
INVARIANT LatestSamples
INVARIANT OnlyLabeledKept
INVARIANT ModelFollowsWindow
PROPERTY FailedCallKeepsModel
CHECK_DEADLOCK FALSE
