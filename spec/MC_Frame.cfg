SPECIFICATION Spec
CONSTANTS
  Ids = {1, 2}
PROPERTY QueryFrame
CONSTRAINT Short
CHECK_DEADLOCK FALSE
