SPECIFICATION Spec
CONSTANTS
  NAnn = 2
  NCls = 2
  NSmp = 2
  FirstColumn = TRUE
INVARIANT OwnLabels
CHECK_DEADLOCK FALSE
