------------------------------- MODULE Wrappers -------------------------------
(***************************************************************************)
(* Index-space algebra of skactiveml/pool/_wrapper.py SubSamplingWrapper.  *)
(* Caller space: samples 1..N, `labeled`, candidate set Cands (unlabeled   *)
(* samples for candidates=None, or a given index set).  The wrapper draws  *)
(* a sub-sample S of Cands of size Min(size, |Cands|) and asks the wrapped *)
(* strategy - abstracted to a score function f over sample identities -    *)
(* either on the full data (exclude = FALSE) or on the reduced data set    *)
(* `sal` = sorted(labeled \cup S) (exclude = TRUE), whose positions 1..|sal| *)
(* form the inner index space.  Retranslate maps the inner result back.    *)
(* Deviation switch Unsorted (code-shaped mutation: forgetting np.sort of  *)
(* subset_and_labeled_indices): positions and identities get mixed up.     *)
(***************************************************************************)
EXTENDS Common, SequencesExt

CONSTANTS MaxN, Vals, Unsorted

VARIABLES N, labeled, Cands, size, exclude, f, S, sal, innerUtil, innerPick, util, pick, phase
vars == <<N, labeled, Cands, size, exclude, f, S, sal, innerUtil, innerPick, util, pick, phase>>

NegInf == -999999

Init == /\ N \in 1..MaxN
        /\ labeled \in SUBSET (1..N) /\ labeled # 1..N
        /\ Cands \in {(1..N) \ labeled} \cup ((SUBSET ((1..N) \ labeled)) \ {{}})
        /\ size \in 1..N
        /\ exclude \in BOOLEAN
        /\ f \in [1..N -> Vals]
        /\ S = {} /\ sal = <<>> /\ innerUtil = <<>> /\ innerPick = 0 /\ util = <<>> /\ pick = 0
        /\ phase = "subsample"

SubSample == /\ phase = "subsample"
             /\ \E T \in SUBSET Cands :
                   /\ Cardinality(T) = Min2(size, Cardinality(Cands))
                   /\ S' = T
             /\ phase' = "reduce"
             /\ UNCHANGED <<N, labeled, Cands, size, exclude, f, sal, innerUtil, innerPick, util, pick>>

SortedSeq(T) == SetToSortSeq(T, LAMBDA a, b : a < b)
AnySeq(T) == SetToSeqs(T)

Reduce == /\ phase = "reduce"
          /\ IF exclude
             THEN sal' \in (IF Unsorted THEN AnySeq(labeled \cup S) ELSE {SortedSeq(labeled \cup S)})
             ELSE sal' = [i \in 1..N |-> i]
          /\ phase' = "inner"
          /\ UNCHANGED <<N, labeled, Cands, size, exclude, f, S, innerUtil, innerPick, util, pick>>

\* inner candidates: positions of the sub-sample in the inner space
InnerCands == {p \in DOMAIN sal : sal[p] \in S}
InnerQuery == /\ phase = "inner"
              /\ innerUtil' = [p \in DOMAIN sal |-> IF p \in InnerCands THEN f[sal[p]] ELSE NaN]
              /\ innerPick' \in ArgmaxSet(innerUtil')
              /\ phase' = "retranslate"
              /\ UNCHANGED <<N, labeled, Cands, size, exclude, f, S, sal, util, pick>>

\* _wrapper.py: queried = subset_and_labeled[queried]; utilities scattered back
\* (the code-shaped deviation scatters by *sorted* identities although the
\* inner space was built from the unsorted sequence)
Back(p) == IF Unsorted /\ exclude THEN SortedSeq(labeled \cup S)[p] ELSE sal[p]
Retranslate == /\ phase = "retranslate"
               /\ pick' = Back(innerPick)
               /\ util' = [j \in 1..N |->
                             IF j \notin Cands THEN NaN
                             ELSE IF \E p \in InnerCands : Back(p) = j
                                  THEN innerUtil[CHOOSE p \in InnerCands : Back(p) = j]
                                  ELSE NegInf]
               /\ phase' = "done"
               /\ UNCHANGED <<N, labeled, Cands, size, exclude, f, S, sal, innerUtil, innerPick>>

Next == SubSample \/ Reduce \/ InnerQuery \/ Retranslate
Spec == Init /\ [][Next]_vars

---------------------------------------------------------------------------
\* C20 (b)
SubsampleSize == phase # "subsample" => (S \subseteq Cands /\ Cardinality(S) = Min2(size, Cardinality(Cands)))
Transparent == phase = "done" =>
                 /\ pick \in S
                 /\ \A j \in 1..N :
                      util[j] = (IF j \in S THEN f[j] ELSE IF j \in Cands THEN NegInf ELSE NaN)
                 /\ pick \in ArgmaxSet([j \in 1..N |-> IF j \in S THEN f[j] ELSE NaN])
=============================================================================
