SPECIFICATION Spec
CONSTANTS
  MaxK = 3
  VoteShapes <- MCShapesSmall
  ConfShapes <- MCShapes
  Weights <- MCWeights
INVARIANT TypeOK
INVARIANT VoteRowSum
INVARIANT VoteSupport
INVARIANT VoteCounts
INVARIANT RaiseOnlyWithoutClasses
INVARIANT MajorityOK
INVARIANT Unanimous
INVARIANT ConfCounts
INVARIANT ConfNormalised
INVARIANT ConfFree
CHECK_DEADLOCK FALSE
