---------------------------- MODULE RegressTrace ----------------------------
(***************************************************************************)
(* Batch trace validation for Regress (C15): every trace is one TLC case   *)
(* realised by harness/drivers/c15.py with one small data set; each event  *)
(* is one public call of the regressor with band-encoded results.          *)
(***************************************************************************)
EXTENDS Regress, Json, IOUtils, TLCExt

Traces == JsonDeserialize(IOEnv.TRACE_FILE)

VARIABLES tid, l
tvars == <<vars, tid, l>>

ASSUME \A t \in 1..Len(Traces) : TLCSet(t, 0)

T  == Traces[tid]
Ev == T.events[l]
C(name, cond) == Chk(tid, l, name, cond)

IsEvent(e) == /\ l <= Len(T.events) /\ Ev.ev = e
              /\ l' = l + 1 /\ tid' = tid

TInit == /\ tid \in 1..Len(Traces)
         /\ l = 1
         /\ LET t == Traces[tid] IN
            InitWith([kind |-> t.kind, nLab |-> t.nLab, prior |-> t.prior,
                      retStd |-> t.retStd, retEnt |-> t.retEnt], t.labelMean)

\* the kernel regressors document that a training set whose LABELED samples all have weight zero is rejected
\* by fit (weights of unlabeled samples do not count); T.zeroLabeledWeights marks such training sets
ZeroW == "zeroLabeledWeights" \in DOMAIN T /\ T.zeroLabeledWeights
TFit == /\ IsEvent("Fit")
        /\ C("case-in-table", case \in Cases /\ Cardinality(RowsOf(case)) = 1)
        /\ C("all-zero-labeled-weights-are-rejected", ~ZeroW)
        /\ Fit
TFitRejected == /\ IsEvent("FitRejected")
                /\ C("only-all-zero-labeled-weights-are-rejected", ZeroW)
                /\ phase' = "rejected"      \* (a documented refusal of the training set, not a failure of a call)
                /\ row' = IF row = 0 THEN CHOOSE i \in RowsOf(case) : TRUE ELSE row
                /\ UNCHANGED <<case, dMean, dStd, dEnt, pArity, pMean, pStd, pEnt, labelMean, sShape, sDig>>

\* outside the envelope (improper kernel prior without a label) any call may
\* fail; the trace ends there
TRaisedOutside == /\ IsEvent("Raised")
                  /\ C("call-succeeds-inside-envelope",
                       \A i \in RowsOf(case) : Rows[i].mayRaise)
                  /\ phase' = "done"
                  /\ row' = IF row = 0 THEN CHOOSE i \in RowsOf(case) : TRUE ELSE row
                  /\ UNCHANGED <<case, dMean, dStd, dEnt, pArity, pMean, pStd, pEnt, labelMean, sShape, sDig>>

TDistRaised == /\ IsEvent("DistRaised")
               /\ C("phase", phase = "fitted")
               /\ C("distribution-defined-inside-envelope", Req.mayRaise)
               /\ DistRaised

TDist == /\ IsEvent("Dist")
         /\ C("phase", phase = "fitted" /\ Probabilistic(case.kind))
         /\ C("distribution-shapes", /\ Len(Ev.mean) = T.nq /\ Len(Ev.std) = T.nq
                                     /\ Len(Ev.ent) = T.nq /\ T.nq >= 1)
         /\ C("std-finite-and-non-negative", StdOK(Ev.std))
         /\ C("fallback-mean", FallbackOK(Ev.mean))
         /\ Dist(Ev.mean, Ev.std, Ev.ent)

TPredict == /\ IsEvent("Predict")
            /\ C("phase", phase = "dist")
            /\ C("tuple-arity-follows-flags", Ev.arity = Arity(case))
            /\ C("bare-array-iff-no-flag", Ev.bare <=> (Arity(case) = 1))
            /\ C("predict-equals-distribution-mean", AllNear(Ev.mean, dMean))
            /\ C("std-equals-distribution-std",
                 IF case.retStd THEN AllNear(Ev.std, dStd) ELSE Ev.std = <<>>)
            /\ C("entropy-equals-distribution-entropy",
                 IF case.retEnt THEN AllNear(Ev.ent, dEnt) ELSE Ev.ent = <<>>)
            /\ Predict(Ev.arity, Ev.mean, Ev.std, Ev.ent)

TPredictPlain == /\ IsEvent("PredictPlain")
                 /\ C("phase", phase = "fitted" /\ ~Probabilistic(case.kind))
                 /\ C("bare-array", Ev.bare /\ Ev.arity = 1 /\ Len(Ev.mean) = T.nq /\ T.nq >= 1)
                 /\ C("fallback-mean", FallbackOK(Ev.mean))
                 /\ PredictPlain(Ev.arity, Ev.mean)

TSample == /\ IsEvent("Sample")
           /\ C("phase", phase = "pred" /\ Req.samples)
           /\ C("sample-shape-is-queries-by-samples", Ev.shape = <<T.nq, Ev.ns>>)
           /\ Sample(T.nq, Ev.ns, Ev.shape, Ev.dig)

TSampleAgain == /\ IsEvent("SampleAgain")
                /\ C("phase", phase = "sampled")
                /\ C("same-random-state-same-samples", Ev.shape = sShape /\ Ev.dig = sDig)
                /\ SampleAgain(Ev.shape, Ev.dig)

TNext == TFit \/ TFitRejected \/ TRaisedOutside \/ TDistRaised \/ TDist \/ TPredict \/ TPredictPlain \/ TSample \/ TSampleAgain

TSpec == TInit /\ [][TNext]_tvars

Progress == TLCSet(tid, IF TLCGet(tid) < l THEN l ELSE TLCGet(tid))

Post == /\ PrintT(<<"VALIDATED", Len(Traces)>>)
        /\ \A t \in 1..Len(Traces) :
             IF TLCGet(t) = Len(Traces[t].events) + 1 THEN TRUE
             ELSE PrintT(<<"REJECT", t, TLCGet(t)>>)
=============================================================================
