SPECIFICATION Spec
CONSTANTS
  MaxN = 4
  Vals <- MCVals
  Unsorted = FALSE
INVARIANT SubsampleSize
INVARIANT Transparent
CHECK_DEADLOCK FALSE
