SPECIFICATION Spec
CONSTANTS
  NSmax = 5
  NAmax = 3
  K = 2
CONSTRAINT GenCase
CHECK_DEADLOCK FALSE
