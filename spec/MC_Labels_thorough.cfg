SPECIFICATION Spec
CONSTANTS
  MaxK = 3
  MaxLen = 6
  MaxRows = 3
  MaxCols = 3
INVARIANT TypeOK
INVARIANT Complement
INVARIANT IndexOrder
INVARIANT Sorted
INVARIANT Encoding
INVARIANT RoundTrip
INVARIANT NoStuck
CHECK_DEADLOCK FALSE
