SPECIFICATION Spec
CONSTANTS
  MaxN = 5
INVARIANT OnlyUnlabeled
INVARIANT NeverTwice
INVARIANT ExhaustedExactly
INVARIANT NeverLate
PROPERTY Terminates
CHECK_DEADLOCK FALSE
