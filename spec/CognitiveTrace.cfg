SPECIFICATION TSpec
CONSTRAINT Progress
POSTCONDITION Post
CHECK_DEADLOCK FALSE
