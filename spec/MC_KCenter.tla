------------------------------ MODULE MC_KCenter ------------------------------
EXTENDS KCenter, Json
GenCase == IF picks = <<>> /\ variant = "coreset"
           THEN PrintT(ToJson([U |-> U, labeled |-> SortedSeq(labeled), cands |-> cands, bs |-> bs])) /\ FALSE
           ELSE FALSE
=============================================================================
