------------------------------- MODULE KCenter -------------------------------
(***************************************************************************)
(* Farthest-first traversal as coded in                                    *)
(*   skactiveml/pool/_core_set.py        k_greedy_center/_update_distances *)
(*   skactiveml/pool/_greedy_sampling.py _greedy_sampling(method="x")      *)
(* on points of the integer line (all distances are exact).  One action    *)
(* per batch step; the utility row of a step is a function of the state,   *)
(* the pick is any maximiser of the row (ties are broken at random).       *)
(*                                                                         *)
(* U        coordinates of the "universe" the code works on                *)
(*          (CoreSet, feature-row candidates: candidates ++ labeled rows;  *)
(*           GreedySamplingX, feature-row candidates: X ++ candidates)     *)
(* labeled  universe indices of the labeled samples (initial centres)      *)
(* cands    universe indices of the candidates, in candidate order         *)
(* sumset   GreedySamplingX: the samples of X (cold start: the candidate   *)
(*          with the smallest summed distance to X is taken first)         *)
(* full     utility rows are indexed by the universe (TRUE: candidates     *)
(*          None / index array) or by candidate position (FALSE)           *)
(*                                                                         *)
(* Code-shaped facts kept on purpose:                                      *)
(*   CoreSet   - no centre at all: the first row is all zero;              *)
(*             - the row of step i is min(previous row, distance to the    *)
(*               latest pick); NaN marks of earlier picks survive through  *)
(*               the minimum; when the previous row sums to zero its zeros *)
(*               are read as +infinity (ZeroReset) - from then on the row  *)
(*               is the distance to the picks since the reset only.        *)
(*   GSx       - rows are recomputed from the distances to all selected    *)
(*               samples; picked candidates are NaN.                       *)
(* Deviation ResetForgetsMarks (vacuity guard): ZeroReset also turns the   *)
(* NaN marks into +infinity - PicksDistinct must then fail.                *)
(***************************************************************************)
EXTENDS Common

CONSTANTS MaxN, Coords, MaxBS, ResetForgetsMarks

INF == 999999

VARIABLES variant,   \* "coreset" | "gsx"
          U, labeled, cands, sumset, full, bs,
          picks,     \* universe indices picked so far (in order)
          rows       \* utility rows of the steps done (each over 1..Len(U))
vars == <<variant, U, labeled, cands, sumset, full, bs, picks, rows>>

Dist(u, v) == Abs(U[u] - U[v])
SetMin(S) == CHOOSE m \in S : \A k \in S : m <= k
MinDist(u, C) == SetMin({Dist(u, c) : c \in C})
CandSet == Range(cands)
RECURSIVE SortedSeq(_)
SortedSeq(S) == IF S = {} THEN <<>> ELSE LET m == SetMin(S) IN <<m>> \o SortedSeq(S \ {m})
RECURSIVE SumOver(_, _)
SumOver(S, u) == IF S = {} THEN 0 ELSE LET s == CHOOSE s \in S : TRUE IN Dist(u, s) + SumOver(S \ {s}, u)

\* ---- CoreSet ------------------------------------------------------------
CoreRow0 == [u \in DOMAIN U |->
               IF u \in CandSet /\ u \notin labeled
               THEN (IF labeled = {} THEN 0 ELSE MinDist(u, labeled)) ELSE NaN]
NanSum(r) == SumSeq([u \in DOMAIN r |-> IF r[u] = NaN \/ r[u] = INF THEN 0 ELSE r[u]])
HasInf(r) == \E u \in DOMAIN r : r[u] = INF
CoreRowNext(prev, p) ==
    LET reset == NanSum(prev) = 0 /\ ~HasInf(prev)
        rd(u) == IF reset /\ (prev[u] = 0 \/ (ResetForgetsMarks /\ prev[u] = NaN)) THEN INF ELSE prev[u]
        l(u)  == IF u \in CandSet THEN rd(u) ELSE 0
        mn(u) == IF l(u) = NaN THEN NaN ELSE Min2(l(u), Dist(u, p))
    IN [u \in DOMAIN U |-> IF u = p \/ u \notin CandSet THEN NaN ELSE mn(u)]

\* ---- GreedySamplingX ------------------------------------------------------
GsxRow(done) ==
    LET sel == labeled \cup Range(done) IN
    [u \in DOMAIN U |->
        IF u \notin CandSet \/ u \in Range(done) THEN NaN
        ELSE IF sel = {} THEN 0 - SumOver(sumset, u) ELSE MinDist(u, sel)]

CurrentRow == IF variant = "gsx" THEN GsxRow(picks)
              ELSE IF picks = <<>> THEN CoreRow0
              ELSE CoreRowNext(rows[Len(rows)], picks[Len(picks)])

Init == /\ variant \in {"coreset", "gsx"}
        /\ \E n \in 1..MaxN :
             /\ U \in [1..n -> Coords]
             /\ labeled \in SUBSET (1..n)
             /\ \E cs \in SUBSET ((1..n) \ labeled) :
                  /\ cs # {}
                  /\ cands = SortedSeq(cs)
                  /\ bs \in 1..Min2(MaxBS, Cardinality(cs))
             /\ sumset = 1..n
        /\ full = TRUE
        /\ picks = <<>> /\ rows = <<>>

Pick(p) == /\ Len(picks) < bs
           /\ LET r == CurrentRow IN
              /\ p \in ArgmaxSet(r)
              /\ rows' = Append(rows, r)
           /\ picks' = Append(picks, p)
           /\ UNCHANGED <<variant, U, labeled, cands, sumset, full, bs>>
Next == \E p \in DOMAIN U : Pick(p)
Spec == Init /\ [][Next]_vars

\* ---- properties ----------------------------------------------------------
PicksDistinct == Distinct(picks)
PicksAreCandidates == Range(picks) \subseteq CandSet
NaNExactlyAtUnavailable ==
    \A i \in DOMAIN rows : \A u \in DOMAIN U :
        (rows[i][u] = NaN) <=> (u \notin CandSet \/ u \in labeled \/ \E j \in 1..(i - 1) : picks[j] = u)
\* the contract of the traversal: every pick is a remaining candidate farthest from the centres so far
\* (no centre yet: CoreSet may take any candidate, GreedySamplingX takes a candidate closest to all samples)
TrueMin(u, i) == MinDist(u, labeled \cup {picks[j] : j \in 1..(i - 1)})
Remaining(i) == CandSet \ {picks[j] : j \in 1..(i - 1)}
FarthestFirst ==
    \A i \in DOMAIN picks :
        IF labeled = {} /\ i = 1
        THEN (variant = "gsx" => \A u \in Remaining(1) : SumOver(sumset, picks[1]) <= SumOver(sumset, u))
        ELSE \A u \in Remaining(i) : TrueMin(u, i) <= TrueMin(picks[i], i)
=============================================================================
