SPECIFICATION TSpec
CONSTANTS
  MaxN = 0
  Coords = {}
  MaxBS = 0
  ResetForgetsMarks = FALSE
CONSTRAINT Progress
POSTCONDITION Post
CHECK_DEADLOCK FALSE
