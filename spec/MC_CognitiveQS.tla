--------------------------- MODULE MC_CognitiveQS ---------------------------
(* Model checking of the cognition window of CognitiveQS: every stream over  *)
(* a small feature domain; checked: the parallel lists stay aligned, the     *)
(* window never exceeds CWS + 1 instances, time stamps never lie in the      *)
(* future, recalled counts are non-negative, a forgotten instance is one of  *)
(* weakest memory strength (by construction of CStep) and an instance just   *)
(* recalled is never the one forgotten while an older one exists.            *)
EXTENDS CognitiveQS
CONSTANTS CWS, Depth
VARIABLES c, lastForgotRecalled
vars == <<c, lastForgotRecalled>>
Feat == {0, 1, 2, 4}
Init == c = InitC /\ lastForgotRecalled = FALSE
Next == /\ c.t < Depth
        /\ \E x \in Feat : \E r \in CStep(CWS, c, x) :
              /\ c' = Tick(r.c)
              /\ lastForgotRecalled' = FALSE
Spec == Init /\ [][Next]_vars
Aligned == /\ Len(c.md) = Len(c.cw) /\ Len(c.th) = Len(c.cw) /\ Len(c.tx) = Len(c.cw)
Bounded == Len(c.cw) <= CWS + 1
Stamps == \A k \in DOMAIN c.cw : c.tx[k] <= c.t /\ c.th[k] >= 0 /\ c.md[k] >= 0
NewestKept == c.t > 0 => c.tx[Len(c.cw)] = c.t - 1
=============================================================================
