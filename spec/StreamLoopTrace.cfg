SPECIFICATION TSpec
CONSTANTS
  MKind = "Periodic"
  MB <- MCB0
  WSize = 0
  MaxT = 0
  RndLen = 0
  LeakLabels = FALSE
CONSTRAINT Progress
POSTCONDITION Post
CHECK_DEADLOCK FALSE
