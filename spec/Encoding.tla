------------------------------- MODULE Encoding -------------------------------
(***************************************************************************)
(* Design statement behind C09: an abstract label array over class indices *)
(* 0..K-1 and "missing" (-1) has one meaning; a concrete encoding is a     *)
(* strictly increasing renaming `ren` of the classes (10,20,30 / 'a','b')  *)
(* plus a sentinel for missing labels.  The label encoder                  *)
(* (skactiveml/utils/_label_encoder.py) sorts the classes it is given or   *)
(* sees and maps them to 0..K'-1, missing to -1.  Because `ren` preserves  *)
(* the order, the encoded integers - on which every strategy and           *)
(* classifier works internally - do not depend on `ren`, and decoding the  *)
(* index of a prediction re-encodes the abstract prediction.               *)
(***************************************************************************)
EXTENDS Common, SequencesExt

CONSTANTS K, MaxLen, Codes

VARIABLES y, ren, declared
vars == <<y, ren, declared>>
Miss == -1

Increasing(f) == \A a, b \in DOMAIN f : a < b => f[a] < f[b]
Init == /\ \E n \in 0..MaxLen : y \in [1..n -> (0..(K - 1)) \cup {Miss}]
        /\ ren \in {f \in [0..(K - 1) -> Codes] : Increasing(f)}
        /\ declared \in BOOLEAN
Next == UNCHANGED vars
Spec == Init /\ [][Next]_vars

Enc(r) == [i \in DOMAIN y |-> IF y[i] = Miss THEN Miss ELSE r[y[i]]]
Seen(e) == {e[i] : i \in {j \in DOMAIN e : e[j] # Miss}}
ClassesOf(r) == IF declared THEN {r[c] : c \in 0..(K - 1)} ELSE Seen(Enc(r))
Sorted(S) == SetToSortSeq(S, LAMBDA a, b : a < b)
IndexOf(s, x) == CHOOSE i \in DOMAIN s : s[i] = x
Transform(r) == LET cls == Sorted(ClassesOf(r)) e == Enc(r) IN
                [i \in DOMAIN e |-> IF e[i] = Miss THEN Miss ELSE IndexOf(cls, e[i]) - 1]
Decode(r, t) == LET cls == Sorted(ClassesOf(r)) IN
                 [i \in DOMAIN t |-> IF t[i] = Miss THEN Miss ELSE cls[t[i] + 1]]
IdRen == [c \in 0..(K - 1) |-> c]

\* the internal integers do not depend on the renaming
EncodingInvariant == Transform(ren) = Transform(IdRen)
\* decoding re-encodes the abstract labels
RoundTrip == Decode(ren, Transform(ren)) = Enc(ren)
\* with declared classes the internal integers are the abstract indices
DeclaredIsIdentity == declared => Transform(ren) = y
=============================================================================
