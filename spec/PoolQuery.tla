------------------------------ MODULE PoolQuery ------------------------------
(***************************************************************************)
(* The query pipeline shared by all single-annotator pool strategies       *)
(* (skactiveml/base.py SingleAnnotatorPoolQueryStrategy + the per-strategy *)
(* scoring + skactiveml/utils/_selection.py simple_batch).                 *)
(*                                                                         *)
(* Samples are 1..N, `labeled` the labeled ones.  Candidates are given in  *)
(* one of three modes:                                                     *)
(*    "none"  candidates=None        -> the unlabeled samples              *)
(*    "idx"   candidates=<indices>   -> the given sample ids (a set `S`)   *)
(*    "rows"  candidates=<features>  -> M anonymous rows, addressed 1..M   *)
(* Actions (code sites):                                                   *)
(*    Validate   base.py _validate_data: clip batch_size to #candidates    *)
(*    Transform  base.py _transform_candidates: candidate ids + mapping    *)
(*    Score      the strategy's scoring: the environment chooses a number  *)
(*               for every still selectable candidate (ties allowed)       *)
(*    Pick       one step of simple_batch / of a strategy's own            *)
(*               sequential loop: row snapshot, choice, masking            *)
(* `kind` = "max": the chosen sample attains the row maximum (rand_argmax, *)
(* ties broken arbitrarily); "sampling": it has positive mass.             *)
(***************************************************************************)
EXTENDS Common

CONSTANTS MaxN, Vals        \* Vals: score domain (integers; sign-preserving ranks)

VARIABLES N, labeled, mode, S, M,     \* the call's arguments (abstract)
          bs0, kind,
          bs, cand, width,            \* after Validate / Transform
          score,                      \* current scores over 1..width (NaN = not selectable)
          picked, rows, phase

vars == <<N, labeled, mode, S, M, bs0, kind, bs, cand, width, score, picked, rows, phase>>

\* ids that may be returned, and the width of a utility row
CandIds == IF mode = "none" THEN (1..N) \ labeled
           ELSE IF mode = "idx" THEN S ELSE 1..M
Width   == IF mode = "rows" THEN M ELSE N

InitWith(n, lab, md, s, m, b, k) ==
    /\ N = n /\ labeled = lab /\ mode = md /\ S = s /\ M = m /\ bs0 = b /\ kind = k
    /\ bs = b /\ cand = {} /\ width = 0 /\ score = <<>> /\ picked = <<>> /\ rows = <<>>
    /\ phase = "validate"

Init == \E n \in 1..MaxN :
          \E lab \in SUBSET (1..n), md \in {"none", "idx", "rows"}, k \in {"max", "sampling"} :
            \E s \in (IF md = "idx" THEN SUBSET (1..n) ELSE {{}}),
               m \in (IF md = "rows" THEN 1..n ELSE {0}) :
              \E b \in 1..(n + 1) :
                 /\ (md = "none" => lab # 1..n)          \* something to query
                 /\ (md = "idx" => s # {})
                 /\ InitWith(n, lab, md, s, m, b, k)

Validate == /\ phase = "validate"
            /\ bs' = Min2(bs0, Cardinality(CandIds))
            /\ phase' = "transform"
            /\ UNCHANGED <<N, labeled, mode, S, M, bs0, kind, cand, width, score, picked, rows>>

Transform == /\ phase = "transform"
             /\ cand' = CandIds /\ width' = Width
             /\ phase' = "score"
             /\ UNCHANGED <<N, labeled, mode, S, M, bs0, kind, bs, score, picked, rows>>

\* the strategy scores every still selectable candidate with a number
Selectable == cand \ Range(picked)
Score == /\ phase = "score" /\ Len(picked) < bs
         /\ \E f \in [Selectable -> Vals] :
              score' = [j \in 1..width |-> IF j \in Selectable THEN f[j] ELSE NaN]
         /\ phase' = "pick"
         /\ UNCHANGED <<N, labeled, mode, S, M, bs0, kind, bs, cand, width, picked, rows>>

Pick(j) == /\ phase = "pick"
           /\ IF kind = "max" THEN j \in ArgmaxSet(score)
              ELSE j \in NonNaNIdx(score) /\ score[j] > 0
           /\ rows' = Append(rows, score) /\ picked' = Append(picked, j)
           /\ phase' = "score"
           /\ UNCHANGED <<N, labeled, mode, S, M, bs0, kind, bs, cand, width, score>>

\* a sampling strategy needs positive mass somewhere; the model only explores
\* scorings that leave one (the strategies add a positive constant / use
\* squared distances)
Stuck == phase = "pick" /\ kind = "sampling" /\ ~\E j \in NonNaNIdx(score) : score[j] > 0

Finish == /\ phase = "score" /\ Len(picked) = bs
          /\ phase' = "done"
          /\ UNCHANGED <<N, labeled, mode, S, M, bs0, kind, bs, cand, width, score, picked, rows>>

Next == Validate \/ Transform \/ Score \/ (\E j \in 1..width : Pick(j)) \/ Finish
Spec == Init /\ [][Next]_vars

---------------------------------------------------------------------------
\* C01: the batch is valid
BatchOK == phase = "done" =>
             /\ Len(picked) = Min2(bs0, Cardinality(CandIds))
             /\ Distinct(picked)
             /\ Range(picked) \subseteq CandIds
NeverLabeledUnoffered ==
    \A i \in DOMAIN picked : (mode = "none" => picked[i] \notin labeled)
                             /\ (mode = "idx" => picked[i] \in S)
\* C02: the utilities agree with the selection
RowsOK == \A i \in DOMAIN rows :
            /\ Len(rows[i]) = Width
            /\ \A j \in 1..Width :
                 rows[i][j] = NaN <=> (j \notin CandIds \/ j \in Range(Prefix(picked, i - 1)))
            /\ rows[i][picked[i]] # NaN
            /\ IF kind = "max" THEN picked[i] \in ArgmaxSet(rows[i])
               ELSE rows[i][picked[i]] > 0
=============================================================================
