INIT MCInit
NEXT MCNext
CONSTANTS
  DataSets <- MCDataSets
  ParamVals <- MCParamVals
  Kinds = {"plain", "window", "strategy"}
  WindowSizes = {0, 2}
  MaxDepth = 4
  WriteBack = FALSE
  FitOnAll = FALSE
  StaleWindow = FALSE
  GenN = 1
  GenA = 1
  GenSetParams = FALSE
CHECK_DEADLOCK FALSE
INVARIANT TypeOK
INVARIANT ParamsFrameInv
INVARIANT HistoryFree
INVARIANT Window
INVARIANT WindowRestart
INVARIANT FitIgnoresUnlabeled
PROPERTY ParamsFrame
