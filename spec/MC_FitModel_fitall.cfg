INIT MCInit
NEXT MCNext
CONSTANTS
  DataSets <- MCDataSets
  ParamVals <- MCParamVals
  Kinds = {"plain"}
  WindowSizes = {0}
  MaxDepth = 2
  WriteBack = FALSE
  FitOnAll = TRUE
  StaleWindow = FALSE
  GenN = 1
  GenA = 1
  GenSetParams = FALSE
CHECK_DEADLOCK FALSE
INVARIANT FitIgnoresUnlabeled
