---------------------------- MODULE CognitiveTrace ----------------------------
(* Batch validation of recorded CognitiveDualQueryStrategy* histories        *)
(* (force_full_budget TRUE and FALSE - T.full -, integer features, stub       *)
(* classifier, explicit manager in the exact regime) against CognitiveQS.    *)
(* The clause names of the force_full_budget = FALSE update carry the        *)
(* configuration class computed here (is a density-filtered candidate        *)
(* followed by a queried one?) so that the recorded finding suppresses that  *)
(* class only.                                                               *)
EXTENDS CognitiveQS, Json, IOUtils, TLCExt

Traces == JsonDeserialize(IOEnv.TRACE_FILE)
VARIABLES c, cm, last, tid, l
tvars == <<c, cm, last, tid, l>>
ASSUME \A t \in 1..Len(Traces) : TLCSet(t, 0)

T  == Traces[tid]
P  == T.P
Ev == T.events[l]
C(name, cond) == Chk(tid, l, name, cond)
IsEvent(e) == /\ l <= Len(T.events) /\ Ev.ev = e /\ l' = l + 1 /\ tid' = tid
NoLast == [valid |-> FALSE, xs |-> <<>>, us |-> <<>>, res |-> <<>>]

TInit == /\ tid \in 1..Len(Traces) /\ l = 1
         /\ c = InitC /\ cm = InitState(Traces[tid].P) /\ last = NoLast

WinOf(s) == [cw |-> s.cw, md |-> s.md, th |-> s.th, tx |-> s.tx, t |-> s.t]
MgrOf(s) == [u |-> s.u, th |-> s.th, t |-> s.t, cnt |-> s.cnt, obs |-> s.obs, qd |-> s.qd,
             hist |-> s.hist, pos |-> s.pos]
InSeq(x, s) == \E k \in DOMAIN s : s[k] = x
Indices(dec) == LET S == {i \in DOMAIN dec : dec[i]} IN
                [k \in 1..Cardinality(S) |-> CHOOSE i \in S : Cardinality({j \in S : j < i}) = k - 1]

TQuery ==
    /\ IsEvent("Query")
    /\ LET wants == [i \in DOMAIN Ev.xs |-> InSeq(i, Ev.res)]
           decs == CQFold(P, T.cws, T.thr, c, cm, Ev.xs, Ev.us, T.rnd, wants, 1)
       IN /\ C("utilities-one-per-candidate", Ev.nutil = Len(Ev.xs))
          /\ C("result-equals-simulation", Ev.res \in {Indices(d) : d \in decs})
          /\ C("query-leaves-window-unchanged", WinOf(Ev.st.win) = c)
          /\ C("query-leaves-manager-unchanged", MgrOf(Ev.st.mgr) = cm)
          /\ C("repeated-query-same-result",
                (last.valid /\ last.xs = Ev.xs /\ last.us = Ev.us) => last.res = Ev.res)
          /\ last' = [valid |-> TRUE, xs |-> Ev.xs, us |-> Ev.us, res |-> Ev.res]
    /\ UNCHANGED <<c, cm>>

TUpdateFull ==
    /\ IsEvent("Update") /\ T.full
    /\ LET qs == [i \in DOMAIN Ev.xs |-> InSeq(i, Ev.q)]
           new == CommitFold(P, cm, qs, Ev.us, T.rnd, cm.u, 1)
       IN /\ C("window-after-update", WinOf(Ev.st.win) \in CWFold(T.cws, c, Ev.xs, 1))
          /\ C("manager-after-update-equals-per-instance-commit", MgrOf(Ev.st.mgr) = new)
          /\ c' = WinOf(Ev.st.win) /\ cm' = new
    /\ last' = NoLast

\* force_full_budget = FALSE: the manager commits the candidates that passed the density threshold only
FilterOutcomes(qs) ==
    {[c |-> r.c, pass |-> r.pass,
      m |-> CommitFold(P, cm, SelSeq(qs, r.pass), SelSeq(Ev.us, r.pass), T.rnd, cm.u, 1)]
     : r \in CWPFold(T.cws, T.thr, c, Ev.xs, 1)}
TUpdateFilter ==
    /\ IsEvent("Update") /\ ~T.full
    /\ LET qs == [i \in DOMAIN Ev.xs |-> InSeq(i, Ev.q)]
           outs == FilterOutcomes(qs)
           fbq == \E o \in outs : FilteredBeforeQueried(o.pass, qs)
           okw == {o \in outs : o.c = WinOf(Ev.st.win)}
           ok == {o \in okw : o.m = MgrOf(Ev.st.mgr)}
       IN /\ C("window-after-update", okw # {})
          /\ C("manager-commits-the-passing-candidates[filtered-candidate-before-a-queried-one]", ok # {} \/ ~fbq)
          /\ C("manager-commits-the-passing-candidates", ok # {} \/ fbq)
          /\ c' = WinOf(Ev.st.win) /\ cm' = MgrOf(Ev.st.mgr)
    /\ last' = NoLast
\* an update that raises is never a step of the specification; the clause names the configuration class
TUpdateRaised ==
    /\ IsEvent("UpdateRaised") /\ ~T.full
    /\ LET qs == [i \in DOMAIN Ev.xs |-> InSeq(i, Ev.q)]
           fbq == \E r \in CWPFold(T.cws, T.thr, c, Ev.xs, 1) : FilteredBeforeQueried(r.pass, qs)
       IN /\ C("update-must-not-raise[filtered-candidate-before-a-queried-one]", ~fbq)
          /\ C("update-must-not-raise", fbq)
          /\ FALSE
    /\ UNCHANGED <<c, cm, last>>

TNext == TQuery \/ TUpdateFull \/ TUpdateFilter \/ TUpdateRaised
TSpec == TInit /\ [][TNext]_tvars
Progress == TLCSet(tid, IF TLCGet(tid) < l THEN l ELSE TLCGet(tid))
Post == /\ PrintT(<<"VALIDATED", Len(Traces)>>)
        /\ \A t \in 1..Len(Traces) :
             IF TLCGet(t) = Len(Traces[t].events) + 1 THEN TRUE
             ELSE PrintT(<<"REJECT", t, TLCGet(t)>>)
=============================================================================
