-------------------------------- MODULE DetGen --------------------------------
(* Generator of schedules for C06: sequences over calls on twin A / twin B  *)
(* and actions on numpy's global generator (reseed with one of two values,  *)
(* draw); every initial state is one schedule with at least two calls.      *)
EXTENDS Integers, Sequences, FiniteSets, TLC, Json
CONSTANTS L
VARIABLES sched
Acts == {"A", "B", "seed1", "seed2", "draw"}
Init == /\ \E k \in 2..L : sched \in [1..k -> Acts]
        /\ Cardinality({i \in DOMAIN sched : sched[i] \in {"A", "B"}}) >= 2
        /\ sched[Len(sched)] \in {"A", "B"}
Next == UNCHANGED sched
Spec == Init /\ [][Next]_sched
GenCase == PrintT(ToJson([sched |-> sched])) /\ FALSE
=============================================================================
