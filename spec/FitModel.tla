------------------------------ MODULE FitModel ------------------------------
(***************************************************************************)
(* Abstract state of ONE estimator / strategy object of scikit-activeml    *)
(* and what its public calls may do to it (C12, C13).                      *)
(*                                                                         *)
(* A sample is <<id, labs, ws>>: labs[a] is the label annotator a gave     *)
(* (Missing = no label), ws[a] its weight; single-annotator learners have  *)
(* one annotator.  A data set is a sequence of samples (row order kept).   *)
(*                                                                         *)
(* The fitted model is abstracted to what it must be a function of: the    *)
(* sequence of training calls since the last fit, each reduced to the BAG  *)
(* of labeled entries <<id, annotator, label, weight>> handed to the       *)
(* learner plus the hyper-parameters in force (a symbolic default such as  *)
(* gamma='mean' / None is resolved from the rows of *that* call).          *)
(*                                                                         *)
(* One action per public call:                                             *)
(*   Fit(D)        classifier/_wrapper.py:276-318, regressor/_wrapper.py:  *)
(*                 121-160, _parzen_window_classifier.py:114-184,          *)
(*                 _nic_kernel_regressor.py:69-126                         *)
(*   PartialFit(D) classifier/_wrapper.py:123-158 (learner's partial_fit), *)
(*                 :470-534 (sliding window: append to deque, refit)       *)
(*   Predict       predict / predict_proba / predict_freq                  *)
(*   Query, Update stream strategies and budget managers                   *)
(*   SetParams     BaseEstimator.set_params (new values, new caller dicts) *)
(*   Fresh         sklearn.base.clone (a new unfitted object)              *)
(*                                                                         *)
(* Code-shaped deviations (all FALSE in the reference):                    *)
(*   WriteBack   the resolved default is stored in the constructor         *)
(*               parameter / the caller's dict (metric_dict_ aliases       *)
(*               metric_dict, _parzen_window_classifier.py:153-168;        *)
(*               _nic_kernel_regressor.py:121;                             *)
(*               _stream_probabilistic_al.py:172-173)                      *)
(*   FitOnAll    unlabeled rows reach the learner                          *)
(*   StaleWindow fit() does not restart the sliding window                 *)
(***************************************************************************)
EXTENDS Common

CONSTANTS DataSets,      \* data sets the calls may be given
          ParamVals,     \* parameter settings <<value, isSymbolic>> of the constructor
          Kinds,         \* subset of {"plain", "window", "strategy"}
          WindowSizes,   \* window sizes explored for kind "window" (0 = unbounded)
          MaxDepth,      \* number of calls per behaviour explored by the model checker
          WriteBack, FitOnAll, StaleWindow

VARIABLES kind, wsize, onlyLab,   \* configuration of the object (fixed)
          owned,                  \* parameter passed as a caller-owned dict?
          proto, protoSym,        \* what the caller set (constructor / set_params)
          params, sym,            \* what get_params reports; holds a symbolic default?
          paramDicts, protoDicts, \* contents of the caller-owned dicts (now / as the caller set them)
          model,                  \* abstract fitted model (see above)
          given,                  \* training calls since the last fit: <<op, D>>
          window,                 \* sliding window: last wsize samples given
          fitted, clean,          \* fitted flag; no set_params since the last fit
          ustate,                 \* strategies: number of committed updates
          last, steps             \* last call [op, d]; number of calls so far

vars == <<kind, wsize, onlyLab, owned, proto, protoSym, params, sym, paramDicts, protoDicts,
          model, given, window, fitted, clean, ustate, last, steps>>

Missing == -1

---------------------------------------------------------------------------
\* data-set algebra
IsLabeledSample(s) == \E a \in DOMAIN s[2] : s[2][a] # Missing
EntryAt(D, i, a)   == <<D[i][1], a, D[i][2][a], D[i][3][a]>>
Positions(D)       == {<<i, a>> : i \in DOMAIN D, a \in 1..(IF D = <<>> THEN 0 ELSE Len(D[1][2]))}
KeptPositions(D)   == {p \in Positions(D) : FitOnAll \/ D[p[1]][2][p[2]] # Missing}
\* the bag of entries the learner is trained on (Labeled(D) in the reference)
TrainBag(D) ==
    LET es == {EntryAt(D, p[1], p[2]) : p \in KeptPositions(D)}
    IN  [e \in es |-> Cardinality({p \in KeptPositions(D) : EntryAt(D, p[1], p[2]) = e})]
Labeled(D) ==
    LET ps == {p \in Positions(D) : D[p[1]][2][p[2]] # Missing}
        es == {EntryAt(D, p[1], p[2]) : p \in ps}
    IN  [e \in es |-> Cardinality({p \in ps : EntryAt(D, p[1], p[2]) = e})]
\* what a data-dependent default may depend on: all rows and the label mask
Shape(D) == [i \in DOMAIN D |-> <<D[i][1], IsLabeledSample(D[i])>>]
\* the hyper-parameters a training call works with: the parameters themselves,
\* or - for a symbolic default - what is resolved from the rows of the call.
\* (Under the WriteBack deviation a stored <<"resolved", shape>> *is* the value
\* resolved from that earlier shape.)
SymbolicDefault == <<"mean">>
Hyper(p, s, D) ==
    IF s THEN [fixed |-> <<>>, res |-> <<p, Shape(D)>>]
    ELSE IF WriteBack /\ Len(p) = 2 /\ p[1] = "resolved"
         THEN [fixed |-> <<>>, res |-> <<SymbolicDefault, p[2]>>]
         ELSE [fixed |-> p, res |-> <<>>]

Flatten(calls) ==
    LET RECURSIVE F(_)
        F(c) == IF c = <<>> THEN <<>> ELSE Head(c)[2] \o F(Tail(c))
    IN  F(calls)
LastN(s, n) == IF n = 0 \/ Len(s) <= n THEN s ELSE SubSeq(s, Len(s) - n + 1, Len(s))
Filter(D)   == IF onlyLab THEN SelectSeq(D, IsLabeledSample) ELSE D

Entry(op, p, s, D) == [op |-> op, bag |-> TrainBag(D), hyper |-> Hyper(p, s, D)]

\* the calls that, made on a fresh clone, must give the same model
RefCallsOf(k, g, w) == IF k = "window" THEN << <<"Fit", w>> >> ELSE g
RefCalls == RefCallsOf(kind, given, window)
FreshModel(p, s, calls) == [i \in DOMAIN calls |-> Entry(calls[i][1], p, s, calls[i][2])]

---------------------------------------------------------------------------
Resolved(D) == <<"resolved", Shape(D)>>
\* design level: the caller-owned dict holds the parameter value
DictOf(own, p) == IF own THEN <<p>> ELSE <<>>

InitWith(k, w, ol, own, p, s, pd) ==
    /\ kind = k /\ wsize = w /\ onlyLab = ol /\ owned = own
    /\ proto = p /\ protoSym = s /\ params = p /\ sym = s
    /\ paramDicts = pd /\ protoDicts = pd
    /\ model = <<>> /\ given = <<>> /\ window = <<>>
    /\ fitted = FALSE /\ clean = TRUE /\ ustate = 0
    /\ last = [op |-> "Init", d |-> <<>>] /\ steps = 0

Init == \E k \in Kinds, pv \in ParamVals, own \in BOOLEAN :
          \E w \in (IF k = "window" THEN WindowSizes ELSE {0}),
             ol \in (IF k = "window" THEN BOOLEAN ELSE {FALSE}) :
               InitWith(k, w, ol, own, pv[1], pv[2], DictOf(own, pv[1]))


\* a resolved default that is written back (deviation only)
ParamsAfterResolve(D) ==
    IF WriteBack /\ sym
    THEN /\ params' = Resolved(D) /\ sym' = FALSE
         /\ paramDicts' = DictOf(owned, Resolved(D))
    ELSE UNCHANGED <<params, sym, paramDicts>>

Call(op, D) == /\ steps < MaxDepth /\ steps' = steps + 1
               /\ last' = [op |-> op, d |-> D]
               /\ UNCHANGED <<kind, wsize, onlyLab, owned>>

Fit(D) ==
    /\ kind # "strategy" /\ Call("Fit", D)
    /\ given' = IF StaleWindow /\ kind = "window"
                THEN Append(given, <<"Fit", Filter(D)>>)
                ELSE << <<"Fit", Filter(D)>> >>
    /\ window' = IF kind = "window" THEN LastN(Flatten(given'), wsize) ELSE <<>>
    /\ model' = << Entry("Fit", params, sym, IF kind = "window" THEN window' ELSE D) >>
    /\ ParamsAfterResolve(IF kind = "window" THEN window' ELSE D)
    /\ fitted' = TRUE /\ clean' = TRUE
    /\ UNCHANGED <<proto, protoSym, protoDicts, ustate>>

PartialFit(D) ==
    /\ kind # "strategy" /\ Call("PartialFit", D)
    /\ given' = Append(given, <<"PartialFit", Filter(D)>>)
    /\ window' = IF kind = "window" THEN LastN(Flatten(given'), wsize) ELSE <<>>
    /\ model' = IF kind = "window"
                THEN << Entry("Fit", params, sym, window') >>
                ELSE Append(model, Entry("PartialFit", params, sym, D))
    /\ ParamsAfterResolve(IF kind = "window" THEN window' ELSE D)
    /\ fitted' = TRUE
    /\ UNCHANGED <<proto, protoSym, protoDicts, clean, ustate>>

Predict ==
    /\ kind # "strategy" /\ fitted /\ Call("Predict", <<>>)
    /\ UNCHANGED <<proto, protoSym, protoDicts, params, sym, paramDicts, model, given, window,
                   fitted, clean, ustate>>

\* query of a stream strategy / query_by_utility of a budget manager; D are
\* the rows the strategy may resolve a default from
Query(D) ==
    /\ kind = "strategy" /\ Call("Query", D)
    /\ ParamsAfterResolve(D)
    /\ UNCHANGED <<proto, protoSym, protoDicts, model, given, window, fitted, clean, ustate>>

Update ==
    /\ kind = "strategy" /\ last.op \in {"Query", "Update"} /\ Call("Update", <<>>)
    /\ ustate' = ustate + 1
    /\ UNCHANGED <<proto, protoSym, protoDicts, params, sym, paramDicts, model, given, window,
                   fitted, clean>>

SetParams(p, s, pd) ==
    /\ Call("SetParams", <<>>)
    /\ proto' = p /\ protoSym' = s /\ params' = p /\ sym' = s
    /\ paramDicts' = pd /\ protoDicts' = pd
    /\ clean' = FALSE
    /\ UNCHANGED <<model, given, window, fitted, ustate>>

\* sklearn.base.clone: a new unfitted object with the constructor parameters
Fresh ==
    /\ Call("Fresh", <<>>)
    /\ params' = proto /\ sym' = protoSym
    /\ paramDicts' = protoDicts
    /\ model' = <<>> /\ given' = <<>> /\ window' = <<>>
    /\ fitted' = FALSE /\ clean' = TRUE /\ ustate' = 0
    /\ UNCHANGED <<proto, protoSym, protoDicts>>

Next == \/ \E D \in DataSets : Fit(D) \/ PartialFit(D) \/ Query(D)
        \/ Predict \/ Update \/ Fresh
        \/ \E pv \in ParamVals : SetParams(pv[1], pv[2], DictOf(owned, pv[1]))

Spec == Init /\ [][Next]_vars

---------------------------------------------------------------------------
\* Properties
TypeOK == /\ kind \in {"plain", "window", "strategy"}
          /\ fitted \in BOOLEAN /\ clean \in BOOLEAN /\ sym \in BOOLEAN
          /\ (kind # "window" => window = <<>>)

\* C13: nothing but the constructor / set_params changes what get_params
\* reports or the contents of the caller's dicts
ParamsFrameInv == /\ params = proto /\ sym = protoSym
                  /\ paramDicts = protoDicts
ParamsFrame == [][last'.op \notin {"SetParams", "Fresh"} => UNCHANGED <<params, paramDicts>>]_vars

\* C13: the model after any history equals the model of a fresh clone on which
\* only the training calls since the last fit are made (for a sliding window:
\* one fit on the window)
HistoryFree == (fitted /\ clean) => model = FreshModel(proto, protoSym, RefCalls)

\* C13: the sliding window holds exactly the last wsize samples it was given
\* since the last fit
Window == kind = "window" =>
            /\ window = LastN(Flatten(given), wsize)
            /\ (given # <<>> => given[1][1] = "Fit" \/ \A i \in DOMAIN given : given[i][1] = "PartialFit")
            /\ (wsize > 0 => Len(window) <= wsize)
WindowRestart == (kind = "window" /\ last.op = "Fit") => window = LastN(Filter(last.d), wsize)

\* C12: a fit depends on its data set only through the labeled part (for
\* parameters that are not resolved from the data)
FitIgnoresUnlabeled ==
    (kind = "plain" /\ last.op = "Fit" /\ ~protoSym /\ clean) =>
        \A E \in DataSets :
            Labeled(E) = Labeled(last.d) =>
                model = FreshModel(proto, protoSym, << <<"Fit", E>> >>)
=============================================================================
