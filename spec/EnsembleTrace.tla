---------------------------- MODULE EnsembleTrace ----------------------------
(* Batch validation of recorded fit / predict_proba / predict calls of      *)
(* AnnotatorEnsembleClassifier against Ensemble.tla.  The harness builds    *)
(* the ensemble from memorising members (ParzenWindowClassifier with a      *)
(* narrow kernel and a vanishing prior on class 0, training points far      *)
(* apart) and queries the training points, so every output is PREDICTED by  *)
(* the specification from the label matrix alone: Fit binds y, the counts   *)
(* NMem * predict_proba and the decisions must be the ones the actions      *)
(* compute (decisions up to ties).  `ref` are the votes of fresh member     *)
(* classifiers fitted by the harness on their own annotator column - they   *)
(* tie the memorising abstraction to the real members.                      *)
EXTENDS Ensemble, Json, IOUtils, TLCExt
Traces == JsonDeserialize(IOEnv.TRACE_FILE)
VARIABLES tid, l
tvars == <<vars, tid, l>>
ASSUME \A t \in 1..Len(Traces) : TLCSet(t, 0)
T  == Traces[tid]
Ev == T.events[l]
C(name, cond) == Chk(tid, l, name, cond)
IsEvent(e) == /\ l <= Len(T.events) /\ Ev.ev = e /\ l' = l + 1 /\ tid' = tid
TInit == tid \in 1..Len(Traces) /\ l = 1 /\ Init

AsLab(m) == [j \in Pts |-> [i \in Mem |-> m[j][i]]]
TFit == /\ IsEvent("Fit") /\ Fit(AsLab(Ev.y))
        /\ C("members-answer-their-own-annotators-labels",
             \A i \in Mem, j \in Pts : Ev.ref[i][j] = mvote'[i][j])
TProba == /\ IsEvent("Proba") /\ PredictProba
          /\ C("probability-is-the-share-of-member-votes",
               \A j \in Pts : \A c \in Classes : Ev.cnt[j][c + 1] = count'[j][c])
TPredict == /\ IsEvent("Predict")
            /\ C("decision-has-maximal-share", \A j \in Pts : Ev.pred[j] \in Best(count, j))
            /\ Predict /\ pred' = [j \in Pts |-> Ev.pred[j]]
TNext == TFit \/ TProba \/ TPredict
TSpec == TInit /\ [][TNext]_tvars
Progress == TLCSet(tid, IF TLCGet(tid) < l THEN l ELSE TLCGet(tid))
Post == /\ PrintT(<<"VALIDATED", Len(Traces)>>)
        /\ \A t \in 1..Len(Traces) :
             IF TLCGet(t) = Len(Traces[t].events) + 1 THEN TRUE
             ELSE PrintT(<<"REJECT", t, TLCGet(t)>>)
=============================================================================
