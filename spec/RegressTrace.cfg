SPECIFICATION TSpec
CONSTANTS
  ObsVals = {}
  DigVals = {}
CONSTRAINT Progress
INVARIANT RowChosen
INVARIANT Coherent
INVARIANT StdFinite
INVARIANT Fallback
INVARIANT SampleShape
INVARIANT RaiseOnlyOutside
POSTCONDITION Post
CHECK_DEADLOCK FALSE
