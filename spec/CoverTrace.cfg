SPECIFICATION TSpec
CONSTANTS
  MaxN = 0
  Coords = {}
  Deltas = {}
  MaxBS = 0
  ForgetCover = FALSE
CONSTRAINT Progress
POSTCONDITION Post
CHECK_DEADLOCK FALSE
