SPECIFICATION Spec
CONSTANTS
  MaxR = 2
  MaxC = 2
  Vals <- MCVals
CONSTRAINT GenCase
CHECK_DEADLOCK FALSE
