SPECIFICATION Spec
CONSTANTS
  MaxN = 4
  Vals <- MCVals
  Unsorted = TRUE
INVARIANT SubsampleSize
INVARIANT Transparent
CHECK_DEADLOCK FALSE
