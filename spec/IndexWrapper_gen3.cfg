SPECIFICATION GenSpec
CONSTANTS
  Labels <- MCLabels
  Weights <- MCWeights
  Cfgs <- MCCfgs
  Args <- MCArgs
  PreArgs <- MCPreArgs
  Record = TRUE
  MCN = 3
  MaxLen = 2
  Alphabet = "tiny"
  Prefits = {"none"}
  CfgSel = "core"
  Sample = 0
  Depth = 3
CHECK_DEADLOCK FALSE
