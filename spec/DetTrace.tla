------------------------------- MODULE DetTrace -------------------------------
(***************************************************************************)
(* Batch validation for C06: a trace is one schedule of calls on the twins *)
(* interleaved with actions on numpy's global generator, as executed by    *)
(* harness/drivers/c06.py.  Call events carry the key (argument id, own    *)
(* history index) and the id of the digest of the complete result; Global  *)
(* events only record what was done to np.random.  The memo clause is      *)
(* Determinism!Reproducible.                                               *)
(***************************************************************************)
EXTENDS Common, Json, IOUtils, TLCExt

Traces == JsonDeserialize(IOEnv.TRACE_FILE)
VARIABLES memo, tid, l
tvars == <<memo, tid, l>>
ASSUME \A t \in 1..Len(Traces) : TLCSet(t, 0)

T  == Traces[tid]
Ev == T.events[l]
C(name, cond) == Chk(tid, l, name, cond)
IsEvent(e) == /\ l <= Len(T.events) /\ Ev.ev = e /\ l' = l + 1 /\ tid' = tid

TInit == /\ tid \in 1..Len(Traces) /\ l = 1 /\ memo = <<>>

TGlobal == IsEvent("Global") /\ UNCHANGED memo

Lookup(k) == {memo[i][2] : i \in {j \in DOMAIN memo : memo[j][1] = k}}
TCall == /\ IsEvent("Call")
         /\ C("same-parameters-arguments-history-same-result",
               Lookup(Ev.key) = {} \/ Lookup(Ev.key) = {Ev.res})
         /\ memo' = Append(memo, <<Ev.key, Ev.res>>)

TNext == TGlobal \/ TCall
TSpec == TInit /\ [][TNext]_tvars

Progress == TLCSet(tid, IF TLCGet(tid) < l THEN l ELSE TLCGet(tid))
Post == /\ PrintT(<<"VALIDATED", Len(Traces)>>)
        /\ \A t \in 1..Len(Traces) :
             IF TLCGet(t) = Len(Traces[t].events) + 1 THEN TRUE
             ELSE PrintT(<<"REJECT", t, TLCGet(t)>>)
=============================================================================
