SPECIFICATION TSpec
CONSTANTS
  MaxS = 0
  MaxA = 0
  RankAny = FALSE
CONSTRAINT Progress
POSTCONDITION Post
CHECK_DEADLOCK FALSE
