------------------------------ MODULE FrameTrace ------------------------------
(***************************************************************************)
(* Batch validation of recorded pool-query histories against Frame.        *)
(* Events (harness/drivers/c05.py):                                        *)
(*   Query   pre/post ids of every caller-owned array, of the model        *)
(*           argument and of the strategy's get_params(deep=True)          *)
(*   Pickle  pickle.dumps(strategy) after the history succeeded or not     *)
(*   Clone   a clone of the used strategy and a fresh strategy with the    *)
(*           original parameters were queried on the same input            *)
(***************************************************************************)
EXTENDS Frame, Json, IOUtils, TLCExt, Common

Traces == JsonDeserialize(IOEnv.TRACE_FILE)
VARIABLES tid, l
tvars == <<vars, tid, l>>
ASSUME \A t \in 1..Len(Traces) : TLCSet(t, 0)

T  == Traces[tid]
Ev == T.events[l]
C(name, cond) == Chk(tid, l, name, cond)
IsEvent(e) == /\ l <= Len(T.events) /\ Ev.ev = e /\ l' = l + 1 /\ tid' = tid

TInit == /\ tid \in 1..Len(Traces) /\ l = 1
         /\ data = 0 /\ model = 0 /\ results = <<>>
         /\ params = Traces[tid].params0

\* the caller prepares the arguments of the next call (not a strategy step)
TArgs == /\ IsEvent("Args")
         /\ data' = Ev.data /\ model' = Ev.model
         /\ UNCHANGED <<params, results>>

TQuery == /\ IsEvent("Query")
          /\ C("params-before-call-are-the-constructor-params", Ev.pre.params = params)
          /\ C("X-unchanged", Ev.post.X = Ev.pre.X)
          /\ C("y-unchanged", Ev.post.y = Ev.pre.y)
          /\ C("candidates-unchanged", Ev.post.cand = Ev.pre.cand)
          /\ C("sample_weight-unchanged", Ev.post.sw = Ev.pre.sw)
          /\ C("utility_weight-unchanged", Ev.post.uw = Ev.pre.uw)
          /\ C("model-argument-unchanged", Ev.post.model = Ev.pre.model)
          /\ C("get_params-unchanged", Ev.post.params = Ev.pre.params)
          /\ Query(Ev.res)

TPickle == /\ IsEvent("Pickle")
           /\ C("strategy-can-be-pickled", Ev.ok)
           /\ UNCHANGED vars

TClone == /\ IsEvent("Clone")
          /\ C("clone-can-be-constructed", Ev.ok)
          /\ C("clone-behaves-like-the-original", Ev.clone_res = Ev.fresh_res)
          /\ UNCHANGED vars

TNext == TArgs \/ TQuery \/ TPickle \/ TClone
TSpec == TInit /\ [][TNext]_tvars

Progress == TLCSet(tid, IF TLCGet(tid) < l THEN l ELSE TLCGet(tid))
Post == /\ PrintT(<<"VALIDATED", Len(Traces)>>)
        /\ \A t \in 1..Len(Traces) :
             IF TLCGet(t) = Len(Traces[t].events) + 1 THEN TRUE
             ELSE PrintT(<<"REJECT", t, TLCGet(t)>>)
=============================================================================
