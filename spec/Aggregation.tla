----------------------------- MODULE Aggregation -----------------------------
(***************************************************************************)
(* skactiveml/utils/_aggregation.py  compute_vote_vectors, majority_vote   *)
(* skactiveml/utils/_multi_annot.py  ext_confusion_matrix                  *)
(*                                                                         *)
(* Abstract state: a label matrix y (N samples x A annotators, a sequence  *)
(* of rows) over the classes 0..K-1 and Missing (= -1), a weight matrix w  *)
(* of the same shape over small non-negative integers, the true labels     *)
(* ytrue (never missing).  With explicit = TRUE the functions are given    *)
(* classes = [0..K-1]; otherwise the classes are the sorted distinct       *)
(* labels that occur.  One action per public call:                         *)
(*   VoteVectors   _aggregation.py:9-72   (VoteRaise: no class inferable)  *)
(*   MajorityVote  _aggregation.py:75-138 (any class with maximal vote)    *)
(*   Confusion(n)  _multi_annot.py:13-109 for normalize = n                *)
(* Rationals are pairs <<num, den>> (Common); the pair Free = <<0, 0>>     *)
(* marks an entry of a normalised confusion matrix whose normaliser is 0:  *)
(* the docstring of ext_confusion_matrix does not say what 0/0 becomes.    *)
(***************************************************************************)
EXTENDS Common

CONSTANTS MaxK,      \* largest number of classes
          VoteShapes,\* sets of <<N, A>> pairs explored by the model checker for
          ConfShapes,\*   the "vote" resp. "conf" family of calls
          Weights    \* weight domain (small non-negative integers)

Missing == -1
Free == <<0, 0>>
Norms == {"none", "true", "pred", "all"}

VARIABLES y, w, ytrue, K, explicit,
          mode,      \* "vote" | "conf": which family of calls is explored
          phase,     \* "start" | "voted" | "raised" | "aggregated" | "confused"
          votes,     \* result of compute_vote_vectors (N x #classes integers)
          maj,       \* result of majority_vote (N labels)
          cnorm,     \* normalize argument of the last ext_confusion_matrix
          conf       \* its result: A x #classes x #classes rationals / Free

vars == <<y, w, ytrue, K, explicit, mode, phase, votes, maj, cnorm, conf>>

N == Len(y)
A == Len(y[1])
LabelVals(k) == (0..(k - 1)) \cup {Missing}

RECURSIVE SortedSeq(_)
SortedSeq(S) == IF S = {} THEN <<>>
                ELSE LET m == CHOOSE x \in S : \A z \in S : x <= z
                     IN <<m>> \o SortedSeq(S \ {m})

LabelsIn(m) == {m[i][a] : i \in 1..Len(m), a \in 1..Len(m[1])} \ {Missing}
HasLabel(i) == \E a \in 1..A : y[i][a] # Missing

\* classes_ of the encoder inside compute_vote_vectors / majority_vote ...
VoteClasses == IF explicit THEN [c \in 1..K |-> c - 1] ELSE SortedSeq(LabelsIn(y))
\* ... and inside ext_confusion_matrix (fitted on y_true and y_pred together)
ConfClasses == IF explicit THEN [c \in 1..K |-> c - 1]
               ELSE SortedSeq(LabelsIn(y) \cup Range(ytrue))

\* V[i][c] = sum of the weights of the annotators that voted for class c
VotesOf(cls) == [i \in 1..N |-> [c \in 1..Len(cls) |->
                    SumSeq([a \in 1..A |-> IF y[i][a] = cls[c] THEN w[i][a] ELSE 0])]]

\* admissible results of majority_vote: a class with maximal vote for every
\* sample with a label (ties may be broken either way), Missing otherwise
MajorityAllowed(m) ==
    LET cls == VoteClasses
        v == VotesOf(cls)
    IN /\ DOMAIN m = 1..N
       /\ \A i \in 1..N :
            IF HasLabel(i) THEN \E c \in ArgmaxSet(v[i]) : m[i] = cls[c]
            ELSE m[i] = Missing

\* confusion counts of annotator a: non-missing labels against the true labels
Count(cls, a, t, p) == Cardinality({i \in 1..N : /\ y[i][a] # Missing
                                                  /\ ytrue[i] = cls[t]
                                                  /\ y[i][a] = cls[p]})
Ratio(n, d) == IF d = 0 THEN Free ELSE RatNorm(<<n, d>>)
ConfOf(cls, norm) ==
    LET Kc == Len(cls)
        row(a, t) == SumSeq([p \in 1..Kc |-> Count(cls, a, t, p)])
        col(a, p) == SumSeq([t \in 1..Kc |-> Count(cls, a, t, p)])
        tot(a) == SumSeq([t \in 1..Kc |-> row(a, t)])
    IN [a \in 1..A |-> [t \in 1..Kc |-> [p \in 1..Kc |->
          CASE norm = "none" -> <<Count(cls, a, t, p), 1>>
            [] norm = "true" -> Ratio(Count(cls, a, t, p), row(a, t))
            [] norm = "pred" -> Ratio(Count(cls, a, t, p), col(a, p))
            [] norm = "all"  -> Ratio(Count(cls, a, t, p), tot(a))]]]

InitWith(yy, ww, yt, k, ex, md) ==
    /\ y = yy /\ w = ww /\ ytrue = yt /\ K = k /\ explicit = ex /\ mode = md
    /\ phase = "start" /\ votes = <<>> /\ maj = <<>> /\ cnorm = "none" /\ conf = <<>>

\* The weight of a missing label is irrelevant (it is canonically 1 here);
\* "vote" cases vary the weights, "conf" cases vary the true labels.
Init == \E k \in 1..MaxK, ex \in BOOLEAN :
          /\ (~ex => k = MaxK)
          /\ \/ \E sh \in VoteShapes :
                  \E yy \in [1..sh[1] -> [1..sh[2] -> LabelVals(k)]],
                     ww \in [1..sh[1] -> [1..sh[2] -> Weights]] :
                     /\ \A i \in 1..sh[1], a \in 1..sh[2] : yy[i][a] = Missing => ww[i][a] = 1
                     /\ InitWith(yy, ww, [i \in 1..sh[1] |-> 0], k, ex, "vote")
             \/ \E sh \in ConfShapes :
                  \E yy \in [1..sh[1] -> [1..sh[2] -> LabelVals(k)]],
                     yt \in [1..sh[1] -> 0..(k - 1)] :
                     InitWith(yy, [i \in 1..sh[1] |-> [a \in 1..sh[2] |-> 1]], yt, k, ex, "conf")

VoteVectors == /\ phase = "start" /\ mode = "vote"
               /\ Len(VoteClasses) > 0
               /\ votes' = VotesOf(VoteClasses)
               /\ phase' = "voted"
               /\ UNCHANGED <<y, w, ytrue, K, explicit, mode, maj, cnorm, conf>>

\* "Number of classes can not be inferred" (_aggregation.py:39-44)
VoteRaise == /\ phase = "start" /\ mode = "vote"
             /\ Len(VoteClasses) = 0
             /\ phase' = "raised"
             /\ UNCHANGED <<y, w, ytrue, K, explicit, mode, votes, maj, cnorm, conf>>

MajorityVote(m) == /\ phase \in {"start", "voted", "raised", "aggregated"} /\ mode = "vote"
                   /\ MajorityAllowed(m)
                   /\ maj' = m
                   /\ phase' = "aggregated"
                   /\ UNCHANGED <<y, w, ytrue, K, explicit, mode, votes, cnorm, conf>>

Confusion(norm) == /\ phase \in {"start", "confused"} /\ mode = "conf"
                   /\ norm \in Norms
                   /\ conf' = ConfOf(ConfClasses, norm)
                   /\ cnorm' = norm
                   /\ phase' = "confused"
                   /\ UNCHANGED <<y, w, ytrue, K, explicit, mode, votes, maj>>

Next == \/ VoteVectors \/ VoteRaise
        \/ (phase \in {"voted", "raised"} /\ \E m \in [1..N -> LabelVals(K)] : MajorityVote(m))
        \/ (phase = "start" /\ \E norm \in Norms : Confusion(norm))

Spec == Init /\ [][Next]_vars

---------------------------------------------------------------------------
\* Properties (C17): counting identities the three results must satisfy
TypeOK == /\ phase \in {"start", "voted", "raised", "aggregated", "confused"}
          /\ N >= 1 /\ A >= 1 /\ \A i \in 1..N : Len(y[i]) = A /\ Len(w[i]) = A
          /\ Len(ytrue) = N /\ Missing \notin Range(ytrue)

Voted == phase \in {"voted", "aggregated"} /\ votes # <<>>

\* every row of V sums to the weighted number of labels of that sample
VoteRowSum == Voted => \A i \in 1..N :
                 SumSeq(votes[i]) = SumSeq([a \in 1..A |-> IF y[i][a] # Missing THEN w[i][a] ELSE 0])
\* a class nobody voted for has vote 0, votes are never negative
VoteSupport == Voted => \A i \in 1..N : \A c \in 1..Len(votes[i]) :
                  /\ votes[i][c] >= 0
                  /\ (\A a \in 1..A : y[i][a] # VoteClasses[c]) => votes[i][c] = 0
\* with unit weights V[i][c] is the number of annotators that chose class c
VoteCounts == Voted /\ (\A i \in 1..N, a \in 1..A : w[i][a] = 1) =>
                 \A i \in 1..N : \A c \in 1..Len(votes[i]) :
                    votes[i][c] = Cardinality({a \in 1..A : y[i][a] = VoteClasses[c]})
\* the raise is exactly the documented situation
RaiseOnlyWithoutClasses == phase = "raised" => (~explicit /\ \A i \in 1..N : ~HasLabel(i))

\* majority vote: missing exactly for samples without a label, otherwise a
\* known class whose vote is not exceeded by any other class
MajorityOK == phase = "aggregated" =>
    LET cls == VoteClasses
        v == VotesOf(cls)
    IN \A i \in 1..N :
         /\ (maj[i] = Missing) <=> ~HasLabel(i)
         /\ HasLabel(i) => /\ maj[i] \in Range(cls)
                           /\ \A c \in 1..Len(cls) :
                                 v[i][c] <= v[i][CHOOSE d \in 1..Len(cls) : cls[d] = maj[i]]
\* a sample whose positively weighted annotators all agree gets that class
Unanimous == phase = "aggregated" =>
    \A i \in 1..N, c \in 0..(K - 1) :
       (/\ \E a \in 1..A : y[i][a] = c /\ w[i][a] > 0
        /\ \A a \in 1..A : (y[i][a] # Missing /\ w[i][a] > 0) => y[i][a] = c) => maj[i] = c

RECURSIVE RatSumSeq(_)
RatSumSeq(s) == IF s = <<>> THEN <<0, 1>> ELSE RatAdd(Head(s), RatSumSeq(Tail(s)))
\* all entries of a square matrix as one sequence
Entries(m) == LET k == Len(m) IN [j \in 1..(k * k) |-> m[((j - 1) \div k) + 1][((j - 1) % k) + 1]]
Diagonal(m) == [t \in 1..Len(m) |-> m[t][t]]
Column(m, p) == [t \in 1..Len(m) |-> m[t][p]]

Confused == phase = "confused"
Kc == Len(ConfClasses)
NLabels(a) == Cardinality({i \in 1..N : y[i][a] # Missing})

\* unnormalised: the entries of annotator a sum to its number of labels, and
\* a label that equals the true label is counted on the diagonal
ConfCounts == Confused /\ cnorm = "none" =>
    \A a \in 1..A :
       /\ RatSumSeq(Entries(conf[a])) = <<NLabels(a), 1>>
       /\ RatSumSeq(Diagonal(conf[a]))
             = <<Cardinality({i \in 1..N : y[i][a] # Missing /\ y[i][a] = ytrue[i]}), 1>>
\* normalised: every row (column, matrix) with a non-zero normaliser sums to 1
ConfNormalised == Confused =>
    \A a \in 1..A :
       /\ cnorm = "true" => \A t \in 1..Kc :
            conf[a][t][1] = Free \/ RatSumSeq(conf[a][t]) = <<1, 1>>
       /\ cnorm = "pred" => \A p \in 1..Kc :
            conf[a][1][p] = Free \/ RatSumSeq(Column(conf[a], p)) = <<1, 1>>
       /\ cnorm = "all" =>
            conf[a][1][1] = Free
            \/ RatSumSeq(Entries(conf[a])) = <<1, 1>>
\* Free appears exactly where the normaliser is zero, for a whole row /
\* column / matrix at once
ConfFree == Confused =>
    \A a \in 1..A, t \in 1..Kc, p \in 1..Kc :
       /\ cnorm = "none" => conf[a][t][p] # Free
       /\ cnorm = "true" => (conf[a][t][p] = Free <=>
                               \A i \in 1..N : y[i][a] = Missing \/ ytrue[i] # ConfClasses[t])
       /\ cnorm = "pred" => (conf[a][t][p] = Free <=> \A i \in 1..N : y[i][a] # ConfClasses[p])
       /\ cnorm = "all"  => (conf[a][t][p] = Free <=> NLabels(a) = 0)
=============================================================================
