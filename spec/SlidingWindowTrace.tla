------------------------- MODULE SlidingWindowTrace -------------------------
(* Batch validation of recorded fit / partial_fit histories of             *)
(* SlidingWindowClassifier: every call must be the step SlidingWindow.tla  *)
(* computes - the observed window (sample ids, labels, weights), whether   *)
(* the call raised, and the model: after a successful call the predictions *)
(* equal those of a fresh copy of the wrapped estimator fitted on the      *)
(* window (`ref`, computed by the harness from the observed deques, whose  *)
(* contents the window clauses tie to the specification), after a failed   *)
(* call they are still those of the previous call.                         *)
EXTENDS SlidingWindow, Json, IOUtils, TLCExt
Traces == JsonDeserialize(IOEnv.TRACE_FILE)
VARIABLES tid, l, lastpred
tvars == <<vars, tid, l, lastpred>>
ASSUME \A t \in 1..Len(Traces) : TLCSet(t, 0)
T  == Traces[tid]
Ev == T.events[l]
C(name, cond) == Chk(tid, l, name, cond)
IsEvent(e) == /\ l <= Len(T.events) /\ Ev.ev = e /\ l' = l + 1 /\ tid' = tid
TInit == /\ tid \in 1..Len(Traces) /\ l = 1 /\ lastpred = 0
         /\ wsize = Traces[tid].wsize /\ onlyLab = Traces[tid].onlyLab
         /\ win = <<>> /\ wmode = "unset" /\ mwin = <<>> /\ mmode = "unfitted"
         /\ stream = <<>> /\ nid = 1 /\ hist = <<>> /\ raised = FALSE
Observed ==
    /\ C("raises-exactly-when-weights-follow-a-call-without-weights", Ev.raised = raised')
    /\ C("window-holds-the-latest-samples", Ev.win = [i \in DOMAIN win' |-> win'[i].id])
    /\ C("window-labels", Ev.wlabs = [i \in DOMAIN win' |-> win'[i].lab])
    /\ C("weights-kept-iff-given-since", Ev.wvals = IF wmode' = "weights"
                                                      THEN [i \in DOMAIN win' |-> Weight(win'[i].id)]
                                                      ELSE <<>>)
    /\ C("weights-none-iff-forgotten", Ev.wnone = (wmode' = "none"))
    /\ C("model-is-fitted-on-the-window", (~raised') => Ev.pred = Ev.ref)
    /\ C("failed-call-keeps-the-model", raised' => Ev.pred = lastpred)
    /\ lastpred' = Ev.pred
TFit == IsEvent("Fit") /\ Fit(Ev.labs, Ev.withW) /\ Observed
TPartialFit == IsEvent("PartialFit") /\ PartialFit(Ev.labs, Ev.withW) /\ Observed
TNext == TFit \/ TPartialFit
TSpec == TInit /\ [][TNext]_tvars
Progress == TLCSet(tid, IF TLCGet(tid) < l THEN l ELSE TLCGet(tid))
Post == /\ PrintT(<<"VALIDATED", Len(Traces)>>)
        /\ \A t \in 1..Len(Traces) :
             IF TLCGet(t) = Len(Traces[t].events) + 1 THEN TRUE
             ELSE PrintT(<<"REJECT", t, TLCGet(t)>>)
=============================================================================
