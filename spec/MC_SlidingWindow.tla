--------------------------- MODULE MC_SlidingWindow ---------------------------
EXTENDS SlidingWindow, Json
GenCase == IF Len(hist) = MaxOps THEN PrintT(ToJson([ops |-> hist])) /\ FALSE ELSE TRUE
=============================================================================
