------------------------------ MODULE AnnotPerf ------------------------------
(***************************************************************************)
(* skactiveml/pool/multiannotator/_interval_estimation_threshold.py :      *)
(* IntervalEstimationAnnotModel (beyond the listed properties).  The model *)
(* estimates the labeling accuracy of every annotator by counting:         *)
(*                                                                         *)
(*   fit(X, y)                                                             *)
(*     y_mv = majority_vote(y)            (ties broken at random)          *)
(*     for every annotator a:                                              *)
(*        is_correct = [y_mv[i] = y[i, a] : samples i labeled by a]        *)
(*                     followed by the two pseudo observations 0 and 1     *)
(*        mean  = number of agreements + 1 / number of labels + 2          *)
(*        lower = mean - t, upper = mean + t   (t >= 0 from Student's t)   *)
(*   predict_annotator_perf(X): the column of A_perf_ selected by `mode`,  *)
(*     the same row for every sample                                       *)
(*                                                                         *)
(* The label matrix and the tie-breaks of the majority vote are chosen by  *)
(* the environment.  `FirstColumn` is a code-shaped deviation (every       *)
(* annotator is scored with the first annotator's labels).                 *)
(***************************************************************************)
EXTENDS Common

CONSTANTS NAnn, NCls, NSmp, FirstColumn

M == -1
Classes == 0..(NCls - 1)
Ann == 1..NAnn
Smp == 1..NSmp

VARIABLES y,      \* [Smp -> [Ann -> Classes \cup {M}]]
          mv,     \* [Smp -> Classes \cup {M}] the majority vote used by the last fit
          perf,   \* [Ann -> <<agreements + 1, labels + 2>>] the mean accuracy as a fraction (not normalised)
          phase
vars == <<y, mv, perf, phase>>

Votes(lab, i, c) == Cardinality({a \in Ann : lab[i][a] = c})
Majorities(lab, i) == IF \A a \in Ann : lab[i][a] = M THEN {M}
                      ELSE {c \in Classes : \A d \in Classes : Votes(lab, i, d) <= Votes(lab, i, c)}
Col(a) == IF FirstColumn THEN 1 ELSE a
Labeled(lab, a) == {i \in Smp : lab[i][a] # M}
Agree(lab, m, a) == Cardinality({i \in Labeled(lab, a) : m[i] = lab[i][Col(a)]})

Init == /\ y = [i \in Smp |-> [a \in Ann |-> M]] /\ mv = [i \in Smp |-> M]
        /\ perf = [a \in Ann |-> <<1, 2>>] /\ phase = "new"

Fit(lab, m) == /\ \A i \in Smp : m[i] \in Majorities(lab, i)
               /\ y' = lab /\ mv' = m
               /\ perf' = [a \in Ann |-> <<Agree(lab, m, a) + 1, Cardinality(Labeled(lab, a)) + 2>>]
               /\ phase' = "fitted"

Next == \E lab \in [Smp -> [Ann -> Classes \cup {M}]] : \E m \in [Smp -> Classes \cup {M}] : Fit(lab, m)
Spec == Init /\ [][Next]_vars

\* ---- properties ----------------------------------------------------------
\* the smoothed accuracy lies strictly between 0 and 1
InsideUnit == \A a \in Ann : 0 < perf[a][1] /\ perf[a][1] < perf[a][2]
\* an annotator without labels is scored 1/2
NoLabelHalf == phase = "fitted" => \A a \in Ann : Labeled(y, a) = {} => perf[a] = <<1, 2>>
\* an annotator is scored with its OWN labels: agreeing with the vote on all of its n labels gives (n+1)/(n+2)
OwnLabels == phase = "fitted" =>
    \A a \in Ann : (\A i \in Labeled(y, a) : y[i][a] = mv[i]) => perf[a][1] = perf[a][2] - 1
\* the vote is one of the given labels, so on every labeled sample some annotator agrees with it
SomeoneAgrees == phase = "fitted" =>
    \A i \in Smp : mv[i] # M => \E a \in Ann : y[i][a] = mv[i]
=============================================================================
