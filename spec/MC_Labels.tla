------------------------------ MODULE MC_Labels ------------------------------
EXTENDS Labels, Json
\* generator mode (Labels_gen*.cfg): every initial state is printed as one
\* JSON case and not explored further
GenCase == PrintT(ToJson([y |-> y, K |-> K, explicit |-> explicit])) /\ FALSE
=============================================================================
