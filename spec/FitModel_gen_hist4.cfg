INIT HistInit
NEXT HistNext
CONSTANTS
  DataSets <- MCDataSets
  ParamVals <- MCParamVals1
  Kinds = {"plain", "window", "strategy"}
  WindowSizes = {2}
  MaxDepth = 4
  WriteBack = FALSE
  FitOnAll = FALSE
  StaleWindow = FALSE
  GenN = 1
  GenA = 1
  GenSetParams = TRUE
CHECK_DEADLOCK FALSE
CONSTRAINT GenHist
