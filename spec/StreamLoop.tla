------------------------------ MODULE StreamLoop ------------------------------
(***************************************************************************)
(* The stream active-learning cycle as the documentation runs it (one      *)
(* instance at a time), composed from the budget layer (Budget.tla) and    *)
(* the training window of SlidingWindowClassifier:                         *)
(*                                                                         *)
(*   sampled, utilities = qs.query(candidates=x, return_utilities=True)    *)
(*   qs.update(candidates=x, queried_indices=sampled)                      *)
(*   clf.partial_fit(x, y if sampled else missing_label)                   *)
(*                                                                         *)
(* for the strategies whose decision does not look at the classifier       *)
(* (PeriodicSampling, StreamRandomSampling; Budget kinds "Periodic" and    *)
(* "StreamRandom").  State: the committed strategy state cm, the window    *)
(* win of [id, lab] (lab = M unless the label was acquired), the window    *)
(* the current model was fitted on.  One action per cycle.                 *)
(* Deviation LeakLabels (vacuity guard): the true label enters the window  *)
(* although it was not acquired.                                           *)
(***************************************************************************)
EXTENDS Budget

CONSTANTS MKind, MB, WSize, MaxT, RndLen, LeakLabels

M == -1
VARIABLES cm, win, model, t, granted, rnd, acquired
vars == <<cm, win, model, t, granted, rnd, acquired>>

LP == [kind |-> MKind, W |-> 2, B |-> MB, S |-> <<1, 2>>, Theta0 |-> One,
       K |-> 2, WTol |-> <<2, 1>>, Allow |-> FALSE, Stale |-> FALSE, Sharp |-> FALSE]

TruncW(s, w) == IF w = 0 \/ Len(s) <= w THEN s ELSE SubSeq(s, Len(s) - w + 1, Len(s))
Trunc(s) == TruncW(s, WSize)
\* (only the Boolean "utility >= 1 - budget" of StreamRandomSampling is ever consulted)
RndCell == [vgt : {FALSE}, leb : {FALSE}, geb : BOOLEAN]

\* one cycle for parameters P from committed state st: [d, st2]
Cycle(P, st, r) ==
    LET u == One                                   \* (the utility these strategies report is not consulted)
        sim == SimFold(P, st, <<u>>, r, <<TRUE>>, 1)
        d == sim.dec[1]
    IN [d |-> d, st2 |-> CommitFold(P, st, <<d>>, <<u>>, r, st.u, 1)]

Init == /\ cm = InitState(LP) /\ win = <<>> /\ model = <<>> /\ t = 0 /\ granted = 0
        /\ rnd \in [1..RndLen -> RndCell] /\ acquired = {}
Step(lab) ==
    /\ t < MaxT
    /\ LET c == Cycle(LP, cm, rnd)
           seen == IF c.d \/ LeakLabels THEN lab ELSE M
       IN /\ cm' = c.st2
          /\ win' = Trunc(Append(win, [id |-> t + 1, lab |-> seen]))
          /\ granted' = granted + (IF c.d THEN 1 ELSE 0)
          /\ acquired' = IF c.d THEN acquired \cup {t + 1} ELSE acquired
    /\ model' = win' /\ t' = t + 1 /\ UNCHANGED rnd
Next == \E lab \in {0, 1} : Step(lab)
Spec == Init /\ [][Next]_vars

\* ---- properties of the cycle ----------------------------------------------
BudgetRespected == NoOverspendAt(LP, granted, t)
OnlyAcquiredLabels == \A i \in DOMAIN win : win[i].lab # M => win[i].id \in acquired
WindowIsLatest == /\ (WSize > 0 => Len(win) = Min2(WSize, t)) /\ (WSize = 0 => Len(win) = t)
                  /\ \A i \in DOMAIN win : win[i].id = t - Len(win) + i
ModelOnWindow == model = win
=============================================================================
