SPECIFICATION TSpec
CONSTANTS
  NMem = 3
  NCls = 3
  NPts = 4
  SharedColumn = FALSE
CONSTRAINT Progress
POSTCONDITION Post
CHECK_DEADLOCK FALSE
