----------------------------- MODULE MC_RandArg -----------------------------
EXTENDS RandArg, Json
MCVals == {-1, 0, 1}
GenCase == PrintT(ToJson([a |-> a, ndim |-> ndim, axis |-> axis, isMax |-> isMax])) /\ FALSE
=============================================================================
