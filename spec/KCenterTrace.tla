---------------------------- MODULE KCenterTrace ----------------------------
(* Batch validation of recorded CoreSet / GreedySamplingX queries on points *)
(* of the integer line: every batch step must be the step KCenter.tla       *)
(* computes (the utility row is a function of the state; the pick is one of *)
(* its maximisers).                                                         *)
EXTENDS KCenter, Json, IOUtils, TLCExt
Traces == JsonDeserialize(IOEnv.TRACE_FILE)
VARIABLES tid, l
tvars == <<vars, tid, l>>
ASSUME \A t \in 1..Len(Traces) : TLCSet(t, 0)
T  == Traces[tid]
Ev == T.events[l]
C(name, cond) == Chk(tid, l, name, cond)
IsEvent(e) == /\ l <= Len(T.events) /\ Ev.ev = e /\ l' = l + 1 /\ tid' = tid
ToSet(s) == {s[i] : i \in DOMAIN s}
TInit == /\ tid \in 1..Len(Traces) /\ l = 1
         /\ variant = Traces[tid].variant /\ U = Traces[tid].U
         /\ labeled = ToSet(Traces[tid].labeled) /\ cands = Traces[tid].cands
         /\ sumset = ToSet(Traces[tid].sumset) /\ full = Traces[tid].full /\ bs = Traces[tid].bs
         /\ picks = <<>> /\ rows = <<>>
TStep == /\ IsEvent("Step")
         /\ LET r == CurrentRow IN
            /\ C("batch-not-longer-than-requested", Len(picks) < bs)
            /\ C("row-is-the-specified-distance-row", Ev.row = r)
            /\ C("pick-maximises-the-row", Ev.p \in ArgmaxSet(r))
            /\ C("not-selected-twice", Ev.p \notin Range(picks))
            /\ rows' = Append(rows, r)
         /\ picks' = Append(picks, Ev.p)
         /\ UNCHANGED <<variant, U, labeled, cands, sumset, full, bs>>
TDone == /\ IsEvent("Done")
         /\ C("batch-size", Ev.n = bs /\ Len(picks) = bs)
         /\ UNCHANGED vars
TNext == TStep \/ TDone
TSpec == TInit /\ [][TNext]_tvars
Progress == TLCSet(tid, IF TLCGet(tid) < l THEN l ELSE TLCGet(tid))
Post == /\ PrintT(<<"VALIDATED", Len(Traces)>>)
        /\ \A t \in 1..Len(Traces) :
             IF TLCGet(t) = Len(Traces[t].events) + 1 THEN TRUE
             ELSE PrintT(<<"REJECT", t, TLCGet(t)>>)
=============================================================================
