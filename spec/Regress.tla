------------------------------ MODULE Regress ------------------------------
(***************************************************************************)
(* Coherence of the probabilistic regressors (property C15).               *)
(*                                                                         *)
(*   skactiveml/base.py  ProbabilisticRegressor.predict (1535-1545),       *)
(*                       .sample_y (1566-1570)                             *)
(*   skactiveml/regressor/_nic_kernel_regressor.py  NICKernelRegressor,    *)
(*                       NadarayaWatsonRegressor                           *)
(*   skactiveml/regressor/_wrapper.py  SklearnRegressor (fallback to       *)
(*                       _label_mean / _label_std), SklearnNormalRegressor *)
(*                                                                         *)
(* The module is a *case table*: a case is (regressor kind, number of      *)
(* labeled samples 0 / 1 / 2+, prior class, return_std, return_entropy);   *)
(* Rows states what has to be observed for it.  The numerics of the        *)
(* posterior are not modelled: observations are band-encoded numbers       *)
(* <<flag, v>> (flag 0 finite with v = round(x * 2^20) capped to 32 bit,   *)
(* 1 nan, 2 +inf, 3 -inf) and the actions below only relate observations   *)
(* of different calls to each other and to the row's requirement.          *)
(*                                                                         *)
(* Protocol of one case (one action per public call):                      *)
(*   Fit -> Dist (predict_target_distribution) -> Predict -> Sample ->     *)
(*   SampleAgain (same random_state);  plain wrappers: Fit -> PredictPlain *)
(***************************************************************************)
EXTENDS Common, TLC

Kinds == {"NIC", "NW", "NormalGP", "NormalBR", "NormalUnfit", "PlainLR", "PlainUnfit"}
Probabilistic(k) == k \in {"NIC", "NW", "NormalGP", "NormalBR", "NormalUnfit"}
PriorsOf(k) == CASE k = "NIC" -> {"proper", "improper"}
                 [] k = "NW" -> {"improper"}          \* kappa_0 = 0 by construction
                 [] k = "NormalGP" -> {"proper"}      \* the kernel is a proper prior
                 [] k = "NormalBR" -> {"improper"}    \* non-informative hyper priors
                 [] OTHER -> {"none"}

Cases == {c \in [kind : Kinds, nLab : 0..2, prior : {"proper", "improper", "none"},
                 retStd : BOOLEAN, retEnt : BOOLEAN] :
             /\ c.prior \in PriorsOf(c.kind)
             /\ ~Probabilistic(c.kind) => (~c.retStd /\ ~c.retEnt)}

\* ---- the table -----------------------------------------------------------
\* mayRaise : the case is outside the envelope of the property (improper
\*            prior without any label): the distribution may be undefined
\* coherent : predict == mean (std, entropy) of predict_target_distribution
\* stdFinite: std finite and >= 0
\* fallback : "zero" (mean 0), "labelmean" (empirical label mean), "none"
\* samples  : sample_y is part of the protocol
R(name, kinds, priors, nLabs, mayRaise, coherent, stdFinite, fallback, samples) ==
    [name |-> name, kinds |-> kinds, priors |-> priors, nLabs |-> nLabs, mayRaise |-> mayRaise,
     coherent |-> coherent, stdFinite |-> stdFinite, fallback |-> fallback, samples |-> samples]

Rows == <<
  R("kernel-proper-prior",        {"NIC"},       {"proper"},   {0, 1, 2}, FALSE, TRUE, TRUE,  "none", TRUE),
  R("kernel-improper-no-label",   {"NIC", "NW"}, {"improper"}, {0},       TRUE,  TRUE, FALSE, "none", TRUE),
  R("kernel-improper-one-label",  {"NIC", "NW"}, {"improper"}, {1},       FALSE, TRUE, FALSE, "none", TRUE),
  R("kernel-improper-two-labels", {"NIC", "NW"}, {"improper"}, {2},       FALSE, TRUE, TRUE,  "none", TRUE),
  R("gp-no-label",                {"NormalGP"},  {"proper"},   {0},       FALSE, TRUE, TRUE,  "zero", TRUE),
  R("gp-labels",                  {"NormalGP"},  {"proper"},   {1, 2},    FALSE, TRUE, TRUE,  "none", TRUE),
  R("bayesian-ridge-no-label",    {"NormalBR"},  {"improper"}, {0},       FALSE, TRUE, FALSE, "zero", TRUE),
  R("bayesian-ridge-one-label",   {"NormalBR"},  {"improper"}, {1},       FALSE, TRUE, FALSE, "none", TRUE),
  R("bayesian-ridge-two-labels",  {"NormalBR"},  {"improper"}, {2},       FALSE, TRUE, TRUE,  "none", TRUE),
  R("normal-unfitted-no-label",   {"NormalUnfit"}, {"none"},   {0},       FALSE, TRUE, FALSE, "zero", TRUE),
  R("normal-unfitted-one-label",  {"NormalUnfit"}, {"none"},   {1},       FALSE, TRUE, FALSE, "labelmean", TRUE),
  R("normal-unfitted-two-labels", {"NormalUnfit"}, {"none"},   {2},       FALSE, TRUE, TRUE,  "labelmean", TRUE),
  R("plain-no-label",  {"PlainLR", "PlainUnfit"}, {"none"},    {0},       FALSE, FALSE, FALSE, "zero", FALSE),
  R("plain-fitted",               {"PlainLR"},   {"none"},     {1, 2},    FALSE, FALSE, FALSE, "none", FALSE),
  R("plain-unfitted-labels",      {"PlainUnfit"}, {"none"},    {1, 2},    FALSE, FALSE, FALSE, "labelmean", FALSE)
>>

Matches(i, c) == /\ c.kind \in Rows[i].kinds /\ c.prior \in Rows[i].priors
                 /\ c.nLab \in Rows[i].nLabs
RowsOf(c) == {i \in DOMAIN Rows : Matches(i, c)}
Arity(c) == 1 + (IF c.retStd THEN 1 ELSE 0) + (IF c.retEnt THEN 1 ELSE 0)

\* ---- band-encoded numbers --------------------------------------------------
Finite(x)  == x[1] = 0
NonNeg(x)  == x[1] = 0 /\ x[2] >= 0
Near(x, y) == /\ x[1] = y[1]
              /\ x[1] = 0 => (x[2] - y[2] <= 1 /\ y[2] - x[2] <= 1)
AllNear(a, b) == Len(a) = Len(b) /\ \A i \in DOMAIN a : Near(a[i], b[i])
IsZero(x) == x[1] = 0 /\ x[2] = 0

CONSTANTS ObsVals,     \* observation values explored by the model checker
          DigVals      \* sample digests explored by the model checker

VARIABLES case, phase, row,
          dMean, dStd, dEnt,          \* predict_target_distribution(X).mean() / std() / entropy()
          pArity, pMean, pStd, pEnt,  \* what predict returned
          labelMean,                  \* empirical label mean of the training set (input)
          sShape, sDig                \* sample_y: shape, digest

vars == <<case, phase, row, dMean, dStd, dEnt, pArity, pMean, pStd, pEnt, labelMean, sShape, sDig>>

InitWith(c, lm) ==
    /\ case = c /\ labelMean = lm /\ phase = "case" /\ row = 0
    /\ dMean = <<>> /\ dStd = <<>> /\ dEnt = <<>>
    /\ pArity = 0 /\ pMean = <<>> /\ pStd = <<>> /\ pEnt = <<>>
    /\ sShape = <<>> /\ sDig = 0

Init == \E c \in Cases, lm \in ObsVals : Finite(lm) /\ InitWith(c, lm)

Req == Rows[row]

\* fit: the case selects its (unique) row of the table
Fit == /\ phase = "case"
       /\ \E i \in RowsOf(case) : row' = i
       /\ phase' = "fitted"
       /\ UNCHANGED <<case, dMean, dStd, dEnt, pArity, pMean, pStd, pEnt, labelMean, sShape, sDig>>

\* predict_target_distribution raised: only outside the envelope
DistRaised == /\ phase = "fitted" /\ Probabilistic(case.kind)
              /\ Req.mayRaise
              /\ phase' = "done"
              /\ UNCHANGED <<case, row, dMean, dStd, dEnt, pArity, pMean, pStd, pEnt, labelMean, sShape, sDig>>

StdOK(s) == (Req.stdFinite /\ ~Req.mayRaise) => \A i \in DOMAIN s : NonNeg(s[i])
FallbackOK(m) ==
    CASE Req.fallback = "zero"      -> \A i \in DOMAIN m : IsZero(m[i])
      [] Req.fallback = "labelmean" -> \A i \in DOMAIN m : Near(m[i], labelMean)
      [] OTHER -> TRUE

Dist(m, s, e) ==
    /\ phase = "fitted" /\ Probabilistic(case.kind)
    /\ Len(m) = Len(s) /\ Len(m) = Len(e) /\ Len(m) >= 1
    /\ StdOK(s)
    /\ FallbackOK(m)
    /\ dMean' = m /\ dStd' = s /\ dEnt' = e
    /\ phase' = "dist"
    /\ UNCHANGED <<case, row, pArity, pMean, pStd, pEnt, labelMean, sShape, sDig>>

\* predict(X, return_std, return_entropy): a bare array or a tuple whose
\* components are the mean, std and entropy of the same distribution
Predict(a, m, s, e) ==
    /\ phase = "dist"
    /\ a = Arity(case)
    /\ AllNear(m, dMean)
    /\ IF case.retStd THEN AllNear(s, dStd) ELSE s = <<>>
    /\ IF case.retEnt THEN AllNear(e, dEnt) ELSE e = <<>>
    /\ pArity' = a /\ pMean' = m /\ pStd' = s /\ pEnt' = e
    /\ phase' = "pred"
    /\ UNCHANGED <<case, row, dMean, dStd, dEnt, labelMean, sShape, sDig>>

\* SklearnRegressor around a non-probabilistic estimator
PredictPlain(a, m) ==
    /\ phase = "fitted" /\ ~Probabilistic(case.kind)
    /\ a = 1 /\ Len(m) >= 1
    /\ FallbackOK(m)
    /\ pArity' = a /\ pMean' = m
    /\ phase' = "done"
    /\ UNCHANGED <<case, row, dMean, dStd, dEnt, pStd, pEnt, labelMean, sShape, sDig>>

\* sample_y(X, n_samples, random_state): shape (n_query_points, n_samples)
Sample(nq, ns, shape, dig) ==
    /\ phase = "pred" /\ Req.samples
    /\ nq = Len(dMean)
    /\ shape = <<nq, ns>>
    /\ sShape' = shape /\ sDig' = dig
    /\ phase' = "sampled"
    /\ UNCHANGED <<case, row, dMean, dStd, dEnt, pArity, pMean, pStd, pEnt, labelMean>>

\* the same call with the same random_state
SampleAgain(shape, dig) ==
    /\ phase = "sampled"
    /\ shape = sShape /\ dig = sDig
    /\ phase' = "done"
    /\ UNCHANGED <<case, row, dMean, dStd, dEnt, pArity, pMean, pStd, pEnt, labelMean, sShape, sDig>>

Seq1(S) == {<<x>> : x \in S}

Next == \/ Fit \/ DistRaised
        \/ \E m, s, e \in Seq1(ObsVals) : Dist(m, s, e)
        \/ \E a \in 1..3, m \in Seq1(ObsVals), s, e \in Seq1(ObsVals) \cup {<<>>} : Predict(a, m, s, e)
        \/ \E m \in Seq1(ObsVals) : PredictPlain(1, m)
        \/ \E ns \in 1..2, d \in DigVals : Sample(1, ns, <<1, ns>>, d)
        \/ \E ns \in 1..2, d \in DigVals : SampleAgain(<<1, ns>>, d)

Spec == Init /\ [][Next]_vars

---------------------------------------------------------------------------
\* Properties
TypeOK == /\ case \in Cases
          /\ phase \in {"case", "fitted", "dist", "pred", "sampled", "done"}
          /\ row \in 0..Len(Rows)

\* the table is total and unambiguous
TableTotal  == \A c \in Cases : Cardinality(RowsOf(c)) = 1
\* no row is dead
TableNoDeadRow == \A i \in DOMAIN Rows : \E c \in Cases : Matches(i, c)

\* the table says what C15 says (stated independently of the rows)
TableConsistent ==
    \A c \in Cases : \A i \in RowsOf(c) :
        LET r == Rows[i] IN
        /\ r.coherent <=> Probabilistic(c.kind)
        /\ r.samples <=> Probabilistic(c.kind)
        /\ r.stdFinite <=> (Probabilistic(c.kind) /\ (c.prior = "proper" \/ c.nLab >= 2))
        /\ r.mayRaise <=> (c.kind \in {"NIC", "NW"} /\ c.prior = "improper" /\ c.nLab = 0)
        /\ r.fallback = "zero" => c.nLab = 0
        /\ r.fallback = "labelmean" <=> (c.kind \in {"NormalUnfit", "PlainUnfit"} /\ c.nLab >= 1)
        /\ (c.nLab = 0 /\ c.kind \notin {"NIC", "NW"}) => r.fallback = "zero"

RowChosen == phase # "case" => row \in RowsOf(case)

\* predict is coherent with the distribution
Coherent == phase \in {"pred", "sampled"} \/ (phase = "done" /\ pArity > 0 /\ Probabilistic(case.kind)) =>
    /\ pArity = Arity(case)
    /\ AllNear(pMean, dMean)
    /\ case.retStd => AllNear(pStd, dStd)
    /\ case.retEnt => AllNear(pEnt, dEnt)

StdFinite == (dStd # <<>> /\ Req.stdFinite /\ ~Req.mayRaise) => \A i \in DOMAIN dStd : NonNeg(dStd[i])

Fallback == /\ (dMean # <<>> /\ Req.fallback = "zero") => \A i \in DOMAIN dMean : IsZero(dMean[i])
            /\ (pMean # <<>> /\ Req.fallback = "labelmean") => \A i \in DOMAIN pMean : Near(pMean[i], labelMean)

SampleShape == sShape # <<>> => sShape[1] = Len(dMean)

\* an undefined distribution is tolerated only outside the envelope
RaiseOnlyOutside == (phase = "done" /\ dMean = <<>> /\ Probabilistic(case.kind)) => Req.mayRaise
=============================================================================
