#!/bin/sh
# offline setup: parse every TLA+ module, byte-compile the harness
cd "$(dirname "$0")" || exit 2
S=$(mktemp -d)
trap 'rm -rf "$S"' EXIT
export JAVA_TOOL_OPTIONS="-Djava.io.tmpdir=$S"
rc=0
cd spec || exit 2
for f in *.tla; do
  # a module that does not parse is reported here and makes the check that
  # uses it exit 2 (machinery failure); it does not stop the other checks
  java -cp /opt/veriftools/tla/tla2tools.jar:/opt/veriftools/tla/CommunityModules-deps.jar tla2sany.SANY "$f" > "$S/sany.out" 2>&1 || { tail -5 "$S/sany.out"; echo "WARNING: SANY rejects $f"; }
  if grep -q "error" "$S/sany.out"; then grep -n "rror" "$S/sany.out" | head -5; echo "WARNING: SANY reports errors in $f"; fi
done
cd ..
/venv/bin/python -m compileall -q harness > /dev/null || rc=1
find harness -name __pycache__ -prune -exec rm -rf {} + 2>/dev/null
mkdir -p evidence replays
exit $rc
