"""Registry of the single-annotator pool query strategies exported by
skactiveml.pool: how to construct them, which model arguments their query
needs, and the documented envelope (candidate modes, selection kind).

The registry self-check (`check_complete`) fails the run when an exported
strategy class is missing here, so new strategies cannot silently escape."""

import inspect

import copy

import numpy as np


class Entry:
    def __init__(self, name, cls_name, make, model, selection="max", rows=True, samplewise=False,
                 arbitrary_idx=True, cost=1, note=""):
        self.name = name            # unique configuration name
        self.cls_name = cls_name    # exported class
        self.make = make            # make(seed, missing_label, classes) -> strategy
        self.model = model          # "clf" | "clf_embed" | "reg" | "ensemble" | "discriminator" | None
        self.selection = selection  # "max" (chosen sample attains the row maximum) | "sampling"
        self.rows = rows            # feature-row candidates supported (else documented MappingError)
        self.samplewise = samplewise  # score of a sample independent of the other candidates
        self.arbitrary_idx = arbitrary_idx  # index candidates may contain labeled samples
        self.cost = cost            # relative cost (1 cheap .. 3 expensive)
        self.note = note


def _clf(missing_label, classes, seed=0):
    from skactiveml.classifier import ParzenWindowClassifier

    return ParzenWindowClassifier(classes=list(classes), missing_label=missing_label, random_state=seed)


def _clf_mean(missing_label, classes, seed=0):
    from skactiveml.classifier import ParzenWindowClassifier

    return ParzenWindowClassifier(classes=list(classes), missing_label=missing_label, random_state=seed,
                                  metric_dict={"gamma": "mean"})


def _sk_clf(missing_label, classes, seed=0):
    from sklearn.linear_model import LogisticRegression

    from skactiveml.classifier import SklearnClassifier

    return SklearnClassifier(LogisticRegression(max_iter=50), classes=list(classes), missing_label=missing_label,
                             random_state=seed)


def _tree_clf(missing_label, classes, seed=0):
    """a classifier with exactly one-hot probabilities on pure leaves (certain
    candidates) and split probabilities on duplicated points with conflicting
    labels"""
    from sklearn.tree import DecisionTreeClassifier

    from skactiveml.classifier import SklearnClassifier

    return SklearnClassifier(DecisionTreeClassifier(random_state=seed), classes=list(classes),
                             missing_label=missing_label, random_state=seed)


def _mlp_clf(missing_label, classes, seed=0):
    """a classifier that can return embeddings is only available with
    skorch/torch (absent here); strategies that want embeddings fall back to
    the input features when clf_embedding_flag_name is None"""
    return _clf(missing_label, classes, seed)


def _reg(seed=0, missing_label=np.nan):
    from skactiveml.regressor import NICKernelRegressor

    return NICKernelRegressor(random_state=seed, metric_dict={"gamma": 0.5}, missing_label=missing_label)


def _sk_reg(seed=0, missing_label=np.nan):
    from sklearn.linear_model import LinearRegression

    from skactiveml.regressor import SklearnRegressor

    return SklearnRegressor(LinearRegression(), random_state=seed, missing_label=missing_label)


def _tree_reg(seed=0, missing_label=np.nan):
    from sklearn.tree import DecisionTreeRegressor

    from skactiveml.regressor import SklearnRegressor

    return SklearnRegressor(DecisionTreeRegressor(min_samples_leaf=1, random_state=seed), random_state=seed,
                            missing_label=missing_label)


def _ensemble(missing_label, classes, seed=0):
    from sklearn.ensemble import RandomForestClassifier

    from skactiveml.classifier import SklearnClassifier

    # (a bagging ensemble of GaussianNB yields NaN probabilities on a single
    # training point - a property of that model, not of the strategies)
    return SklearnClassifier(RandomForestClassifier(n_estimators=3, random_state=seed),
                             classes=list(classes), missing_label=missing_label, random_state=seed)


def _ensemble_list(missing_label, classes, seed=0):
    from skactiveml.classifier import ParzenWindowClassifier

    return [ParzenWindowClassifier(classes=list(classes), missing_label=missing_label, random_state=seed,
                                   metric_dict={"gamma": g}) for g in (0.1, 1.0, 3.0)]


REG = ("regression",)      # marker passed as `classes` when the missing label is meant for a regression model


def model_kwargs(entry, missing_label, classes, seed=0, variant=0):
    """query keyword arguments carrying the model(s) an entry needs"""
    m = entry.model
    if m is None:
        return {}
    if m in ("clf", "clf_embed"):
        if variant == 3:      # a kernel classifier whose bandwidth is derived from the training data
            return {"clf": _clf_mean(missing_label, classes, seed)}
        return {"clf": (_clf, _sk_clf, _tree_clf)[variant % 3](missing_label, classes, seed)}
    if m == "clf_freq":
        return {"clf": _clf(missing_label, classes, seed)}
    if m == "clf_free":
        # a classifier constructed WITHOUT a class list: the classes are the ones observed so far (documented
        # precondition: at least one label), so their number may grow from one query to the next
        from skactiveml.classifier import ParzenWindowClassifier

        return {"clf": ParzenWindowClassifier(missing_label=missing_label, random_state=seed)}
    if m == "clf_logreg":
        return {"clf": _sk_clf(missing_label, classes, seed)}
    if m == "clf_nb_partial":
        from sklearn.naive_bayes import GaussianNB

        from skactiveml.classifier import SklearnClassifier

        return {"clf": SklearnClassifier(GaussianNB(), classes=list(classes), missing_label=missing_label,
                                         random_state=seed), "ignore_partial_fit": False}
    if m == "reg":
        ml = np.nan if classes is not REG else missing_label      # (classification encodings do not apply to regressors)
        return {"reg": (_reg, _sk_reg)[variant % 2](seed, ml) if entry.cls_name != "RegressionTreeBasedAL"
                else _tree_reg(seed, ml)}
    if m == "reg_prob":
        return {"reg": _reg(seed, np.nan if classes is not REG else missing_label)}
    if m == "ensemble":
        return {"ensemble": (_ensemble_list, _ensemble)[variant % 2](missing_label, classes, seed)}
    if m == "ensemble_sampler":
        # ONE classifier that can sample probability vectors (sample_proba) stands in for a committee
        # (sampling from the Dirichlet needs positive pseudo counts: class_prior > 0 is a documented precondition)
        from skactiveml.classifier import ParzenWindowClassifier

        return {"ensemble": ParzenWindowClassifier(classes=list(classes), missing_label=missing_label,
                                                    class_prior=0.5, random_state=seed)}
    if m == "fourds":
        from sklearn.mixture import BayesianGaussianMixture

        from skactiveml.classifier import MixtureModelClassifier

        mm = BayesianGaussianMixture(n_components=2, random_state=seed)
        return {"clf": MixtureModelClassifier(mixture_model=mm, classes=list(classes), missing_label=missing_label,
                                              random_state=seed)}
    if m == "discriminator":
        return {"discriminator": _clf(missing_label, [0, 1], seed)}
    raise ValueError(m)


def is_regression(entry):
    return entry.model in ("reg", "reg_prob") or entry.cls_name in ("GreedySamplingX",)


def entries():
    import skactiveml.pool as P

    E = []

    def add(name, cls_name, kw=None, needs_classes=False, **meta):
        kw = kw or {}

        def make(seed, missing_label=np.nan, classes=(0, 1), _c=cls_name, _kw=kw, _nc=needs_classes):
            k = copy.deepcopy(_kw)      # (estimator-valued parameters: a fresh object per strategy)
            if _nc:
                k["classes"] = list(classes)
            return getattr(P, _c)(missing_label=missing_label, random_state=seed, **k)

        E.append(Entry(name, cls_name, make, **meta))

    add("RandomSampling", "RandomSampling", model=None, samplewise=False)
    add("ProbabilisticAL", "ProbabilisticAL", model="clf_freq", samplewise=True)
    for m in ("least_confident", "margin_sampling", "entropy"):
        add("UncertaintySampling(%s)" % m, "UncertaintySampling", {"method": m}, model="clf", samplewise=True)
    # expected average precision ranks a candidate against the other candidates
    add("UncertaintySampling(expected_average_precision)", "UncertaintySampling",
        {"method": "expected_average_precision"}, model="clf", samplewise=False)
    add("EpistemicUncertaintySampling", "EpistemicUncertaintySampling", model="clf_freq", samplewise=True)
    add("EpistemicUncertaintySampling(precompute)", "EpistemicUncertaintySampling", {"precompute": True},
        model="clf_freq", samplewise=True)
    for m in ("misclassification_loss", "log_loss"):
        # the evaluation set is all of X (X_eval=None): the score of a candidate does not depend on the others
        add("MonteCarloEER(%s)" % m, "MonteCarloEER", {"method": m}, model="clf", samplewise=True,
            arbitrary_idx=False, cost=2)
    add("ValueOfInformationEER", "ValueOfInformationEER", model="clf", rows=False, samplewise=True,
        arbitrary_idx=False, cost=2)
    add("QueryByCommittee(KL_divergence)", "QueryByCommittee", {"method": "KL_divergence"}, model="ensemble",
        samplewise=True)
    # the vote based methods use the members' hard predictions, whose ties are broken at random per row
    # position by the classifiers: not a deterministic function of the sample alone
    for m in ("vote_entropy", "variation_ratios"):
        add("QueryByCommittee(%s)" % m, "QueryByCommittee", {"method": m}, model="ensemble", samplewise=False)
    # Quire scores a candidate against ALL labeled and unlabeled samples of (X, y): the score does not
    # depend on which other samples are offered as candidates (restriction relation of C08)
    add("Quire", "Quire", needs_classes=True, model=None, rows=False, arbitrary_idx=False, samplewise=True, cost=2)
    add("FourDs", "FourDs", model="fourds", cost=2)
    add("CostEmbeddingAL", "CostEmbeddingAL", needs_classes=True, model=None, samplewise=True, cost=2)
    add("ExpectedModelChangeMaximization", "ExpectedModelChangeMaximization", model="reg", samplewise=True, cost=2)
    add("ExpectedModelOutputChange", "ExpectedModelOutputChange", model="reg_prob", cost=2)
    add("ExpectedModelVarianceReduction", "ExpectedModelVarianceReduction", model="reg_prob", cost=2)
    add("KLDivergenceMaximization", "KLDivergenceMaximization", model="reg_prob", cost=3)
    add("GreedySamplingX", "GreedySamplingX", model=None)
    for m in ("GSy", "GSi"):
        add("GreedySamplingTarget(%s)" % m, "GreedySamplingTarget", {"method": m}, model="reg")
    add("DiscriminativeAL", "DiscriminativeAL", model="discriminator", rows=False, cost=2)
    add("DiscriminativeAL(greedy)", "DiscriminativeAL", {"greedy_selection": True}, model="discriminator",
        rows=False, cost=2)
    add("BatchBALD", "BatchBALD", model="ensemble", cost=2)
    add("GreedyBALD", "GreedyBALD", model="ensemble", samplewise=True)
    add("Clue", "Clue", model="clf_embed", rows=False, cost=2)
    add("DropQuery", "DropQuery", model="clf_embed", rows=False, cost=2)
    add("CoreSet", "CoreSet", model=None)
    add("TypiClust", "TypiClust", model=None, rows=False, cost=2)
    add("Badge", "Badge", model="clf_embed", selection="sampling", cost=2)
    add("ProbCover", "ProbCover", model=None, rows=False, cost=2)
    add("ContrastiveAL", "ContrastiveAL", model="clf_embed", samplewise=True, arbitrary_idx=False, cost=2)
    for m in ("random", "diversity", "representativity"):
        add("RegressionTreeBasedAL(%s)" % m, "RegressionTreeBasedAL", {"method": m}, model="reg", cost=2)
    add("Falcun", "Falcun", model="clf_embed", selection="sampling", cost=2)
    # ---- parameter sweep: one documented non-default value for the constructor / query parameters that the
    # configurations above leave at their defaults (boundary values where the documentation names them)
    from sklearn.tree import DecisionTreeRegressor

    add("Falcun(gamma=0)", "Falcun", {"gamma": 0}, model="clf_embed", selection="sampling", cost=3)
    add("Falcun(gamma=1)", "Falcun", {"gamma": 1.0}, model="clf_embed", selection="sampling", cost=3)
    add("CostEmbeddingAL(base_regressor,embed_dim=2)", "CostEmbeddingAL",
        {"base_regressor": DecisionTreeRegressor(random_state=0), "embed_dim": 2}, needs_classes=True, model=None,
        samplewise=True, cost=3)
    for m in ("GSy", "GSi"):
        add("GreedySamplingTarget(%s,n_GSx_samples=3)" % m, "GreedySamplingTarget", {"method": m, "n_GSx_samples": 3},
            model="reg", cost=3)
    add("ProbabilisticAL(prior=0.5,m_max=2)", "ProbabilisticAL", {"prior": 0.5, "m_max": 2}, model="clf_freq",
        samplewise=True, cost=3)
    add("Quire(lmbda=0.5,rbf)", "Quire", {"lmbda": 0.5, "metric": "rbf", "metric_dict": {"gamma": 0.5}},
        needs_classes=True, model=None, rows=False, arbitrary_idx=False, samplewise=True, cost=3)
    add("BatchBALD(n_MC_samples=5)", "BatchBALD", {"n_MC_samples": 5}, model="ensemble", cost=3)
    # fewer Monte-Carlo samples than ensemble members (the sampled joint entropy then has no sample per member)
    add("BatchBALD(n_MC_samples=2)", "BatchBALD", {"n_MC_samples": 2}, model="ensemble", cost=3)
    add("GreedyBALD(eps=1e-3)", "GreedyBALD", {"eps": 1e-3}, model="ensemble", samplewise=True, cost=3)
    add("QueryByCommittee(KL_divergence,eps=1e-3)", "QueryByCommittee", {"method": "KL_divergence", "eps": 1e-3},
        model="ensemble", samplewise=True, cost=3)
    add("ExpectedModelChangeMaximization(bootstrap_size=2,ord=1)", "ExpectedModelChangeMaximization",
        {"bootstrap_size": 2, "ord": 1}, model="reg", cost=3)
    # a committee sampled from ONE classifier (sample_proba) with the sampling seed 0 (a falsy seed is a seed) / 3
    sp = {"sample_predictions_method_name": "sample_proba"}
    add("QueryByCommittee(KL_divergence,sample_proba,seed=0)", "QueryByCommittee",
        dict(sp, method="KL_divergence", sample_predictions_dict={"random_state": 0, "n_samples": 4}),
        model="ensemble_sampler", cost=3)      # (the draws are positional: not a sample-wise scorer)
    add("GreedyBALD(sample_proba,seed=3)", "GreedyBALD",
        dict(sp, sample_predictions_dict={"random_state": 3, "n_samples": 4}), model="ensemble_sampler", cost=3)
    add("BatchBALD(sample_proba,seed=0)", "BatchBALD",
        dict(sp, sample_predictions_dict={"random_state": 0, "n_samples": 4}), model="ensemble_sampler", cost=3)
    # n_train given as a number of samples (int) instead of a fraction
    add("ExpectedModelChangeMaximization(n_train=2)", "ExpectedModelChangeMaximization", {"n_train": 2}, model="reg",
        cost=3)
    add("FourDs(lmbda=0.3)", "FourDs", {"lmbda": 0.3}, model="fourds", cost=3)
    add("ProbCover(alpha=0.5)", "ProbCover", {"alpha": 0.5}, model=None, rows=False, cost=3)
    add("TypiClust(k=2)", "TypiClust", {"k": 2}, model=None, rows=False, cost=3)
    # another clustering algorithm than the default KMeans (MiniBatchKMeans may leave cluster ids unused)
    from sklearn.cluster import MiniBatchKMeans

    add("TypiClust(MiniBatchKMeans)", "TypiClust", {"cluster_algo": MiniBatchKMeans}, model=None, rows=False, cost=3)
    add("ProbCover(MiniBatchKMeans)", "ProbCover", {"cluster_algo": MiniBatchKMeans}, model=None, rows=False, cost=3)
    add("Clue(MiniBatchKMeans)", "Clue", {"cluster_algo": MiniBatchKMeans}, model="clf_embed", rows=False, cost=3)
    add("DropQuery(MiniBatchKMeans)", "DropQuery", {"cluster_algo": MiniBatchKMeans}, model="clf_embed", rows=False,
        cost=3)
    add("ValueOfInformationEER(consider_unlabeled)", "ValueOfInformationEER", {"consider_unlabeled": True},
        model="clf", rows=False, samplewise=True, arbitrary_idx=False, cost=3)
    add("ValueOfInformationEER(candidate_to_labeled)", "ValueOfInformationEER", {"candidate_to_labeled": True},
        model="clf", rows=False, samplewise=True, arbitrary_idx=False, cost=3)
    add("DropQuery(dropout_rate=0.5,n_dropout_samples=4)", "DropQuery", {"dropout_rate": 0.5, "n_dropout_samples": 4},
        model="clf_embed", rows=False, cost=3)
    # query(..., ignore_partial_fit=False) with a classifier that implements partial_fit: the simulated updates of
    # the expected error reduction loop use the classifier's own partial_fit
    add("MonteCarloEER(partial_fit)", "MonteCarloEER", {"method": "misclassification_loss"}, model="clf_nb_partial",
        samplewise=True, arbitrary_idx=False, cost=3)
    add("ValueOfInformationEER(partial_fit)", "ValueOfInformationEER", model="clf_nb_partial", rows=False,
        samplewise=True, arbitrary_idx=False, cost=3)
    return E


WRAPPERS = ("SubSamplingWrapper", "ParallelUtilityEstimationWrapper")


def wrapper_entries(mcs=(1.0, 50)):
    """SubSamplingWrapper as a pool strategy of its own (C01 / C02): the sub-sample is the whole candidate set (in
    random order), so a batch can always be filled; C20 relates it to the wrapped strategy, C14 runs the loop"""
    from skactiveml.pool import SubSamplingWrapper

    base = {e.name: e for e in entries()}
    out = []
    for inner_name in ("UncertaintySampling(entropy)", "RandomSampling"):
        inner = base[inner_name]
        for mc in mcs:
            for excl in (False, True):
                def make(seed, ml=np.nan, classes=(0, 1), inner=inner, mc=mc, excl=excl):
                    return SubSamplingWrapper(inner.make(seed, ml, classes), max_candidates=mc,
                                              exclude_non_subsample=excl, missing_label=ml, random_state=seed)
                nm = "SubSamplingWrapper(%s,max_candidates=%s,exclude_non_subsample=%s)" % (inner_name, mc, excl)
                out.append(Entry(nm, "SubSamplingWrapper", make, inner.model, selection=inner.selection,
                                 rows=inner.rows, samplewise=False, arbitrary_idx=False, cost=1))
    return out


def check_complete():
    """every exported SingleAnnotatorPoolQueryStrategy subclass is registered
    (wrappers are handled by C20's driver)"""
    import skactiveml.pool as P
    from skactiveml.base import SingleAnnotatorPoolQueryStrategy

    have = {e.cls_name for e in entries()} | set(WRAPPERS)
    missing = []
    for n in P.__all__:
        c = getattr(P, n)
        if inspect.isclass(c) and issubclass(c, SingleAnnotatorPoolQueryStrategy) and n not in have:
            missing.append(n)
    return missing
