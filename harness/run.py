"""Entry point of ./check."""

import argparse
import importlib
import json
import os
import sys
import traceback

from . import tlc


def main():
    ap = argparse.ArgumentParser()
    ap.add_argument("pid")
    ap.add_argument("--tier", default=os.environ.get("VERIF_TIER", "quick"), choices=["quick", "thorough"])
    ap.add_argument("--replay", default=None)
    args = ap.parse_args()
    seed = int(os.environ.get("VERIF_SEED", "0") or 0)
    pid = args.pid.upper()
    try:
        mod = importlib.import_module("harness.drivers." + pid.lower())
        if args.replay:
            with open(args.replay) as f:
                rep = json.load(f)
            if not hasattr(mod, "replay"):
                print(json.dumps(rep, indent=1)[:4000])
                print("(no executable replay for %s; the file above holds the concrete call and the rejected trace)" % pid)
                return 0
            return mod.replay(rep)
        return mod.main(tier=args.tier, seed=seed)
    except tlc.MachineryError as ex:
        print("MACHINERY-FAILURE %s: %s" % (pid, ex), file=sys.stderr)
        return 2
    except Exception:
        traceback.print_exc()
        print("MACHINERY-FAILURE %s: unexpected exception in the harness" % pid, file=sys.stderr)
        return 2


if __name__ == "__main__":
    sys.exit(main())
