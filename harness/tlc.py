"""Running TLC and reading what it prints.

All verdicts of the checks come from TLC (model checking of a module,
generation of cases/behaviours, batch validation of recorded traces); this
module only starts it inside a private scratch directory (removed afterwards)
and parses its output.
"""

import json
import os
import re
import shutil
import subprocess
import tempfile
import time

VERIF = os.path.dirname(os.path.dirname(os.path.abspath(__file__)))
SPEC_DIR = os.path.join(VERIF, "spec")
TLA_JAR = "/opt/veriftools/tla/tla2tools.jar"
TLA_CP = TLA_JAR + ":/opt/veriftools/tla/CommunityModules-deps.jar"


class MachineryError(Exception):
    """TLC / harness failed for a reason that is not a verdict (exit 2)."""


class Scratch:
    """A private temporary directory, removed on exit."""

    def __init__(self):
        self.path = None

    def __enter__(self):
        self.path = tempfile.mkdtemp(prefix="skaml-verif-")
        return self.path

    def __exit__(self, *exc):
        shutil.rmtree(self.path, ignore_errors=True)
        return False


# --------------------------------------------------------------------------
# a tiny parser for the TLA+ values TLC prints with PrintT
_TOK = re.compile(
    r'\s*(<<|>>|\[|\]|\{|\}|\(|\)|\|->|:>|@@|,|"(?:[^"\\]|\\.)*"|-?\d+|[A-Za-z_][A-Za-z_0-9]*)'
)


def _tokens(s):
    pos = 0
    out = []
    while pos < len(s):
        m = _TOK.match(s, pos)
        if not m:
            if s[pos:].strip() == "":
                break
            raise ValueError("cannot tokenise TLA+ value at %r" % s[pos:pos + 30])
        out.append(m.group(1))
        pos = m.end()
    return out


def _parse(toks, i):
    t = toks[i]
    if t == "<<":
        i += 1
        items = []
        while toks[i] != ">>":
            v, i = _parse(toks, i)
            items.append(v)
            if toks[i] == ",":
                i += 1
        return items, i + 1
    if t == "{":
        i += 1
        items = []
        while toks[i] != "}":
            v, i = _parse(toks, i)
            items.append(v)
            if toks[i] == ",":
                i += 1
        return {"__set__": items}, i + 1
    if t == "[":
        i += 1
        rec = {}
        while toks[i] != "]":
            key = toks[i]
            assert toks[i + 1] == "|->", toks[i:i + 3]
            v, i = _parse(toks, i + 2)
            rec[key] = v
            if toks[i] == ",":
                i += 1
        return rec, i + 1
    if t == "(":
        # function printed as (k :> v @@ k :> v)
        i += 1
        fn = {}
        while toks[i] != ")":
            k, i = _parse(toks, i)
            assert toks[i] == ":>"
            v, i = _parse(toks, i + 1)
            fn[json.dumps(k) if not isinstance(k, (int, str)) else k] = v
            if toks[i] == "@@":
                i += 1
        return fn, i + 1
    if t.startswith('"'):
        return json.loads(t), i + 1
    if t == "TRUE":
        return True, i + 1
    if t == "FALSE":
        return False, i + 1
    if re.fullmatch(r"-?\d+", t):
        return int(t), i + 1
    return t, i + 1  # model value / identifier


def parse_tla_value(s):
    toks = _tokens(s)
    v, i = _parse(toks, 0)
    if i != len(toks):
        raise ValueError("trailing tokens in %r" % s)
    return v


class TLCResult:
    def __init__(self, out, rc, wall):
        self.out = out
        self.rc = rc
        self.wall = wall
        self.generated = 0
        self.distinct = 0
        self.depth = 0
        self.values = []      # parsed PrintT values (tuples, records, ...)
        self.json_lines = []  # PrintT(ToJson(..)) payloads, already decoded
        self.errors = []
        self.coverage = {}
        self._parse()

    @staticmethod
    def _joined(lines):
        """TLC pretty-prints long tuples over several lines: join them again (bracket matching)"""
        buf = None
        for line in lines:
            s = line.strip()
            if buf is not None:
                buf += " " + s
                if buf.count("<<") <= buf.count(">>"):
                    yield buf
                    buf = None
                continue
            if s.startswith("<<") and s.count("<<") > s.count(">>"):
                buf = s
                continue
            yield s
        if buf is not None:
            yield buf

    def _parse(self):
        for s in self._joined(self.out.splitlines()):
            m = re.match(r"(\d+) states generated, (\d+) distinct states found", s)
            if m:
                self.generated = int(m.group(1))
                self.distinct = int(m.group(2))
                continue
            m = re.match(r"The depth of the complete state graph search is (\d+)", s)
            if m:
                self.depth = int(m.group(1))
                continue
            if s.startswith("Error:") or "Exception" in s and "tlc2" in s:
                self.errors.append(s)
                continue
            if s.startswith("<<") and s.endswith(">>"):
                try:
                    self.values.append(parse_tla_value(s))
                except Exception:
                    pass
                continue
            if s.startswith('"{') or s.startswith('"['):
                try:
                    self.json_lines.append(json.loads(json.loads(s)))
                except Exception:
                    pass
                continue
            m = re.match(r"<(\w+) line (\d+), col \d+ to line \d+, col \d+ of module (\w+)>: (\d+):(\d+)", s)
            if m:
                self.coverage[m.group(1)] = self.coverage.get(m.group(1), 0) + int(m.group(5))

    @property
    def ok(self):
        return self.rc == 0 and not self.errors

    def tagged(self, tag):
        return [v for v in self.values if isinstance(v, list) and v and v[0] == tag]

    def tail(self, n=40):
        lines = [x for x in self.out.splitlines()
                 if not x.startswith(("Parsing file", "Semantic processing", "Linting of module"))]
        return "\n".join(lines[-n:])


def run_tlc(module, cfg=None, workers=16, env=None, timeout=3600, extra=(),
            scratch=None, heap=None):
    """Run TLC on spec/<module>.tla with spec/<cfg> (default <module>.cfg)."""
    own = None
    if scratch is None:
        own = Scratch()
        scratch = own.__enter__()
    try:
        meta = tempfile.mkdtemp(prefix="meta-", dir=scratch)
        e = dict(os.environ)
        e["JAVA_TOOL_OPTIONS"] = "-Djava.io.tmpdir=%s" % scratch
        if env:
            e.update({k: str(v) for k, v in env.items()})
        cmd = ["java", "-XX:+UseParallelGC", "-Xmx%s" % (heap or "6g")]
        cmd += ["-cp", TLA_CP, "tlc2.TLC", "-workers", str(workers), "-metadir", meta,
                "-noGenerateSpecTE", "-config", cfg or (module + ".cfg")]
        cmd += list(extra)
        cmd.append(module + ".tla")
        t0 = time.time()
        try:
            p = subprocess.run(cmd, cwd=SPEC_DIR, env=e, stdout=subprocess.PIPE,
                               stderr=subprocess.STDOUT, timeout=timeout, text=True)
        except subprocess.TimeoutExpired as ex:
            raise MachineryError("TLC timed out after %ss on %s" % (timeout, module)) from ex
        res = TLCResult(p.stdout, p.returncode, time.time() - t0)
        # drop the 'Picked up JAVA_TOOL_OPTIONS' noise
        return res
    finally:
        if own is not None:
            own.__exit__(None, None, None)


def model_check(module, cfg=None, workers=16, timeout=3600, env=None, extra=()):
    """Exhaustive TLC run of a design module; raises MachineryError when TLC
    itself fails, returns the result (res.ok False = an invariant of the
    *specification* failed, which is a defect of the machinery, not of the
    code)."""
    res = run_tlc(module, cfg, workers=workers, timeout=timeout, env=env, extra=extra)
    if not res.ok and not any("violated" in e or "Deadlock" in e for e in res.errors):
        res = run_tlc(module, cfg, workers=workers, timeout=timeout, env=env, extra=extra)  # one retry
    if not res.ok:
        raise MachineryError("model checking %s failed:\n%s" % (module, res.tail(60)))
    if res.distinct == 0:
        raise MachineryError("model checking %s explored no state:\n%s" % (module, res.tail()))
    return res


def generate(module, cfg, env=None, timeout=3600, workers=1, extra=()):
    """TLC as a generator: returns the JSON payloads it printed."""
    res = run_tlc(module, cfg, workers=workers, timeout=timeout, env=env, extra=extra)
    if not res.ok:
        raise MachineryError("generation with %s/%s failed:\n%s" % (module, cfg, res.tail(60)))
    return res


def validate_traces(module, traces, cfg=None, timeout=3600, env=None, chunk=1500, jobs=12):
    """Batch trace validation.  `traces` is a list of dicts, each with an
    'events' list.  Returns (rejections, stats) where rejections is a list of
    dicts {index, matched, event, failed_clauses} and stats has TLC's state
    counts.  A trace is accepted iff TLC's register for it reached
    len(events)+1."""
    from concurrent.futures import ThreadPoolExecutor

    dump = os.environ.get("VERIF_DUMP_TRACES")      # selftest/run.py: keep a sample of the traces of every module
    if dump and traces:
        dp = os.path.join(dump, module + ".json")
        if not os.path.exists(dp):
            step = max(1, len(traces) // 60)
            with open(dp, "w") as f:
                json.dump({"module": module, "cfg": cfg,
                           "traces": [{k: v for k, v in t.items() if k != "concrete"} for t in traces[::step][:60]]}, f)
    rejections = []
    stats = {"generated": 0, "distinct": 0, "validated": 0, "wall": 0.0, "runs": 0}
    t0 = time.time()
    with Scratch() as scratch:
        def one(base):
            part = traces[base:base + chunk]
            path = os.path.join(scratch, "traces-%d.json" % base)
            with open(path, "w") as f:
                # 'concrete' (how to re-run the case) is for the replay file only
                json.dump([{k: v for k, v in t.items() if k != "concrete"} for t in part], f)
            e = {"TRACE_FILE": path}
            if env:
                e.update(env)
            res = None
            for attempt in range(2):   # one retry: a TLC start-up hiccup is not a verdict
                sub = tempfile.mkdtemp(prefix="run-", dir=scratch)
                res = run_tlc(module, cfg, workers=1, env=e, timeout=timeout, scratch=sub, heap="2g")
                val = res.tagged("VALIDATED")
                if res.ok and val and val[0][1] == len(part):
                    break
            os.remove(path)
            return base, part, res

        bases = list(range(0, len(traces), chunk))
        with ThreadPoolExecutor(max_workers=min(jobs, max(1, len(bases)))) as ex:
            results = list(ex.map(one, bases))
        for base, part, res in results:
            val = res.tagged("VALIDATED")
            if not res.ok or not val or val[0][1] != len(part):
                raise MachineryError("trace validation with %s failed:\n%s" % (module, res.tail(60)))
            stats["generated"] += res.generated
            stats["distinct"] += res.distinct
            stats["validated"] += len(part)
            stats["runs"] += 1
            failed = {}
            for v in res.tagged("FAILED"):
                failed.setdefault((v[1], v[2]), []).append(v[3])
            for v in res.tagged("REJECT"):
                t, reached = v[1], v[2]
                tr = part[t - 1]
                pos = max(reached, 1)
                ev = tr["events"][pos - 1] if pos - 1 < len(tr["events"]) else None
                rejections.append({
                    "index": base + t - 1,
                    "matched_events": pos - 1,
                    "offending_event": ev,
                    "failed_clauses": sorted(set(failed.get((t, pos), []))),
                })
    stats["wall"] = time.time() - t0
    return rejections, stats
