"""Check scaffolding: tiers, seeds, repo import, violations, known findings,
replay files and evidence files."""

import hashlib
import json
import os
import sys
import time

from . import tlc

VERIF = tlc.VERIF
REPO = os.environ.get("VERIF_REPO", "/repo")
# mutation / seeded-change runs redirect their outputs so that the committed evidence always stems from /repo itself
EVIDENCE_DIR = os.environ.get("VERIF_EVIDENCE_DIR") or os.path.join(VERIF, "evidence")
REPLAY_DIR = os.environ.get("VERIF_REPLAY_DIR") or os.path.join(VERIF, "replays")
FINDINGS_FILE = os.path.join(VERIF, "known_findings.json")
GUARD = "SKACTIVEML_VERIF"


def import_repo():
    """Make `import skactiveml` resolve to the current working tree."""
    os.environ.setdefault("PYTHONHASHSEED", "0")
    os.environ[GUARD] = "1"
    if sys.path[0] != REPO:
        sys.path.insert(0, REPO)
    import warnings

    warnings.filterwarnings("ignore")
    import skactiveml  # noqa: F401

    src = os.path.dirname(os.path.abspath(skactiveml.__file__))
    if not src.startswith(os.path.abspath(REPO)):
        raise tlc.MachineryError("skactiveml imported from %s, not from %s" % (src, REPO))


def load_findings():
    if not os.path.exists(FINDINGS_FILE):
        return {"findings": [], "fixed": []}
    with open(FINDINGS_FILE) as f:
        return json.load(f)


def jsonable(x):
    import numpy as np

    if isinstance(x, dict):
        return {str(k): jsonable(v) for k, v in x.items()}
    if isinstance(x, (list, tuple, set, frozenset)):
        return [jsonable(v) for v in x]
    if isinstance(x, np.ndarray):
        return jsonable(x.tolist())
    if isinstance(x, (np.integer,)):
        return int(x)
    if isinstance(x, (np.floating,)):
        x = float(x)
    if isinstance(x, float):
        if x != x:
            return "nan"
        if x in (float("inf"), float("-inf")):
            return "inf" if x > 0 else "-inf"
        return x
    if isinstance(x, (np.bool_,)):
        return bool(x)
    if isinstance(x, (str, int, bool)) or x is None:
        return x
    return repr(x)


def pmap(fn, items, jobs=None, chunksize=None):
    """Run fn over items in forked worker processes (the repository is
    imported before the fork); results keep the order of items."""
    import multiprocessing as mp

    items = list(items)
    jobs = jobs or min(16, os.cpu_count() or 1)
    if jobs <= 1 or len(items) < 4:
        return [fn(x) for x in items]
    ctx = mp.get_context("fork")
    with ctx.Pool(jobs) as pool:
        return pool.map(fn, items, chunksize or max(1, len(items) // (jobs * 8)))


class Check:
    """One run of one property's check."""

    def __init__(self, pid, tier="quick", seed=0):
        self.pid = pid
        self.tier = tier
        self.seed = seed
        self.t0 = time.time()
        self.states = 0
        self.transitions = 0
        self.traces = 0
        self.evaluations = 0
        self.nontrivial = set()
        self.samples = []
        self.violations = []       # (key, what, replay path)
        self.known_hits = {}       # key -> what
        self.mc_runs = []
        self.notes = []
        self.exhaustive = False
        self.extra = {}
        self.assumptions = []
        self.rule = ""
        # replay files of earlier runs of this property are stale
        if os.path.isdir(REPLAY_DIR) and not os.environ.get("VERIF_KEEP_REPLAYS"):
            for fn in os.listdir(REPLAY_DIR):
                if fn.startswith(pid + "-"):
                    try:
                        os.remove(os.path.join(REPLAY_DIR, fn))
                    except OSError:
                        pass
        fnd = load_findings()
        self.known = {f["key"]: f for f in fnd.get("findings", []) if f["property"] == pid}

    # ---- model checking / trace validation bookkeeping ---------------------
    def model_check(self, module, cfg=None, **kw):
        res = tlc.model_check(module, cfg, **kw)
        self.states += res.distinct
        self.transitions += res.generated
        self.mc_runs.append({"module": module, "cfg": cfg or module + ".cfg",
                             "distinct_states": res.distinct, "states_generated": res.generated,
                             "depth": res.depth, "wall_s": round(res.wall, 2)})
        return res

    def generate(self, module, cfg, **kw):
        res = tlc.generate(module, cfg, **kw)
        self.transitions += res.generated
        self.mc_runs.append({"module": module, "cfg": cfg, "generated_cases": len(res.json_lines),
                             "wall_s": round(res.wall, 2)})
        return res.json_lines

    def validate(self, module, traces, cfg=None, describe=None, key_of=None, **kw):
        """Validate recorded traces with TLC; every rejection becomes a
        violation (or a known finding).  describe(trace) -> replay payload,
        key_of(trace, rejection) -> finding key."""
        if not traces:
            return []
        rej, st = tlc.validate_traces(module, traces, cfg, **kw)
        self.states += st["distinct"]
        self.transitions += st["generated"]
        self.traces += st["validated"] - len(rej)
        self.mc_runs.append({"module": module, "cfg": cfg or module + ".cfg",
                             "traces": st["validated"], "rejected": len(rej),
                             "distinct_states": st["distinct"], "wall_s": round(st["wall"], 2)})
        for r in rej:
            tr = traces[r["index"]]
            key = key_of(tr, r) if key_of else "%s|%s" % (module, ",".join(r["failed_clauses"]) or "unmatched")
            what = "%s: trace rejected at event %d (%s), failed clauses: %s" % (
                tr.get("id", "?"), r["matched_events"] + 1,
                (r["offending_event"] or {}).get("ev", "end-of-trace"),
                ", ".join(r["failed_clauses"]) or "no action of the specification matches")
            payload = {"module": module, "cfg": cfg or module + ".cfg", "trace": tr, "rejection": r}
            if describe:
                payload["call"] = describe(tr)
            self.violation(key, what, payload)
        return rej

    # ---- verdict plumbing ---------------------------------------------------
    def violation(self, key, what, payload):
        if key in self.known:
            if key not in self.known_hits:
                self.known_hits[key] = self.known[key].get("what", what)
            return
        os.makedirs(REPLAY_DIR, exist_ok=True)
        blob = json.dumps(jsonable(payload), sort_keys=True)
        h = hashlib.sha1((key + blob).encode()).hexdigest()[:12]
        path = os.path.join(REPLAY_DIR, "%s-%s.json" % (self.pid, h))
        first_of_key = key not in {k for k, _, _ in self.violations}
        if first_of_key and len({k for k, _, _ in self.violations}) < 60:
            with open(path, "w") as f:
                json.dump({"property": self.pid, "key": key, "what": what,
                           "payload": jsonable(payload)}, f, indent=1)
        self.violations.append((key, what, path))

    def count(self, n=1):
        self.evaluations += n

    def case(self, token):
        """Register one distinct non-trivial abstract case."""
        self.nontrivial.add(token)

    def sample(self, s, limit=6):
        if len(self.samples) < limit:
            self.samples.append(jsonable(s))

    def finish(self):
        wall = time.time() - self.t0
        for key, what in sorted(self.known_hits.items()):
            print("KNOWN-FINDING: property=%s %s [%s]" % (self.pid, what, key))
        seen = set()
        for key, what, path in self.violations:
            if key in seen:
                continue
            seen.add(key)
            print("VIOLATION property=%s replay=%s" % (self.pid, path))
            print("  " + what)
        cov = {
            "states": self.states,
            "transitions": self.transitions,
            "traces_validated_against_impl": self.traces,
            "samples": self.samples or [{"note": "no sample recorded"}],
            "evaluations": self.evaluations,
            "distinct_nontrivial": len(self.nontrivial),
            "rule": self.rule,
            "exhaustive": self.exhaustive,
            "tlc_runs": self.mc_runs,
            "known_findings_hit": sorted(self.known_hits),
        }
        cov.update(self.extra)
        ev = {
            "property_id": self.pid,
            "tier": self.tier,
            "seed": int(self.seed),
            "level": "model_checking",
            "coverage": cov,
            "assumptions": self.assumptions,
            "wall_s": round(wall, 2),
            "violations": len(seen),
        }
        os.makedirs(EVIDENCE_DIR, exist_ok=True)
        with open(os.path.join(EVIDENCE_DIR, self.pid + ".json"), "w") as f:
            json.dump(ev, f, indent=1)
        print("%s %s: states=%d transitions=%d traces_ok=%d evaluations=%d distinct_nontrivial=%d "
              "known=%d violations=%d wall=%.1fs" % (
                  self.pid, self.tier, self.states, self.transitions, self.traces, self.evaluations,
                  len(self.nontrivial), len(self.known_hits), len(seen), wall))
        return 1 if seen else 0
