"""Exact traces of StreamDensityBasedAL for DensityTrace.tla: integer features
(the distance uses the first feature only), a stub classifier that turns the
second feature into prescribed class probabilities, an explicit budget manager
in the exact dyadic regime.  Nothing is judged here."""

import warnings
from fractions import Fraction

import numpy as np

from . import budget_common as bc

INF = 999999
KINDS = ["Fixed", "Variable", "DensitySplit", "RandomVariable"]


def _dist_first(A, B, **kw):
    from sklearn.metrics.pairwise import pairwise_distances

    return pairwise_distances(np.asarray(A, dtype=float)[:, :1], np.asarray(B, dtype=float)[:, :1])


def _stub():
    from skactiveml.base import SkactivemlClassifier

    class StubClassifier(SkactivemlClassifier):
        def __init__(self, classes=None, missing_label=np.nan, cost_matrix=None, random_state=None):
            super().__init__(classes=classes, missing_label=missing_label, cost_matrix=cost_matrix,
                             random_state=random_state)

        def fit(self, X, y, sample_weight=None):
            return self

        def predict_proba(self, X):
            p = np.asarray(X, dtype=float)[:, 1] / 16.0
            return np.stack([1 - p, p], axis=1)

    return StubClassifier(classes=[0, 1])


def util16(v):
    """utility the strategy derives from the stub's probabilities: 1 - |p1 - p0|"""
    return 16 - abs(16 - 2 * v)


def project(obj, kind, prm, ref):
    win = []
    for w in getattr(obj, "window_", []):
        f = float(np.asarray(w).ravel()[0])
        win.append(int(f) if f == int(f) else -1)
    md = []
    for m in getattr(obj, "min_dist_", []):
        m = float(m)
        md.append(INF if m == np.inf else (int(m) if m == int(m) else -1))
    mgr = bc.project(obj.budget_manager_ if hasattr(obj, "budget_manager_") else obj.budget_manager, kind, prm, ref)
    return {"win": win, "md": md, "mgr": mgr}


def record(kind, prm, ws, xs, vs, cuts, twice, seed):
    from skactiveml.stream import StreamDensityBasedAL

    b = float(Fraction(*prm["B"]))
    ref = bc.RefStream(seed, 2 * len(xs) + 4, b, prm["v"]) if kind in bc.RNG_OBJ_KINDS else None
    obj = StreamDensityBasedAL(dist_func=_dist_first, window_size=ws, budget_manager=bc.make(kind, prm, seed),
                               random_state=seed + 1)
    clf = _stub()
    P = {k: prm[k] for k in ("kind", "W", "B", "S", "Theta0", "K", "WTol", "Allow", "Stale", "Sharp")}
    events = []
    for cx, cv in zip(bc.chunks_of(xs, cuts), bc.chunks_of(vs, cuts)):
        cand = np.array([[float(x), float(v)] for x, v in zip(cx, cv)])
        us = [bc.util_rat(util16(v)) for v in cv]
        expect = np.array([util16(v) / 16.0 for v in cv])
        res = None
        for _ in range(2 if twice else 1):
            ev = {"ev": "Query", "xs": [int(x) for x in cx], "us": us}
            try:
                with warnings.catch_warnings():
                    warnings.simplefilter("ignore")
                    res, ut = obj.query(cand.copy(), clf=clf, return_utilities=True)
                ua = np.asarray(ut, dtype=float)
                ev["nutil"] = int(len(ua)) if (ua.shape == expect.shape and bool(np.all(ua == expect))) else -1
                r = np.asarray(res)
                if r.ndim != 1 or (r.size and r.dtype.kind not in "iu"):
                    ev = {"ev": "QueryMalformed", "shape": list(r.shape)}
                else:
                    ev["res"] = [int(i) + 1 for i in r]
                    ev["st"] = project(obj, kind, prm, ref)
            except Exception as ex:
                ev = {"ev": "QueryRaised", "exc": "%s: %s" % (type(ex).__name__, str(ex)[:160])}
            events.append(ev)
            if ev["ev"] != "Query":
                break
        if events[-1]["ev"] != "Query":
            break
        ev = {"ev": "Update", "xs": [int(x) for x in cx], "us": us, "q": [int(i) + 1 for i in np.asarray(res)]}
        try:
            with warnings.catch_warnings():
                warnings.simplefilter("ignore")
                obj.update(cand.copy(), np.asarray(res, dtype=int))
            ev["st"] = project(obj, kind, prm, ref)
        except Exception as ex:
            ev = {"ev": "UpdateRaised", "exc": "%s: %s" % (type(ex).__name__, str(ex)[:160])}
        events.append(ev)
        if ev["ev"] != "Update":
            break
    return {"id": "StreamDensityBasedAL:%s/ws%d/W%d/B%d_%d/x%s/v%s/cuts%s/%s/seed%d" % (
        kind, ws, prm["W"], prm["B"][0], prm["B"][1], list(xs), list(vs), sorted(cuts),
        "twice" if twice else "once", seed),
        "P": P, "ws": ws, "rnd": ref.rnd if (ref is not None and kind in bc.RND_KINDS) else [], "events": events,
        "concrete": {"strategy": "StreamDensityBasedAL", "manager_kind": kind, "params": prm, "window_size": ws,
                     "features": list(xs), "proba_sixteenths": list(vs), "cuts": sorted(cuts), "twice": bool(twice),
                     "seed": seed, "how": "harness.drivers.density_common.record(...)"}}


def finding_key(tr, rej):
    ev = (rej["offending_event"] or {}).get("ev", "end")
    head = tr["id"].split("/")[0]
    if head.startswith("CognitiveDualQueryStrategy(filter)"):
        head = "CognitiveDualQueryStrategy(force_full_budget=False)"     # (one defect, whatever the manager kind)
    return "%s|%s|%s" % (head, ev, ",".join(rej["failed_clauses"]) or "unmatched")


# --------------------------------------------------------------------------
# CognitiveDualQueryStrategy (force_full_budget=True) for CognitiveTrace.tla
def _stub_max():
    from skactiveml.base import SkactivemlClassifier

    class StubClassifier(SkactivemlClassifier):
        def __init__(self, classes=None, missing_label=np.nan, cost_matrix=None, random_state=None):
            super().__init__(classes=classes, missing_label=missing_label, cost_matrix=cost_matrix,
                             random_state=random_state)

        def fit(self, X, y, sample_weight=None):
            return self

        def predict_proba(self, X):
            p = np.asarray(X, dtype=float)[:, 1] / 16.0
            return np.stack([1 - p, p], axis=1)

    return StubClassifier(classes=[0, 1])


def project_cog(obj, kind, prm, ref):
    def ints(seq, inf_ok=False):
        out = []
        for v in seq:
            f = float(np.asarray(v).ravel()[0])
            if inf_ok and f == np.inf:
                out.append(INF)
            else:
                out.append(int(f) if f == int(f) else -1)
        return out

    win = {"cw": ints(getattr(obj, "cognition_window_", [])), "md": ints(getattr(obj, "min_dist_", []), True),
           "th": ints(getattr(obj, "theta_", [])), "tx": ints(getattr(obj, "t_x_", [])),
           "t": int(getattr(obj, "t_", 0))}
    mgr = bc.project(obj.budget_manager_ if hasattr(obj, "budget_manager_") else obj.budget_manager, kind, prm, ref)
    return {"win": win, "mgr": mgr}


def record_cognitive(kind, prm, cws, thr, xs, vs, cuts, twice, seed, full=True):
    from skactiveml.stream import CognitiveDualQueryStrategy

    b = float(Fraction(*prm["B"]))
    ref = bc.RefStream(seed, 2 * len(xs) + 4, b, prm["v"]) if kind in bc.RNG_OBJ_KINDS else None
    obj = CognitiveDualQueryStrategy(force_full_budget=bool(full), dist_func=_dist_first, density_threshold=thr,
                                     cognition_window_size=cws, budget_manager=bc.make(kind, prm, seed),
                                     random_state=seed + 1)
    clf = _stub_max()
    P = {k: prm[k] for k in ("kind", "W", "B", "S", "Theta0", "K", "WTol", "Allow", "Stale", "Sharp")}
    events = []
    for cx, cv in zip(bc.chunks_of(xs, cuts), bc.chunks_of(vs, cuts)):
        cand = np.array([[float(x), float(v)] for x, v in zip(cx, cv)])
        u16 = [min(v, 16 - v) for v in cv]
        us = [bc.util_rat(u) for u in u16]
        expect = np.array([u / 16.0 for u in u16])
        res = None
        for _ in range(2 if twice else 1):
            ev = {"ev": "Query", "xs": [int(x) for x in cx], "us": us}
            try:
                with warnings.catch_warnings():
                    warnings.simplefilter("ignore")
                    res, ut = obj.query(cand.copy(), clf=clf, return_utilities=True)
                ua = np.asarray(ut, dtype=float)
                ev["nutil"] = int(len(ua)) if (ua.shape == expect.shape and bool(np.all(ua == expect))) else -1
                r = np.asarray(res)
                if r.ndim != 1 or (r.size and r.dtype.kind not in "iu"):
                    ev = {"ev": "QueryMalformed", "shape": list(r.shape)}
                else:
                    ev["res"] = [int(i) + 1 for i in r]
                    ev["st"] = project_cog(obj, kind, prm, ref)
            except Exception as ex:
                ev = {"ev": "QueryRaised", "exc": "%s: %s" % (type(ex).__name__, str(ex)[:160])}
            events.append(ev)
            if ev["ev"] != "Query":
                break
        if events[-1]["ev"] != "Query":
            break
        ev = {"ev": "Update", "xs": [int(x) for x in cx], "us": us, "q": [int(i) + 1 for i in np.asarray(res)]}
        try:
            with warnings.catch_warnings():
                warnings.simplefilter("ignore")
                obj.update(cand.copy(), np.asarray(res, dtype=int))
            ev["st"] = project_cog(obj, kind, prm, ref)
        except Exception as ex:
            ev = {"ev": "UpdateRaised", "exc": "%s: %s" % (type(ex).__name__, str(ex)[:160]),
                  "xs": [int(x) for x in cx], "us": us, "q": [int(i) + 1 for i in np.asarray(res)]}
        events.append(ev)
        if ev["ev"] != "Update":
            break
    return {"id": "CognitiveDualQueryStrategy(%s):%s/cws%d/thr%d/W%d/B%d_%d/x%s/v%s/cuts%s/%s/seed%d" % (
        "full" if full else "filter", kind, cws, thr, prm["W"], prm["B"][0], prm["B"][1], list(xs), list(vs),
        sorted(cuts), "twice" if twice else "once", seed),
        "P": P, "cws": cws, "thr": thr, "full": bool(full), "rnd": ref.rnd if (ref is not None and kind in bc.RND_KINDS) else [],
        "events": events,
        "concrete": {"strategy": "CognitiveDualQueryStrategy(force_full_budget=%s)" % bool(full), "manager_kind": kind,
                     "params": prm, "cognition_window_size": cws, "density_threshold": thr, "features": list(xs),
                     "proba_sixteenths": list(vs), "cuts": sorted(cuts), "twice": bool(twice), "seed": seed,
                     "how": "harness.drivers.density_common.record_cognitive(...)"}}
