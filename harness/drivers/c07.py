"""C07 - multi-annotator queries return distinct, available pairs.

(M) MC_MultiAnnot: validate / rank / assign / pick state machine of the
    single-annotator wrapper for all availability matrices up to 3x2, batch
    sizes and preferences: PairsOK, PerSampleOK, termination (WF); the
    code-shaped deviation RankAny must violate Termination.
(G) MultiAnnotGen: TLC enumerates the ways of specifying candidates x
    annotators and draws label-missing patterns / availability matrices.
(T) every call of SingleAnnotatorWrapper (around cheap inner strategies, with
    A_perf None / per annotator / per pair) and IntervalEstimationThreshold
    becomes a trace validated by MultiAnnotTrace.
"""

import warnings

import numpy as np

from .. import abstraction as ab
from .. import tlc, zoo
from ..core import Check, import_repo, pmap
from . import pool_common as pc

# compatible inner strategies: they score samples independently and accept
# index candidates that already carry a (majority-vote) label - the wrapper
# hands every sample with a missing annotator label to the inner strategy
INNER = ["RandomSampling", "UncertaintySampling(entropy)", "ProbabilisticAL",
         "QueryByCommittee(vote_entropy)", "EpistemicUncertaintySampling", "UncertaintySampling(margin_sampling)",
         "UncertaintySampling(least_confident)", "GreedyBALD"]
ENTRIES = {}


def concretise(sc, seed):
    rng = np.random.RandomState(seed)
    ns, na = sc["ns"], sc["na"]
    X = rng.normal(size=(ns, 2)).round(3)
    missing = {tuple(p) for p in sc["missing"]}
    y = np.array([[np.nan if (s + 1, a + 1) in missing else float(rng.randint(2)) for a in range(na)]
                  for s in range(ns)])
    C = sorted(sc["C"])
    cmode, amode = sc["cmode"], sc["amode"]
    if cmode == "none":
        candidates, rows = None, list(range(1, ns + 1))
    elif cmode == "idx":
        candidates, rows = [c - 1 for c in C], C
    else:
        candidates, rows = X[[c - 1 for c in C]].copy(), C
        if seed % 3 == 0 and len(C) >= 2:
            # repeated feature rows: every row is still a candidate of its own (pairs are counted per row)
            candidates[1:] = candidates[0]
    nrows_arg = ns if cmode == "none" else len(C)
    if amode == "none":
        annotators = None
        if cmode == "none":
            avail_rc = {(s, a) for (s, a) in missing}
        else:
            avail_rc = {(r, a) for r in range(1, nrows_arg + 1) for a in range(1, na + 1)}
    elif amode == "idx":
        A1 = sorted(sc["A1"])
        annotators = [a - 1 for a in A1]
        avail_rc = {(r, a) for r in range(1, nrows_arg + 1) for a in A1}
    else:
        m = np.zeros((nrows_arg, na), dtype=bool)
        for r, a in sc["mask"]:
            m[r - 1, a - 1] = True
        annotators = m
        avail_rc = {(r, a) for r, a in map(tuple, sc["mask"])}
    # abstract rows: sample ids (None / index candidates) or row numbers (feature rows)
    if cmode == "idx":
        avail = sorted((C[r - 1], a) for r, a in avail_rc)
        n_rows = ns
    elif cmode == "rows":
        avail = sorted(avail_rc)
        n_rows = len(C)
    else:
        avail = sorted(avail_rc)
        n_rows = ns
    return {"X": X, "y": y, "candidates": candidates, "annotators": annotators, "avail": [list(p) for p in avail],
            "n_rows": n_rows, "na": na}


def events_of(res, return_utilities, n_rows, na):
    events = [{"ev": "Validate"}]
    if return_utilities:
        if not (isinstance(res, tuple) and len(res) == 2):
            return events + [{"ev": "MalformedResult"}]
        q, u = res
    else:
        q, u = res, None
    qa = np.asarray(q)
    if qa.ndim != 2 or qa.shape[1] != 2 or (qa.size and qa.dtype.kind not in "iu"):
        return events + [{"ev": "MalformedIndices", "shape": list(qa.shape), "dtype": str(qa.dtype)}]
    rows = None
    if u is not None:
        ua = np.asarray(u)
        if ua.ndim != 3 or ua.dtype.kind != "f":
            return events + [{"ev": "MalformedUtilities", "shape": list(ua.shape)}]
        rows = ab.signed_ranks(*[r for r in ua]) if len(ua) else []
        if len(ua) and ua.shape[1:] != (n_rows, na):
            rows = [r[: 1] for r in rows]  # wrong shape: the shape clause rejects it
    for i, (s, a) in enumerate(qa):
        row = rows[i] if (rows is not None and i < len(rows)) else []
        events.append({"ev": "Pair", "s": int(s) + 1, "a": int(a) + 1, "row": row})
    events.append({"ev": "Finish", "n": int(len(qa)), "nrows": -1 if u is None else int(len(np.asarray(u)))})
    return events


def run_case(kind, inner_name, sc, seed, aperf_kind, ret_u):
    from skactiveml.pool.multiannotator import IntervalEstimationThreshold, SingleAnnotatorWrapper

    conc = concretise(sc, seed)
    rng = np.random.RandomState(seed + 1)
    n_rows, na = conc["n_rows"], conc["na"]
    adaptive = False
    pref = int(sc["pref"])
    prefs = []
    kw = {}
    # one third of the calls encode the missing labels with a reserved number (set consistently on the
    # strategy, the wrapped strategy and the models): the available pairs must be the same
    ml = -1 if seed % 3 == 0 else np.nan
    if kind == "wrapper":
        e = ENTRIES[inner_name]
        inner = e.make(seed, ml, (0, 1))
        qs = SingleAnnotatorWrapper(inner, missing_label=ml, random_state=seed)
        kw.update(zoo.model_kwargs(e, ml, (0, 1), seed=seed))
        # one third of the calls pass the request as an array (entry k for the k-th ranked sample, the last
        # entry for all further ones)
        if rng.rand() < 0.34:
            prefs = [int(v) for v in rng.randint(1, na + 1, size=int(rng.randint(1, 4)))]
            pref = prefs[0]
            kw["n_annotators_per_sample"] = np.array(prefs)
        else:
            prefs = []
            kw["n_annotators_per_sample"] = pref
        kw["batch_size"] = int(sc["bs"])
        n_cand = len(conc["candidates"]) if conc["candidates"] is not None else sc["ns"]
        # annotator performances on three scales: accuracies in [0, 1) / negative scores with a spread above 1
        # (log-likelihoods) / large positive scores
        scale = (lambda a: a, lambda a: -4.0 * a - 0.05, lambda a: 1.0 + 9.0 * a)[seed % 3]
        if aperf_kind == "annot":
            kw["A_perf"] = scale(rng.rand(na))
        elif aperf_kind == "pair":
            kw["A_perf"] = scale(rng.rand(n_cand, na))
        bs = int(sc["bs"])
    else:
        qs = IntervalEstimationThreshold(missing_label=ml, random_state=seed)
        from skactiveml.classifier.multiannotator import AnnotatorLogisticRegression

        kw["clf"] = AnnotatorLogisticRegression(classes=[0, 1], missing_label=ml, random_state=seed, max_iter=5)
        pref = 0
        if sc["bs"] == 10:
            kw["batch_size"] = "adaptive"
            adaptive = True
            bs = 1
        else:
            kw["batch_size"] = int(sc["bs"])
            bs = int(sc["bs"])
    cand = conc["candidates"]
    ann = conc["annotators"]
    try:
        with warnings.catch_warnings():
            warnings.simplefilter("ignore")
            with np.errstate(all="ignore"):
                with pc.time_limit(6):
                    res = qs.query(conc["X"].copy(), conc["y"].copy() if ml != ml else np.where(np.isnan(conc["y"]), ml, conc["y"]),
                                   candidates=None if cand is None else np.array(cand),
                                   annotators=None if ann is None else np.array(ann),
                                   return_utilities=ret_u, **kw)
        events = events_of(res, ret_u, n_rows, na)
    except pc.Hang as ex:
        events = [{"ev": "Validate"}, {"ev": "Hang", "exc": str(ex)}]
    except Exception as ex:
        events = [{"ev": "Validate"}, {"ev": "Raised", "exc": "%s: %s" % (type(ex).__name__, str(ex)[:160])}]
    name = "SingleAnnotatorWrapper(%s)" % inner_name if kind == "wrapper" else "IntervalEstimationThreshold"
    return {"id": "%s/%s-%s/ns%d-na%d/bs%s/pref%s/aperf=%s/seed%d" % (
        name, sc["cmode"], sc["amode"], sc["ns"], sc["na"], kw.get("batch_size"), prefs or pref, aperf_kind, seed),
        "ns": n_rows, "na": na, "avail": conc["avail"], "bs": bs, "pref": pref, "prefs": prefs, "adaptive": adaptive,
        "events": events,
        "concrete": {"strategy": name, "scenario": sc, "seed": seed, "A_perf": aperf_kind, "return_utilities": ret_u,
                     "n_annotators_per_sample": prefs or pref, "missing_label": "nan" if ml != ml else ml,
                     "X": conc["X"].tolist(), "y": [["nan" if v != v else v for v in r] for r in conc["y"].tolist()],
                     "candidates": cand if not isinstance(cand, np.ndarray) else cand.tolist(),
                     "annotators": ann if not isinstance(ann, np.ndarray) else ann.tolist(),
                     "how": "harness.drivers.c07.run_case(kind, inner, scenario, seed, A_perf, return_utilities)"}}


def _job(arg):
    return run_case(*arg)


def n_avail(sc):
    return len(concretise(sc, 0)["avail"])


def finding_key(tr, rej):
    oe = rej["offending_event"] or {}
    name = tr["id"].split("/")[0]
    if name.startswith("SingleAnnotatorWrapper"):
        name = "SingleAnnotatorWrapper"
    why = ",".join(rej["failed_clauses"]) or ("%s:%s" % (oe.get("ev", "end"), str(oe.get("exc", "")).split(":")[0]))
    # configuration class: how complete the availability rows of the call are
    per_row = {}
    for s_, a_ in tr["avail"]:
        per_row[s_] = per_row.get(s_, 0) + 1
    n_rows_with = len(per_row)
    if name == "SingleAnnotatorWrapper":
        cls = "some-row-without-available-annotator" if n_rows_with < tr["ns"] else "every-row-has-an-annotator"
    else:
        cls = ("some-row-partially-available" if any(c < tr["na"] for c in per_row.values())
               else "rows-fully-available")
    return "%s|%s|%s" % (name, cls, why)


def main(tier="quick", seed=0):
    chk = Check("C07", tier, seed)
    import_repo()
    quick = tier == "quick"
    rng = np.random.default_rng(seed + 7)
    ENTRIES.update({e.name: e for e in zoo.entries()})
    chk.model_check("MultiAnnot", "MC_MultiAnnot.cfg")
    dev = tlc.run_tlc("MultiAnnot", "MC_MultiAnnot_dev.cfg", timeout=600)
    if not any("Termination" in e for e in dev.errors):
        raise tlc.MachineryError("the RankAny deviation of MultiAnnot.tla does not violate Termination")
    chk.notes.append("deviation RankAny=TRUE violates Termination (expected)")
    scenarios = chk.generate("MultiAnnotGen", "MultiAnnotGen.cfg", extra=("-seed", str(seed + 1)))
    scenarios = [s for s in scenarios if n_avail(s) >= 1]
    # larger pools (4-5 samples): an array of per-sample requests shorter than the number of ranked samples
    big = [s for s in chk.generate("MultiAnnotGen", "MultiAnnotGen5.cfg", extra=("-seed", str(seed + 2)))
           if s["ns"] >= 4 and n_avail(s) >= 1]
    jobs = []
    for n_, i in enumerate(rng.choice(len(big), size=min(500 if quick else 6000, len(big)), replace=False)):
        sc = big[int(i)]
        inner = INNER[n_ % len(INNER)]
        if sc["cmode"] == "rows" and not ENTRIES[inner].rows:
            inner = "RandomSampling"
        jobs.append(("wrapper", inner, sc, int(rng.integers(0, 1000)), ("none", "annot", "pair")[n_ % 3], bool(n_ % 2)))
    n_wr = 1500 if quick else 20000
    for n_, i in enumerate(rng.choice(len(scenarios), size=min(n_wr, len(scenarios)), replace=False)):
        sc = scenarios[int(i)]
        inner = INNER[n_ % len(INNER)]
        if sc["cmode"] == "rows" and not ENTRIES[inner].rows:
            inner = "RandomSampling"
        jobs.append(("wrapper", inner, sc, int(rng.integers(0, 1000)), ("none", "annot", "pair")[n_ % 3], bool(n_ % 2)))
    for n_, i in enumerate(rng.choice(len(scenarios), size=min(n_wr // 3, len(scenarios)), replace=False)):
        jobs.append(("iet", "-", scenarios[int(i)], int(rng.integers(0, 1000)), "none", bool(n_ % 2)))
    traces = pmap(_job, jobs, chunksize=8)
    chk.count(len(traces))
    for t in traces:
        if len(t["avail"]) >= 2:
            chk.case((t["id"].rsplit("/", 1)[0], tuple(map(tuple, t["avail"]))))
    chk.sample({"trace": {k: v for k, v in traces[0].items() if k != "concrete"}})
    chk.sample({"call": traces[0]["concrete"]})
    chk.rule = ("scenarios from MultiAnnotGen (2-3 and 4-5 samples x 2-3 annotators, TLC-drawn label-missing patterns and "
                "availability matrices, 3 candidate modes x 3 annotator modes (every third feature-row call with repeated rows), batch sizes {1,2,3,5,10}, "
                "n_annotators_per_sample 1..n_annotators), executed on SingleAnnotatorWrapper around %d inner "
                "strategies with A_perf None/per-annotator/per-pair and on IntervalEstimationThreshold (batch size 10 "
                "stands for 'adaptive'); non-trivial = at least two available pairs" % len(INNER))
    chk.validate("MultiAnnotTrace", traces, key_of=finding_key, describe=lambda t: t["concrete"])
    chk.assumptions = ["utility slices are abstracted to ranks; only 'NaN at unavailable and earlier pairs' and 'the "
                       "chosen pair has a number' are demanded of them",
                       "n_annotators_per_sample is checked as: pairs of a sample are consecutive, never exceed its "
                       "available annotators, and every sample with at least the requested number of available "
                       "annotators, except the last sample of the batch, receives at least the requested number",
                       "non-termination is observed with a 6 s watchdog (calls normally take milliseconds)"]
    return chk.finish()


def replay(rep):
    import json

    import_repo()
    ENTRIES.update({e.name: e for e in zoo.entries()})
    c = rep["payload"]["trace"]["concrete"]
    kind = "iet" if c["strategy"] == "IntervalEstimationThreshold" else "wrapper"
    inner = c["strategy"][len("SingleAnnotatorWrapper("):-1] if kind == "wrapper" else "-"
    tr = run_case(kind, inner, c["scenario"], c["seed"], c["A_perf"], c["return_utilities"])
    print(json.dumps({k: v for k, v in tr.items() if k != "concrete"})[:3000])
    print(json.dumps({k: tr["concrete"][k] for k in ("X", "y", "candidates", "annotators")}))
    rej, _ = tlc.validate_traces("MultiAnnotTrace", [tr])
    if rej:
        print("REJECTED:", rej[0]["failed_clauses"], rej[0]["offending_event"])
        print("VIOLATION property=C07 replay=(this file)")
        return 1
    print("ACCEPTED")
    return 0
