"""C12 - unlabeled samples do not influence supervised models.

(M) TLC checks FitModel exhaustively: every single fit over all small data
    sets (MC_FitModel_c12.cfg) satisfies FitIgnoresUnlabeled; the code-shaped
    deviation FitOnAll (unlabeled rows reach the learner) must violate it.
(G) TLC enumerates pairs (D, E) of data sets with equal labeled part
    (FitModel_gen*.cfg: unlabeled samples dropped / added, weights of missing
    entries changed, rows permuted, labeled-subset-only).
(T) both data sets are fitted on two fresh objects of the real estimators;
    band-encoded predictions on fixed probe points are logged as the two Fit
    events of one trace.  FitModelTrace recomputes the abstract models from
    the logged data sets, finds that they are equal and requires the
    predictions to agree.  Nothing is compared in Python.

This module also holds the helpers shared with c13.py (parameter digests,
concretisation of abstract data sets, prediction encoding).
"""

import json
import warnings
from collections import deque

import numpy as np

from .. import abstraction as ab
from .. import tlc
from ..core import Check, import_repo, pmap

SCALE = 2 ** 20
BAND = 64          # 64 / 2^20 ~ 6e-5 absolute; measured permutation noise <= 3e-9
NAN_CODE = 10 ** 9
CLIP = 5 * 10 ** 8
MISSING = -1
PROBES = np.array([[0.5, 0.5], [3.0, 1.0], [5.0, -1.0], [-1.0, 2.0]])


# --------------------------------------------------------------------------
# abstraction helpers (shared with c13)
class Ids:
    """hex digests -> small integers, per trace"""

    def __init__(self):
        self.m = {}

    def __call__(self, h):
        if h not in self.m:
            self.m[h] = len(self.m) + 1
        return self.m[h]


def encode(values):
    """floats -> band-encoded integers (round(x * 2^20)), NaN and overflow get
    reserved codes so that TLC never sees a float"""
    out = []
    for v in np.asarray(values, dtype=float).ravel():
        if v != v:
            out.append(NAN_CODE)
        else:
            s = v * SCALE
            out.append(CLIP if s > CLIP else -CLIP if s < -CLIP else int(round(s)))
    return out


def canon(v, depth=0):
    """canonical, content-based form of a parameter value"""
    from sklearn.base import BaseEstimator

    if isinstance(v, dict):
        return {str(k): canon(x, depth) for k, x in v.items()}
    if isinstance(v, BaseEstimator) and depth < 4:
        return ("est", type(v).__name__,
                {k: canon(x, depth + 1) for k, x in sorted(v.get_params(deep=False).items())})
    if isinstance(v, deque):
        return ("deque", v.maxlen, [canon(x, depth) for x in v])
    if isinstance(v, (list, tuple)):
        return [canon(x, depth) for x in v]
    if isinstance(v, (np.ndarray, np.random.RandomState)):
        return v
    if isinstance(v, np.generic):
        return v.item()
    if isinstance(v, (str, int, float, bool)) or v is None:
        return v
    if callable(v):
        return ("callable", getattr(v, "__qualname__", type(v).__name__))
    return ("object", type(v).__name__)


def param_digests(obj):
    """[(name, digest)] of every get_params(deep=True) entry: dict-valued
    parameters by content, estimator-valued ones by class and parameters"""
    return [(k, ab.digest(canon(v))) for k, v in sorted(obj.get_params(deep=True).items())]


def object_digest(o):
    """digest of a caller-owned object: dicts / arrays / lists by content,
    estimators by class, parameters and every instance attribute"""
    from sklearn.base import BaseEstimator

    if isinstance(o, BaseEstimator):
        return ab.digest(("state", type(o).__name__, canon(o),
                          {k: canon(x, 1) for k, x in sorted(vars(o).items())}))
    return ab.digest(canon(o))


def observe(obj, owned, ids):
    """(pids, dids) after a call; owned = [(name, object)]"""
    return ([ids("p:" + k + ":" + h) for k, h in param_digests(obj)],
            [ids("d:" + k + ":" + object_digest(o)) for k, o in owned])


def owned_of_clone(clone, owned):
    """the clone's own copies of the objects the caller handed to the prototype"""
    p = clone.get_params(deep=True)
    return [(k, p[k]) for k, _ in owned if k in p]


class Table:
    """concretisation of abstract samples: id -> feature vector / regression
    targets.  Features are distinct in every coordinate (no duplicated
    points), dyadic, small; regression targets are small integers."""

    def __init__(self, seed, n_ids=6):
        rng = np.random.RandomState(seed)
        base = np.array([[0, 2], [1, -1], [2.5, 0.5], [4, 3], [6, -2], [7.5, 1.5]], dtype=float)
        order = rng.permutation(len(base))
        jitter = rng.randint(-1, 2, size=base.shape) / 8.0
        self.X = {i + 1: base[order[i]] + jitter[i] for i in range(n_ids)}
        self.Y = {i + 1: [float(v) for v in rng.choice(np.arange(-3, 5), size=2, replace=False)]
                  for i in range(n_ids)}

    def data(self, D, task, n_annot=1):
        """abstract data set -> (X, y, w) for the given task"""
        n = len(D)
        X = np.array([self.X[s[0]] for s in D], dtype=float).reshape(n, 2)
        if task == "multi":
            y = np.full((n, n_annot), np.nan)
            w = np.ones((n, n_annot))
            for r, s in enumerate(D):
                for a in range(n_annot):
                    if s[1][a] != MISSING:
                        y[r, a] = s[1][a]
                    w[r, a] = s[2][a]
            return X, y, w
        y = np.full(n, np.nan)
        w = np.ones(n)
        for r, s in enumerate(D):
            if s[1][0] != MISSING:
                y[r] = s[1][0] if task == "clf" else self.Y[s[0]][s[1][0]]
            w[r] = s[2][0]
        return X, y, w


def predictions(obj, task):
    """band-encoded observable behaviour of a fitted object on the probes"""
    with warnings.catch_warnings():
        warnings.simplefilter("ignore")
        if task in ("clf", "multi"):
            out = [np.asarray(obj.predict_proba(PROBES), dtype=float)]
            if out[0].ndim != 2 or out[0].shape[0] != len(PROBES):
                raise ValueError("malformed predict_proba output %r" % (out[0].shape,))
            if hasattr(type(obj), "predict_freq"):
                try:
                    out.append(np.asarray(obj.predict_freq(PROBES), dtype=float))
                except (AttributeError, TypeError):
                    pass
        else:
            try:
                m, s = obj.predict(PROBES, return_std=True)
                out = [np.asarray(m, dtype=float), np.asarray(s, dtype=float)]
            except TypeError:
                out = [np.asarray(obj.predict(PROBES), dtype=float)]
            if out[0].shape != (len(PROBES),):
                raise ValueError("malformed predict output %r" % (out[0].shape,))
    return encode(np.concatenate([o.ravel() for o in out]))


class Bare:
    """the wrapped scikit-learn estimator driven directly (no wrapper): fit / partial_fit on the labeled rows of the
    same calls.  It is the documented meaning of the wrappers ("missing labels are ignored", partial_fit "partially
    fits the estimator"); its predictions go into the trace (`base`) and TLC compares them with the wrapper's."""

    def __init__(self, est, task, pretrained=False):
        import copy

        from sklearn.base import clone

        # pretrained: the wrapped estimator was fitted by the caller; partial_fit continues from that state and the
        # reference is compared from the first successful training call on
        self.pretrained = pretrained
        self.proto, self.task = (copy.deepcopy(est) if pretrained else clone(est)), task
        self.obj, self.ok, self.dead = None, False, False

    def step(self, op, X, y, w, use_weights):
        from sklearn.base import clone
        from sklearn.utils.validation import has_fit_parameter

        lab = ~np.isnan(np.asarray(y, dtype=float))
        if op == "Fit" or self.obj is None:
            import copy

            # (the wrapper starts every fit from a deep copy of its estimator parameter: a fit without labels leaves
            #  that copy - for a pretrained estimator the pretrained state - to a later partial_fit)
            self.obj = copy.deepcopy(self.proto) if self.pretrained else clone(self.proto)
            self.ok, self.dead = False, False
        if self.dead or not lab.any():
            return
        kw = {}
        if use_weights and has_fit_parameter(self.obj, "sample_weight"):
            kw["sample_weight"] = np.asarray(w, dtype=float)[lab]
        yy = np.asarray(y)[lab].astype(int) if self.task == "clf" else np.asarray(y, dtype=float)[lab]
        try:
            with warnings.catch_warnings():
                warnings.simplefilter("ignore")
                if op == "Fit":
                    self.obj.fit(X[lab], yy, **kw)
                else:
                    if self.task == "clf":
                        kw["classes"] = np.array([0, 1])
                    self.obj.partial_fit(X[lab], yy, **kw)
            self.ok = True
        except Exception:
            self.ok, self.dead = False, True     # unspecified until the next fit

    def pred(self):
        """band-encoded predictions, [] when the wrapped estimator has nothing to say"""
        if not self.ok:
            return []
        try:
            if self.task != "clf":
                return predictions(self.obj, self.task)
            with warnings.catch_warnings():
                warnings.simplefilter("ignore")
                P = np.asarray(self.obj.predict_proba(PROBES), dtype=float)
            full = np.zeros((len(PROBES), 2))
            cls = [int(c) for c in self.obj.classes_]
            if P.shape[1] == 1:
                full[:, cls[0]] = 1.0
            else:
                for j, c in enumerate(cls):
                    full[:, c] = P[:, j]
            if np.isnan(full).any():
                return []
            return encode(full.ravel())
        except Exception:
            return []


def train(obj, op, X, y, w, use_weights):
    with warnings.catch_warnings():
        warnings.simplefilter("ignore")
        fn = obj.fit if op == "Fit" else obj.partial_fit
        if use_weights:
            fn(X, y, sample_weight=w)
        else:
            fn(X, y)


def exc_text(ex):
    return "%s: %s" % (type(ex).__name__, str(ex)[:160])


RAISED_CODE = -999999937


def raised_outcome(ex, ids):
    """a call that raises is an observable outcome of its own: it is logged in
    place of the predictions so that TLC compares it with the outcome of the
    other fit (same exception class = same behaviour, a fit that raises vs. a
    fit that returns = different behaviour)"""
    return [RAISED_CODE, ids("x:" + type(ex).__name__)]


# --------------------------------------------------------------------------
# the estimators named by the property
def c12_configs():
    from sklearn.gaussian_process import GaussianProcessRegressor
    from sklearn.linear_model import BayesianRidge, LinearRegression, LogisticRegression, SGDClassifier
    from sklearn.naive_bayes import GaussianNB
    from sklearn.tree import DecisionTreeClassifier, DecisionTreeRegressor

    from skactiveml.classifier import ParzenWindowClassifier, SklearnClassifier
    from skactiveml.classifier.multiannotator import AnnotatorLogisticRegression
    from skactiveml.regressor import (NadarayaWatsonRegressor, NICKernelRegressor, SklearnNormalRegressor,
                                      SklearnRegressor)

    def c(name, make, task, weights=True, order_free=True, min_labeled=0, reason="", ml=np.nan):
        return dict(name=name, make=make, task=task, weights=weights, order_free=order_free,
                    min_labeled=min_labeled, reason=reason, ml=ml)

    return [
        c("SklearnClassifier(GaussianNB)",
          lambda: SklearnClassifier(GaussianNB(), classes=[0, 1], random_state=0), "clf"),
        c("SklearnClassifier(GaussianNB,classes=None)",
          lambda: SklearnClassifier(GaussianNB(), random_state=0), "clf", min_labeled=1,
          reason="without classes at least one label is a documented precondition"),
        c("SklearnClassifier(LogisticRegression)",
          lambda: SklearnClassifier(LogisticRegression(), classes=[0, 1], random_state=0), "clf"),
        c("SklearnClassifier(DecisionTreeClassifier)",
          lambda: SklearnClassifier(DecisionTreeClassifier(random_state=0), classes=[0, 1], random_state=0), "clf"),
        c("SklearnClassifier(SGDClassifier)",
          lambda: SklearnClassifier(SGDClassifier(loss="log_loss", random_state=0), classes=[0, 1],
                                    random_state=0), "clf", order_free=False,
          reason="SGD visits the rows in a seeded order: a permutation of the labeled rows legitimately "
                 "changes the model, only add / remove / reweight relations are generated"),
        # estimators that keep state across their own fit calls: the wrapper must start every fit from a fresh copy
        c("SklearnClassifier(LogisticRegression(warm_start=True,max_iter=3))",
          lambda: SklearnClassifier(LogisticRegression(warm_start=True, max_iter=3), classes=[0, 1], random_state=0),
          "clf"),
        c("SklearnClassifier(DecisionTreeClassifier(random_state=RandomState,max_features=1))",
          lambda: SklearnClassifier(DecisionTreeClassifier(random_state=np.random.RandomState(3), max_features=1,
                                                           splitter="random"), classes=[0, 1], random_state=0),
          "clf"),
        c("SklearnRegressor(LinearRegression)", lambda: SklearnRegressor(LinearRegression()), "reg"),
        c("SklearnRegressor(DecisionTreeRegressor)",
          lambda: SklearnRegressor(DecisionTreeRegressor(random_state=0)), "reg"),
        c("SklearnNormalRegressor(GaussianProcessRegressor)",
          lambda: SklearnNormalRegressor(GaussianProcessRegressor()), "reg", weights=False,
          reason="GaussianProcessRegressor.fit has no sample_weight"),
        c("SklearnNormalRegressor(BayesianRidge)", lambda: SklearnNormalRegressor(BayesianRidge()), "reg"),
        c("ParzenWindowClassifier(gamma=0.5)",
          lambda: ParzenWindowClassifier(classes=[0, 1], metric="rbf", metric_dict={"gamma": 0.5},
                                         n_neighbors=None, random_state=0), "clf"),
        c("ParzenWindowClassifier(gamma=0.125,class_prior=1)",
          lambda: ParzenWindowClassifier(classes=[0, 1], metric_dict={"gamma": 0.125}, class_prior=1.0,
                                         random_state=0), "clf"),
        c("NICKernelRegressor(gamma=0.5)", lambda: NICKernelRegressor(metric_dict={"gamma": 0.5}), "reg"),
        c("NadarayaWatsonRegressor(gamma=0.25)",
          lambda: NadarayaWatsonRegressor(metric_dict={"gamma": 0.25}), "reg"),
        c("AnnotatorLogisticRegression",
          lambda: AnnotatorLogisticRegression(classes=[0, 1], n_annotators=2, random_state=0), "multi"),
        # the same estimators with a reserved number as the missing label (the labeled/unlabeled split must use
        # the configured sentinel everywhere, not the package default)
        c("SklearnRegressor(LinearRegression,missing_label=-999)",
          lambda: SklearnRegressor(LinearRegression(), missing_label=-999.0), "reg", ml=-999.0),
        c("SklearnNormalRegressor(BayesianRidge,missing_label=-999)",
          lambda: SklearnNormalRegressor(BayesianRidge(), missing_label=-999.0), "reg", ml=-999.0),
        c("NICKernelRegressor(gamma=0.5,missing_label=-999)",
          lambda: NICKernelRegressor(metric_dict={"gamma": 0.5}, missing_label=-999.0), "reg", ml=-999.0),
        c("NadarayaWatsonRegressor(gamma=0.25,missing_label=-999)",
          lambda: NadarayaWatsonRegressor(metric_dict={"gamma": 0.25}, missing_label=-999.0), "reg", ml=-999.0),
        c("SklearnRegressor(LinearRegression,missing_label=None)",
          lambda: SklearnRegressor(LinearRegression(), missing_label=None), "reg", ml=None),
        c("SklearnNormalRegressor(BayesianRidge,missing_label=None)",
          lambda: SklearnNormalRegressor(BayesianRidge(), missing_label=None), "reg", ml=None),
        c("SklearnClassifier(GaussianNB,missing_label=-1)",
          lambda: SklearnClassifier(GaussianNB(), classes=[0, 1], missing_label=-1, random_state=0), "clf", ml=-1.0),
        c("SklearnClassifier(DecisionTreeClassifier,missing_label=-1)",
          lambda: SklearnClassifier(DecisionTreeClassifier(random_state=0), classes=[0, 1], missing_label=-1,
                                    random_state=0), "clf", ml=-1.0),
        c("ParzenWindowClassifier(gamma=0.5,missing_label=-1)",
          lambda: ParzenWindowClassifier(classes=[0, 1], metric="rbf", metric_dict={"gamma": 0.5},
                                         n_neighbors=None, missing_label=-1, random_state=0), "clf", ml=-1.0),
        c("AnnotatorLogisticRegression(missing_label=-1)",
          lambda: AnnotatorLogisticRegression(classes=[0, 1], n_annotators=2, missing_label=-1, random_state=0),
          "multi", ml=-1.0),
        c("AnnotatorLogisticRegression(no sample_weight)",
          lambda: AnnotatorLogisticRegression(classes=[0, 1], n_annotators=2, random_state=0), "multi",
          weights=False, reason="sample_weight=None variant"),
    ]


def labeled_rows(D):
    return [s[0] for s in D if any(l != MISSING for l in s[1])]


def relation_tags(d, e):
    """descriptive only: which relation links the two data sets"""
    ids_d, ids_e = [s[0] for s in d], [s[0] for s in e]
    tags = []
    if set(ids_d) != set(ids_e):
        tags.append("drop" if set(labeled_rows(e)) != set(ids_e) else "labeled-subset-only")
    kept = {s[0]: s for s in d}
    if any(kept[s[0]][2] != s[2] for s in e):
        tags.append("reweight")
    if [i for i in ids_d if i in set(ids_e)] != ids_e:
        tags.append("permute")
    return "+".join(tags) or "same"


def _pair_job(arg):
    ci, d, e, tabseed, e_first, ones_as_none = arg[:6]
    prelude = len(arg) > 6 and arg[6]
    cfg = c12_configs()[ci]
    from sklearn.base import clone

    tab = Table(tabseed)
    ids = Ids()
    proto = cfg["make"]()
    owned = []
    task = cfg["task"]
    n_annot = 2 if task == "multi" else 1
    order = [e, d] if e_first else [d, e]
    pids0, dids0 = observe(proto, owned, ids)
    events, n_eval = [], 0
    calls = []
    obj = proto
    for k, D in enumerate(order):
        if k:
            obj = clone(proto)
            p, dd = observe(obj, owned_of_clone(obj, owned), ids)
            events.append({"ev": "Fresh", "pids": p, "dids": dd})
        X, y, w = tab.data(D, task, n_annot)
        ml = cfg["ml"]

        def sent(a, ml=ml):
            if ml is None:
                out = np.asarray(a, dtype=float).astype(object)
                out[np.isnan(np.asarray(a, dtype=float))] = None
                return out
            return a if ml != ml else np.where(np.isnan(a), ml, a)

        use_w = cfg["weights"] and not ones_as_none
        if use_w and (tabseed + 3 * k + len(D)) % 4 == 0:
            # "sample weights of unlabeled samples are irrelevant": one quarter of the fits carry a non-finite
            # weight (NaN / inf) at every missing label
            w = np.array(w, dtype=float)
            w[np.isnan(np.asarray(y, dtype=float))] = (np.nan, np.inf)[(tabseed + k) % 2]
        calls.append({"X": X.tolist(), "y": sent(y).tolist(),
                      "sample_weight": [["nan" if v != v else ("inf" if v == np.inf else v) for v in np.atleast_1d(r)]
                                        for r in w.tolist()] if use_w else None})
        if prelude and k == 0:
            # the user's arrays live through a pool loop: the labels of D were revealed one after the other
            # (in a seeded order) and a throw-away model was fitted at every stage on the SAME X / w arrays;
            # the final fit below sees all labels of D - revealing them in this order must not matter
            lab = [r for r in range(len(D)) if not np.all(np.isnan(np.atleast_1d(y[r])))]
            order_r = list(np.random.RandomState(tabseed + 7).permutation(lab))
            y_stage = np.full_like(y, np.nan)
            stages = []
            for r in order_r[:-1]:
                y_stage[r] = y[r]
                try:
                    # prelude 2: the stages are fitted on the very object that is observed afterwards (the usual
                    # labeling loop: one estimator object refitted after every acquisition)
                    train(obj if prelude == 2 else clone(proto), "Fit", X, sent(y_stage), w, use_w)
                except Exception:
                    pass
                stages.append(int(r))
            calls[-1]["labels_revealed_before_in_row_order"] = stages
            calls[-1]["stages_fitted_on"] = "the same estimator object" if prelude == 2 else "throw-away clones"
        if prelude == 3 and k == 0 and len(D) >= 2:
            # a pool buffer that is re-ordered IN PLACE: the observed object was fitted before on the very same
            # array objects while their rows stood in reverse order; then the rows are put back and the observed
            # fit follows (a model must be trained on what the arrays hold now, not on what they held before)
            try:
                X[:] = X[::-1].copy()
                y_rev = np.array(sent(y))[::-1].copy()
                train(obj, "Fit", X, y_rev, None if w is None else np.array(w)[::-1].copy(), use_w)
            except Exception:
                pass
            finally:
                X[:] = X[::-1].copy()
            calls[-1]["fitted_before_on_the_same_X_array_with_rows_reversed_in_place"] = True
        try:
            train(obj, "Fit", X, sent(y), w, use_w)
            n_eval += 1
            pred = predictions(obj, task)
            raised = None
        except Exception as ex:  # the outcome of this fit is "raises <class>"
            pred, raised = raised_outcome(ex, ids), exc_text(ex)
        p, dd = observe(obj, owned, ids)
        base = []
        if (not raised and type(obj).__name__ in ("SklearnClassifier", "SklearnRegressor", "SklearnNormalRegressor")
                and task in ("clf", "reg") and (task == "reg" or obj.classes is not None)):
            # the wrapped estimator fitted directly on the labeled rows (see Bare)
            bare = Bare(obj.estimator, task)
            bare.step("Fit", X, y, w, use_w)
            base = bare.pred()
            n_eval += 1
        events.append({"ev": "Fit", "d": D, "pids": p, "dids": dd, "pred": pred, "ref": pred,
                       "refcalls": [["Fit", D]], "match": k, "base": base})
        if raised:
            events[-1]["raised"] = raised
    rel = relation_tags(d, e)
    trace = {"id": "%s/%s/%s" % (cfg["name"], rel, json.dumps([d, e])), "cls": cfg["name"], "rel": rel,
             "kind": "plain", "wsize": 0, "onlyLab": False, "sym": False, "band": BAND,
             "params0": pids0, "dicts0": dids0, "events": events,
             "concrete": {"estimator": cfg["name"], "probe_points": PROBES.tolist(), "fits": calls,
                          "note": "two fresh objects, one fit each; predictions on the probe points must agree"}}
    return trace, n_eval


def _eligible(cfg, d, e):
    n_annot = 2 if cfg["task"] == "multi" else 1
    if len(d[0][1]) != n_annot:
        return False
    if len(labeled_rows(d)) < cfg["min_labeled"]:
        return False
    if not cfg["order_free"] and labeled_rows(d) != labeled_rows(e):
        return False
    return True


def _all_ones(d, e):
    return all(w == 1 for D in (d, e) for s in D for w in s[2])


def expect_violation(chk, cfg, invariant, module="MC_FitModel"):
    """a code-shaped deviation of the design must be rejected by TLC
    (otherwise the invariant would be vacuous)"""
    res = tlc.run_tlc(module, cfg, workers=8)
    hit = any(invariant in e and "violated" in e for e in res.errors)
    chk.mc_runs.append({"module": module, "cfg": cfg, "expected_violation_of": invariant,
                        "found": hit, "distinct_states": res.distinct, "wall_s": round(res.wall, 2)})
    if not hit:
        raise tlc.MachineryError("deviation %s does not violate %s:\n%s" % (cfg, invariant, res.tail(30)))


def key_of(tr, rej):
    oe = rej["offending_event"] or {}
    cls = tr["cls"].split("(")[0]
    if oe.get("ev") == "Raised":
        return "%s.%s|%s|raised-%s" % (cls, oe.get("call", "fit"), tr["cls"], oe["exc"].split(":")[0])
    clause = ",".join(rej["failed_clauses"]) or oe.get("ev", "end")
    raised = sorted({e["raised"].split(":")[0] for e in tr["events"] if e.get("raised")})
    if raised:  # one of the compared fits raised, the other did not (or raised differently)
        clause += ":one-fit-raises-" + "/".join(raised)
    return "%s.fit|%s|%s" % (cls, tr["cls"], clause)


def main(tier="quick", seed=0):
    chk = Check("C12", tier, seed)
    import_repo()
    quick = tier == "quick"
    rng = np.random.RandomState(1000 + seed)
    # (M)
    chk.model_check("MC_FitModel", "MC_FitModel_c12.cfg")
    expect_violation(chk, "MC_FitModel_fitall.cfg", "FitIgnoresUnlabeled")
    # (G) pairs with equal labeled part, enumerated by TLC
    single = chk.generate("MC_FitModel", "FitModel_gen.cfg" if quick else "FitModel_gen5.cfg")
    multi = chk.generate("MC_FitModel", "FitModel_gen_a2.cfg" if quick else "FitModel_gen_a2_3.cfg")
    pools = {}
    for cases in (single, multi):
        seen = set()
        for c in cases:
            if not c["ok"]:
                raise tlc.MachineryError("generator emitted a pair with different labeled parts: %r" % (c,))
            k = json.dumps([c["d"], c["e"]])
            if k in seen:
                continue
            seen.add(k)
            pools.setdefault(len(c["d"][0][1]), []).append((c["d"], c["e"], relation_tags(c["d"], c["e"])))
    cfgs = c12_configs()
    per_cfg = 110 if quick else 2000
    jobs = []
    for ci, cfg in enumerate(cfgs):
        n_annot = 2 if cfg["task"] == "multi" else 1
        # stratify by relation so that every relation is exercised on every estimator
        by_rel = {}
        for d, e, rel in pools.get(n_annot, []):
            if _eligible(cfg, d, e):
                by_rel.setdefault(rel, []).append((d, e))
        share = max(1, per_cfg // max(1, len(by_rel)))
        for rel in sorted(by_rel):
            lst = by_rel[rel]
            pick = rng.choice(len(lst), size=min(share, len(lst)), replace=False)
            for j in pick:
                d, e = lst[int(j)]
                ones_none = bool(_all_ones(d, e) and rng.rand() < 0.5)
                jobs.append((ci, d, e, int(rng.randint(0, 4) + 10 * seed), bool(rng.rand() < 0.5), ones_none,
                             int(rng.choice([0, 0, 0, 1, 2, 3]))))
    jobs = [jobs[int(j)] for j in rng.permutation(len(jobs))]   # spread slow estimators over the workers
    out = pmap(_pair_job, jobs)
    traces = []
    for tr, n in out:
        traces.append(tr)
        chk.count(n)
        if len(tr["events"]) == 3 and not any(e.get("raised") for e in tr["events"]):
            chk.case((tr["cls"], tr["id"]))
    chk.sample({"trace": {k: v for k, v in traces[len(traces) // 2].items()}})
    chk.validate("FitModelTrace", traces, describe=lambda t: t["concrete"], key_of=key_of, chunk=600)
    chk.extra["estimators"] = [c["name"] for c in cfgs]
    chk.extra["relations"] = sorted({t["rel"] for t in traces})
    chk.extra["restricted"] = {c["name"]: c["reason"] for c in cfgs if c["reason"]}
    chk.rule = ("pairs (D, E) with equal labeled part enumerated by TLC (N<=%d samples, K<=2 classes, weights {1,2}; "
                "two annotators: N<=%d): unlabeled samples dropped/added, weights of missing entries flipped, rows "
                "permuted (reverse, rotate, labeled-first, unlabeled-first), labeled subset only; a seeded, "
                "relation-stratified sample of them per estimator; one evaluation = one fit on the real estimator; "
                "distinct non-trivial = (estimator, D, E) whose two fits both succeeded and were compared by TLC"
                % ((4, 2) if quick else (5, 3)))
    chk.assumptions = [
        "TLC 1.8 evaluates the modules correctly",
        "predictions are compared on 4 fixed probe points, band %d/2^20 (measured permutation noise <= 3e-9)" % BAND,
        "wrapped scikit-learn estimators are deterministic for a fixed random_state",
        "SGDClassifier: only relations that keep the order of the labeled rows (row order is part of its input)",
        "estimators without sample_weight support are fitted without weights",
    ]
    return chk.finish()
