"""C08 - a sample's utility does not depend on how candidates are addressed.

(M) MC_Addressing: the mapping/scatter bookkeeping of the three addressings
    for all pools up to 4 samples, labeled sets, candidate orders and score
    functions (ModeEquiv); the code-shaped deviation PositionInsteadOfId must
    violate it.
(G) PoolGen scenarios (candidates=None) fix pool, labeling, geometry.
(T) paired observations validated by EquivTrace: the same scenario queried
    with candidates=None / the unlabeled indices / their feature rows (all
    strategies), with restricted index sets in shuffled order and with
    permuted rows of (X, y) (strategies that score samples independently).
"""

import warnings

import numpy as np

from .. import abstraction as ab
from .. import tlc, zoo
from ..core import Check, import_repo, pmap
from . import pool_common as pc

ENTRIES = {}
SCALE_BITS = 22
BAND = 8          # 2^-19 relative
BIG = 2 ** 30


def _query(entry, X, y, cand, seed, variant, reuse=None):
    # one third of the groups present the missing labels with a reserved number instead of NaN (all calls of a
    # group alike): code that handles one way of addressing the candidates with the configured sentinel and
    # another with the default one is only visible then
    ml, cls = np.nan, (0, 1)
    if seed % 3 == 0:
        if zoo.is_regression(entry):
            ml, cls = -999.0, zoo.REG
            y = np.where(np.isnan(y), ml, y)
        else:
            ml = -1
            y = np.where(np.isnan(y), ml, y).astype(int)
    # reuse: one strategy object answers all addressings of the group (state cached on the object by one call
    # must not leak into the next one); otherwise a fresh object per call
    if reuse is not None and "qs" in reuse:
        qs = reuse["qs"]
    else:
        qs = entry.make(seed, ml, (0, 1))
        if reuse is not None:
            reuse["qs"] = qs
    kw = zoo.model_kwargs(entry, ml, cls, seed=seed, variant=variant)
    np.random.seed(4711)   # hidden use of the global generator is C06's subject
    with warnings.catch_warnings():
        warnings.simplefilter("ignore")
        with np.errstate(all="ignore"):
            with pc.time_limit(120):
                # (with a re-used object two samples are taken, so that whatever a batch loop caches on the
                #  object after the first pick would be seen by the next call; only the first row is compared)
                n_c = int(np.sum(np.isnan(np.asarray(y, dtype=float)) if ml != ml else np.asarray(y) == ml)) \
                    if cand is None else len(cand)
                bs = 2 if (reuse is not None and n_c >= 2) else 1
                q, u = qs.query(X.copy(), y.copy(), candidates=cand, batch_size=bs, return_utilities=True, **kw)
    return np.asarray(q), np.asarray(u, dtype=float)


def _enc(v, scale):
    if v != v:
        return ab.NAN
    if v == np.inf:
        return BIG
    if v == -np.inf:
        return -BIG
    return int(round(v / scale * 2 ** SCALE_BITS))


def run_group(entry, sc, seed, variant, kind):
    rng = np.random.RandomState(seed)
    conc = pc.concretise(dict(sc, mode="none", S=[]), entry, seed)
    X, y = conc["X"], conc["y"]
    n = len(X)
    unl = [i for i in range(n) if np.isnan(y[i])]
    obs = []   # (name, {sid: value}, selected sid, samekeys, cmpsel)
    # half of the groups over the same (X, y) use ONE strategy object for all addressings
    reuse = {} if (kind in ("modes", "restrict") and seed % 2 == 1) else None
    try:
        q, u = _query(entry, X, y, None, seed, variant, reuse)
        obs.append(("none", {i: u[0, i] for i in unl}, int(q[0]), True, True))
        if kind == "modes":
            q, u = _query(entry, X, y, np.array(unl), seed, variant, reuse)
            obs.append(("idx", {i: u[0, i] for i in unl}, int(q[0]), True, True))
            if len(unl) >= 2:
                # the same index set in another order (descending / shuffled): an index array addresses a set
                sh = unl[::-1] if seed % 2 == 0 else [int(i) for i in rng.permutation(unl)]
                q, u = _query(entry, X, y, np.array(sh), seed, variant, reuse)
                obs.append(("idx-reordered", {i: u[0, i] for i in unl}, int(q[0]), True, True))
            if entry.rows:
                q, u = _query(entry, X, y, X[unl].copy(), seed, variant, reuse)
                obs.append(("rows", {unl[k]: u[0, k] for k in range(len(unl))}, unl[int(q[0])], True, True))
        elif kind == "restrict":
            k = max(1, int(rng.randint(1, len(unl) + 1)))
            sub = list(rng.permutation(unl)[:k])
            q, u = _query(entry, X, y, np.array(sub), seed, variant, reuse)
            obs.append(("subset", {i: u[0, i] for i in sub}, int(q[0]), False, False))
            if entry.rows:
                q, u = _query(entry, X, y, X[sub].copy(), seed, variant, reuse)
                obs.append(("subset-rows", {sub[j]: u[0, j] for j in range(len(sub))}, sub[int(q[0])], False, False))
        elif kind == "permute":
            perm = rng.permutation(n)          # new row r holds old sample perm[r]
            q, u = _query(entry, X[perm], y[perm], None, seed, variant)
            obs.append(("permuted", {int(perm[r]): u[0, r] for r in range(n) if np.isnan(y[perm[r]])},
                        int(perm[int(q[0])]), True, True))
        events = None
    except Exception as ex:
        events = [{"ev": "Raised", "exc": "%s: %s" % (type(ex).__name__, str(ex)[:160]), "after": len(obs)}]
    if events is None:
        finite = [abs(v) for o in obs for v in o[1].values() if np.isfinite(v)]
        scale = max(max(finite), 1e-6) if finite else 1.0   # absolute floor of the band: 1e-6 / 2^19 = 2e-12
        events = [{"ev": "Obs", "name": name, "vals": [[int(s) + 1, _enc(v, scale)] for s, v in sorted(vals.items())],
                   "sel": int(sel) + 1, "samekeys": samekeys, "cmpsel": cmpsel}
                  for name, vals, sel, samekeys, cmpsel in obs]
    return {"id": "%s/%s/%s/seed%d/v%d" % (entry.name, kind, pc.scenario_tag(sc), seed, variant),
            "band": BAND, "events": events,
            "concrete": {"strategy": entry.name, "relation": kind, "scenario": sc, "seed": seed, "variant": variant,
                         "one_strategy_object_for_all_calls": reuse is not None,
                         "X": X.tolist(), "y": ["nan" if v != v else v for v in y.tolist()],
                         "how": "harness.drivers.c08.run_group(entry, scenario, seed, variant, relation)"}}


def _job(arg):
    name, sc, seed, variant, kind = arg
    return run_group(ENTRIES[name], sc, seed, variant, kind)


def finding_key(tr, rej):
    oe = rej["offending_event"] or {}
    name, kind = tr["id"].split("/")[:2]
    if name.startswith("RegressionTreeBasedAL"):
        return "%s|malformed-results" % name
    why = ",".join(rej["failed_clauses"]) or ("%s:%s" % (oe.get("ev", "end"), str(oe.get("exc", "")).split(":")[0]))
    if tr["id"].endswith("/v3"):
        # configuration class: classifier with a data-derived bandwidth (the subtract_current variants share the
        # finding of their method)
        name = {"MonteCarloEER(subtract_current)": "MonteCarloEER(misclassification_loss)",
                "MonteCarloEER(log_loss,subtract_current)": "MonteCarloEER(log_loss)"}.get(name, name)
        name += "[clf:gamma=mean]"
    return "%s|%s|%s|%s" % (name, kind, oe.get("name", "-"), why)


def main(tier="quick", seed=0):
    chk = Check("C08", tier, seed)
    import_repo()
    quick = tier == "quick"
    rng = np.random.default_rng(seed + 8)
    ENTRIES.update({e.name: e for e in zoo.entries()})
    # the sub-sampling wrapper with a fractional sub-sample size (the size and the drawn sub-sample must not
    # depend on how the candidates are addressed)
    # (exclude_non_subsample=False: with True, feature-row candidates are by design not part of the reduced
    #  training set - the recorded C20 finding - so the wrapped model legitimately sees other data)
    ENTRIES.update({e.name: e for e in zoo.wrapper_entries(mcs=(0.3, 0.5)) if "exclude_non_subsample=False" in e.name})
    # documented options that add a term shared by all candidates of one call (subtract_current): the term must be
    # the same however the candidates are addressed and whichever subset is asked for
    for name, cls_name, kw, rows in (("MonteCarloEER(subtract_current)", "MonteCarloEER", {"subtract_current": True}, True),
                                     ("MonteCarloEER(log_loss,subtract_current)", "MonteCarloEER",
                                      {"method": "log_loss", "subtract_current": True}, True),
                                     ("ValueOfInformationEER(subtract_current)", "ValueOfInformationEER",
                                      {"subtract_current": True}, False)):
        def make(seed, missing_label=np.nan, classes=(0, 1), _c=cls_name, _kw=kw):
            import skactiveml.pool as P

            return getattr(P, _c)(missing_label=missing_label, random_state=seed, **dict(_kw))
        ENTRIES[name] = zoo.Entry(name, cls_name, make, "clf", rows=rows, samplewise=True, arbitrary_idx=False, cost=3)
    chk.model_check("MC_Addressing", "MC_Addressing.cfg")
    dev = tlc.run_tlc("MC_Addressing", "MC_Addressing_dev.cfg", timeout=600)
    if not any("ModeEquiv" in e for e in dev.errors):
        raise tlc.MachineryError("the PositionInsteadOfId deviation does not violate ModeEquiv")
    scenarios = [s for s in chk.generate("PoolGen", "PoolGen.cfg")
                 if s["mode"] == "none" and s["n"] - len(s["labeled"]) >= 2 and s["bs"] == 1]
    if not quick:
        scenarios += [s for s in chk.generate("PoolGen", "PoolGen5.cfg")
                      if s["mode"] == "none" and s["n"] - len(s["labeled"]) >= 2 and s["bs"] == 1]
    # larger seeded pools (5-9 samples): index bookkeeping errors show only with several unlabeled samples
    scenarios += [dict(x, mode="none", S=[], bs=1) for x in pc.random_scenarios(rng, len(scenarios), 5, 9)
                  if x["n"] - len(x["labeled"]) >= 2]
    per_cost = {1: 100, 2: 40, 3: 12} if quick else {1: 800, 2: 300, 3: 80}
    jobs = []
    # restriction / permutation are claimed for deterministic sample-wise scores: scenarios in which
    # the models break prediction ties at random (cold start, a single class) are left to "modes";
    # the permutation relation uses the order-insensitive kernel models only (bagging / bootstrap
    # based models and ExpectedModelChangeMaximization's bootstrap depend on the row order by design)
    warm = [s for s in scenarios if len(s["labeled"]) >= 2 and s["labpat"] == "all-classes"]
    for e in ENTRIES.values():
        kinds = ["modes"] + (["restrict", "permute"] if e.samplewise else [])
        if e.name in ("ExpectedModelChangeMaximization", "CostEmbeddingAL"):
            kinds.remove("permute")      # bootstrap samples / nearest-neighbour ties depend on the row order
        for kind in kinds:
            pool = scenarios if kind == "modes" else warm
            for n_, i in enumerate(rng.choice(len(pool), size=min(per_cost[e.cost], len(pool)), replace=False)):
                variant = 0 if kind == "permute" else n_ % 2
                jobs.append((e.name, pool[int(i)], int(rng.integers(0, 1000)), variant, kind))
    # the three addressings with a kernel classifier whose bandwidth is derived from the training data
    # (metric_dict={'gamma': 'mean'}, the default model of ProbabilisticAL): variant 3 of the registry models
    for e in ENTRIES.values():
        if e.model in ("clf", "clf_embed"):
            for i in rng.choice(len(warm), size=min(6 if quick else 40, len(warm)), replace=False):
                jobs.append((e.name, warm[int(i)], int(rng.integers(0, 1000)), 3, "modes"))
    traces = pmap(_job, jobs, chunksize=4)
    chk.count(sum(len(t["events"]) for t in traces))
    for t in traces:
        chk.case(tuple(t["id"].split("/")[:3]))
    chk.sample({"trace": {k: v for k, v in traces[1].items() if k != "concrete"}})
    chk.rule = ("one trace = one scenario (PoolGen initial state with >= 2 unlabeled samples) observed under several "
                "addressings: None / unlabeled indices / their feature rows for all %d configurations; random index "
                "subsets in shuffled order and row permutations of (X, y) for the sample-wise scorers; evaluations = "
                "query calls; distinct = (configuration, relation, scenario)" % len(ENTRIES))
    chk.validate("EquivTrace", traces, key_of=finding_key, describe=lambda t: t["concrete"])
    chk.assumptions = ["utilities[0] is compared per sample identity in a fixed-point encoding relative to the largest "
                       "finite value of the group, at least 1e-6 (band 2^-19 of that scale; NaN only equals NaN; +-inf exact)",
                       "selections are compared only when the reference's best utility is unique by more than twice "
                       "the band", "the process-global generator is reseeded identically before every call",
                       "sample-wise scorers (restriction / permutation relations): " +
                       ", ".join(sorted(e.name for e in ENTRIES.values() if e.samplewise))]
    return chk.finish()
