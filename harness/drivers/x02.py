"""X02 - beyond the listed properties: the sliding window of
SlidingWindowClassifier (skactiveml/classifier/_wrapper.py) against
SlidingWindow.tla.

Not registered in MANIFEST.json (it decides none of C01-C20); run with
`./check X02`.  (M) MC_SlidingWindow model-checks the window invariants for all
histories of three calls and verifies that truncating at the wrong end violates
them; (G) TLC enumerates the histories; (T) every history is executed on the
real classifier for a window size / only_labeled / estimator configuration and
SlidingWindowTrace validates every call (window contents, weights, raise
behaviour, model = fresh estimator fitted on the window)."""

import warnings

import numpy as np

from .. import abstraction as ab
from .. import tlc
from ..core import Check, import_repo, pmap

M = -1
PROBES = np.array([[0.5, 0.5], [2.0, 1.0], [4.5, -1.0], [7.0, 2.0], [3.3, 3.3]])


def feat(i):
    """every sample id has its own feature vector; the first coordinate is the id"""
    return [float(i), float((i * i) % 5) - 1.5]


def _estimator(kind):
    from sklearn.naive_bayes import GaussianNB

    from skactiveml.classifier import ParzenWindowClassifier, SklearnClassifier

    if kind == "pwc":
        return ParzenWindowClassifier(classes=[0, 1], metric_dict={"gamma": 0.2}, random_state=0)
    return SklearnClassifier(GaussianNB(), classes=[0, 1], random_state=0)


def _digest(obj):
    with warnings.catch_warnings():
        warnings.simplefilter("ignore")
        P = np.asarray(obj.predict_proba(PROBES), dtype=float)
    return ab.digest(np.round(P, 9))


def _job(arg):
    from sklearn.base import clone

    from skactiveml.classifier import SlidingWindowClassifier

    ops, wsize, only, kind = arg
    est = _estimator(kind)
    obj = SlidingWindowClassifier(est, classes=[0, 1], window_size=None if wsize == 0 else wsize, only_labeled=only,
                                  random_state=0)
    ids = {}
    events, calls = [], []
    nid = 1
    for op in ops:
        labs = list(op["labs"])
        batch = list(range(nid, nid + len(labs)))
        nid += len(labs)
        X = np.array([feat(i) for i in batch], dtype=float).reshape(len(batch), 2)
        y = np.array([np.nan if v == M else float(v) for v in labs], dtype=float)
        w = np.array([1.0 + (i % 2) for i in batch]) if op["withW"] else None
        calls.append({"call": "fit" if op["op"] == "Fit" else "partial_fit", "X": X.tolist(),
                      "y": [None if v != v else v for v in y.tolist()], "sample_weight": None if w is None else w.tolist()})
        raised = False
        try:
            with warnings.catch_warnings():
                warnings.simplefilter("ignore")
                fn = obj.fit if op["op"] == "Fit" else obj.partial_fit
                fn(X, y) if w is None else fn(X, y, sample_weight=w)
        except Exception as ex:
            raised = True
            calls[-1]["raised"] = "%s: %s" % (type(ex).__name__, str(ex)[:120])
        ev = {"ev": op["op"], "labs": labs, "withW": bool(op["withW"]), "raised": raised}
        try:
            Xw = [np.asarray(r, dtype=float).ravel() for r in obj.X_train_]
            yw = [float(v) for v in obj.y_train_]
            ev["win"] = [int(r[0]) if r[0] == int(r[0]) and list(r) == feat(int(r[0])) else -7 for r in Xw]
            ev["wlabs"] = [M if v != v else (int(v) if v == int(v) else -7) for v in yw]
            sw = obj.sample_weight_train_
            ev["wnone"] = sw is None
            ev["wvals"] = [] if sw is None else [int(v) if v == int(v) else -7 for v in map(float, sw)]
            ev["pred"] = ids.setdefault(_digest(obj), len(ids) + 1) if hasattr(obj, "estimator_") else 0
            # the reference model: a fresh copy of the wrapped estimator fitted on the observed window
            ref = clone(est)
            Xr = np.array(Xw, dtype=float).reshape(len(Xw), 2)
            yr = np.array(yw, dtype=float)
            with warnings.catch_warnings():
                warnings.simplefilter("ignore")
                if sw is None:
                    ref.fit(Xr, yr)
                else:
                    ref.fit(Xr, yr, sample_weight=np.array(list(sw), dtype=float))
            ev["ref"] = ids.setdefault(_digest(ref), len(ids) + 1)
        except Exception as ex:
            ev = {"ev": "Unobservable", "exc": "%s: %s" % (type(ex).__name__, str(ex)[:160])}
        events.append(ev)
        if ev["ev"] == "Unobservable":
            break
    tag = "/".join("%s%s%s" % ("F" if o["op"] == "Fit" else "pf", "".join("M" if v == M else str(v) for v in o["labs"]),
                               "w" if o["withW"] else "") for o in ops)
    return {"id": "SlidingWindowClassifier(%s,window_size=%s,only_labeled=%s)/%s" % (kind, wsize or None, only, tag),
            "wsize": wsize, "onlyLab": bool(only), "events": events,
            "concrete": {"estimator": kind, "window_size": wsize or None, "only_labeled": bool(only), "calls": calls}}


def _key(t, r):
    ev = (r["offending_event"] or {})
    cls = "weights-after-call-without" if any(
        e.get("raised") for e in t["events"] if isinstance(e, dict)) else "plain"
    return "SlidingWindowClassifier|%s|%s" % (cls, ",".join(r["failed_clauses"]) or "unmatched:" + ev.get("ev", "end"))


def main(tier="quick", seed=0):
    chk = Check("X02", tier, seed)
    import_repo()
    quick = tier == "quick"
    chk.model_check("MC_SlidingWindow", "MC_SlidingWindow.cfg")
    from .c12 import expect_violation

    expect_violation(chk, "MC_SlidingWindow_dropnewest.cfg", "LatestSamples", module="MC_SlidingWindow")
    hists = chk.generate("MC_SlidingWindow", "SlidingWindow_gen.cfg")
    rng = np.random.default_rng(seed + 2)
    n = 4000 if quick else 120000
    jobs = []
    for i in rng.choice(len(hists), size=min(n, len(hists)), replace=False):
        jobs.append((hists[int(i)]["ops"], int(rng.choice([0, 1, 2, 3])), bool(rng.integers(2)),
                     ["pwc", "gnb"][int(rng.integers(2))]))
    traces = pmap(_job, jobs)
    chk.count(sum(len(t["events"]) for t in traces))
    for t in traces:
        chk.case(t["id"])
    chk.sample({"trace": {k: v for k, v in traces[0].items() if k != "concrete"}})
    chk.rule = ("all histories of three fit / partial_fit calls with 0-2 samples each (labels 0, 1, missing; with or "
                "without sample weights) enumerated by TLC; a seeded sample of (history, window_size in {None,1,2,3}, "
                "only_labeled, estimator in {ParzenWindowClassifier, GaussianNB}) executed on the real classifier")
    chk.validate("SlidingWindowTrace", traces, describe=lambda t: t["concrete"], key_of=_key)
    chk.assumptions = ["the reference model is fitted by the harness on the observed deques; the window clauses tie "
                       "those deques to the specification's window"]
    return chk.finish()
