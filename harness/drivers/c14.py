"""C14 - a pool active-learning loop labels every sample exactly once.

(M) MC_ALLoop: all pools up to N samples, initial labelings, batch sizes and
    all valid batches per cycle; invariants OnlyUnlabeled / NeverTwice /
    ExhaustedExactly and termination under weak fairness.
(G) PoolGen scenarios (candidates=None) and larger seeded pools give the
    initial labeling, batch size, geometry and oracle labels.
(T) the README loop is run with ONE strategy object per loop (state kept
    between cycles is part of the history) for every registered strategy
    configuration; the whole loop is one trace validated by ALLoopTrace.
"""

import warnings

import numpy as np

from .. import tlc, zoo
from ..core import Check, import_repo, pmap
from . import pool_common as pc

ENTRIES = {}


def run_loop(entry, sc, seed, variant):
    rng = np.random.RandomState(seed)
    n = sc["n"]
    X = pc.make_X(n, sc["geom"], rng)
    regression = zoo.is_regression(entry)
    if regression:
        y_true = (rng.normal(size=n).round(2) if sc["labpat"] == "all-classes" else np.ones(n))
    else:
        y_true = (np.arange(n) % 2).astype(float) if sc["labpat"] == "all-classes" else np.zeros(n)
        if sc["labpat"] == "all-classes":
            y_true = y_true[rng.permutation(n)]
    y = np.full(n, np.nan)
    for i in sc["labeled"]:
        y[i - 1] = y_true[i - 1]
    unlabeled = [i for i in range(1, n + 1) if i not in sc["labeled"]]
    bs = int(sc["bs"])
    # one quarter of the loops encode the missing labels with a reserved number instead of NaN
    ml, classes = np.nan, (0, 1)
    if seed % 4 == 3:
        if regression:
            ml, classes = -999.0, zoo.REG
            y = np.where(np.isnan(y), ml, y)
        else:
            ml = -1
            y = np.where(np.isnan(y), ml, y).astype(int)
            y_true = y_true.astype(int)
    qs = entry.make(seed, ml, (0, 1))
    kw = zoo.model_kwargs(entry, ml, classes, seed=seed, variant=variant)
    events = []
    cycles = 0

    def missing(a):
        return np.isnan(a) if ml != ml else (a == ml)

    while missing(y).any():
        if cycles > len(unlabeled) + 1:
            events.append({"ev": "NotExhausted", "cycles": cycles})
            break
        try:
            with warnings.catch_warnings():
                warnings.simplefilter("ignore")
                with np.errstate(all="ignore"):
                    with pc.time_limit(120):
                        q = qs.query(X, y, batch_size=bs, **kw)
        except pc.Hang as ex:
            events.append({"ev": "Hang", "exc": str(ex)})
            break
        except Exception as ex:
            events.append({"ev": "Raised", "exc": "%s: %s" % (type(ex).__name__, str(ex)[:160]), "cycle": cycles})
            break
        qa = np.asarray(q)
        if qa.ndim != 1 or (qa.size and qa.dtype.kind not in "iu") or (qa.size and (qa.min() < 0 or qa.max() >= n)):
            events.append({"ev": "Malformed", "shape": list(qa.shape), "dtype": str(qa.dtype)})
            break
        events.append({"ev": "Query", "q": [int(i) + 1 for i in qa]})
        y[qa] = y_true[qa]          # the oracle reveals the labels
        cycles += 1
    else:
        events.append({"ev": "Done", "cycles": cycles})
    return {
        "id": "%s/%s/seed%d/v%d" % (entry.name, pc.scenario_tag(sc), seed, variant),
        "n": n, "unlabeled": unlabeled, "bs": bs, "labeled": sorted(sc["labeled"]), "events": events,
        "concrete": {"strategy": entry.name, "scenario": sc, "seed": seed, "variant": variant,
                     "X": X.tolist(), "y_true": y_true.tolist(), "missing_label": "nan" if ml != ml else ml,
                     "how": "README loop: one strategy object, query(X, y, batch_size=bs, <models>), reveal, repeat"},
    }


def _job(arg):
    name, sc, seed, variant = arg
    return run_loop(ENTRIES[name], sc, seed, variant)


def big_scenarios(rng, k):
    out = []
    geoms = ["distinct", "duplicates", "all-equal", "constant-feature", "collinear"]
    for _ in range(k):
        n = int(rng.integers(5, 9))
        nl = int(rng.choice([0, 0, 1, 2, 3, n - 1]))
        labeled = sorted(int(i) for i in rng.choice(np.arange(1, n + 1), size=min(nl, n - 1), replace=False))
        u = n - len(labeled)
        out.append({"n": n, "labeled": labeled, "mode": "none", "S": [], "bs": int(rng.choice([1, 2, 3, u, u + 1])),
                    "geom": geoms[int(rng.integers(len(geoms)))],
                    "labpat": ["one-class", "all-classes"][int(rng.integers(2))]})
    return out


def finding_key(tr, rej):
    oe = rej["offending_event"] or {}
    name = tr["id"].split("/")[0]
    if name.startswith("RegressionTreeBasedAL"):
        return "%s|at-least-two-labels" % name
    why = ",".join(rej["failed_clauses"]) or ("%s:%s" % (oe.get("ev", "end"), str(oe.get("exc", "")).split(":")[0]))
    return "%s|%s" % (name, why)


def main(tier="quick", seed=0):
    chk = Check("C14", tier, seed)
    import_repo()
    quick = tier == "quick"
    rng = np.random.default_rng(seed + 14)
    missing = zoo.check_complete()
    if missing:
        raise tlc.MachineryError("pool strategies exported but not registered in harness/zoo.py: %s" % missing)
    ENTRIES.update({e.name: e for e in zoo.entries()})
    # the loop through the sub-sampling wrapper (fractional and absolute sub-sample sizes; the fraction of a
    # shrinking pool must never round down to an empty sub-sample)
    from skactiveml.pool import SubSamplingWrapper

    for inner_name in ("RandomSampling", "UncertaintySampling(entropy)"):
        inner = ENTRIES[inner_name]
        for mc in (0.1, 0.3, 2):
            for excl in (False, True):
                def make(seed, ml=np.nan, classes=(0, 1), inner=inner, mc=mc, excl=excl):
                    return SubSamplingWrapper(inner.make(seed, ml, classes), max_candidates=mc,
                                              exclude_non_subsample=excl, missing_label=ml, random_state=seed)
                nm = "SubSamplingWrapper(%s,max_candidates=%s,exclude_non_subsample=%s)" % (inner_name, mc, excl)
                ENTRIES[nm] = zoo.Entry(nm, "SubSamplingWrapper", make, inner.model, selection="sampling", cost=3)
    # the loop with a classifier that was constructed without a class list (classes = those observed so far; at
    # least one label is a documented precondition): a class that appears in a later cycle must not meet anything
    # the strategy object kept from the cycles before
    for base_name in ("MonteCarloEER(misclassification_loss)", "MonteCarloEER(log_loss)", "ValueOfInformationEER",
                      "UncertaintySampling(entropy)", "ProbabilisticAL", "QueryByCommittee(vote_entropy)"):
        if base_name in ENTRIES and ENTRIES[base_name].model in ("clf", "clf_freq"):
            e0 = ENTRIES[base_name]
            nm = base_name + "[clf without classes]"
            ENTRIES[nm] = zoo.Entry(nm, e0.cls_name, e0.make, "clf_free", selection=e0.selection, rows=e0.rows,
                                    cost=e0.cost)
    chk.model_check("ALLoop", "MC_ALLoop.cfg" if quick else "MC_ALLoop_thorough.cfg")
    scenarios = [s for s in chk.generate("PoolGen", "PoolGen.cfg") if s["mode"] == "none" and s["n"] >= 3]
    if not quick:
        scenarios += [s for s in chk.generate("PoolGen", "PoolGen5.cfg") if s["mode"] == "none"]
    jobs = []
    per_cost = {1: 90, 2: 40, 3: 12} if quick else {1: 600, 2: 250, 3: 60}
    for e in ENTRIES.values():
        k = per_cost[e.cost]
        pick = [scenarios[int(i)] for i in rng.choice(len(scenarios), size=min(k, len(scenarios)), replace=False)]
        pick += [dict(x, mode="none", S=[]) for x in pc.random_scenarios(rng, max(2, k // 3), 5, 9)]
        for n_, sc in enumerate(pick):
            if e.cls_name == "SubSamplingWrapper":
                sc = dict(sc, bs=1)     # (a batch can only be filled from the sub-sample: one sample per query)
            if e.model == "clf_free" and not sc["labeled"]:
                sc = dict(sc, labeled=[1])
            jobs.append((e.name, sc, int(rng.integers(0, 1000)), n_ % 3))
    traces = pmap(_job, jobs, chunksize=2)
    chk.count(len(traces))
    for tr in traces:
        if len(tr["unlabeled"]) >= 2:
            chk.case((tr["id"].split("/")[0], tr["n"], tuple(tr["labeled"]), tr["bs"], tr["id"].split("/")[1]))
    chk.sample({"loop_trace": {k: v for k, v in traces[5].items() if k != "concrete"}})
    chk.rule = ("one trace = one complete loop (query, reveal, repeat until no label is missing) of one strategy object; "
                "initial labelings/batch sizes/geometries/oracle patterns are PoolGen initial states (pool 3..%d, every "
                "labeled set from zero labels to one unlabeled sample) plus seeded pools of 5-8 samples; %d strategy "
                "configurations; non-trivial = at least two unlabeled samples" % (4 if quick else 5, len(ENTRIES)))
    chk.validate("ALLoopTrace", traces, key_of=finding_key, describe=lambda t: t["concrete"])
    chk.assumptions = ["the oracle's labels are fixed per scenario (one class / both classes / real targets)",
                       "models as in harness/zoo.py; the same model object is passed in every cycle",
                       "a query that has not returned after 120 s is logged as Hang (no action matches it)"]
    return chk.finish()
