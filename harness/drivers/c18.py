"""C18 - selection primitives (rand_argmax, rand_argmin, simple_batch).

(M) TLC checks Selection / RandArg exhaustively on small arrays.
(G) TLC enumerates the initial states of both modules as cases; each case is
    concretised (ranks -> floats, optionally with +-inf at the extremes, 1-D
    and 2-D), executed on the real functions under many seeds.
(T) every distinct observed outcome is written as a trace and validated by TLC
    against SelectionTrace / RandArgTrace (exact optimum, distinctness, row
    masks, non-increasing order, count, positive weight, same seed => same
    result, every tied optimum reached).
"""

import warnings

import numpy as np

from .. import abstraction as ab
from ..core import Check, import_repo


def _simple_batch_trace(simple_batch, u, bs, method, seed, tag, again=True):
    """Run simple_batch once and synthesise the events of the call."""
    shape = u.shape
    events = [{"ev": "Clip"}]
    inp = u.copy()
    if tag == "view":
        # the same values as a strided view of a larger array (neither C- nor F-contiguous for >= 2 dimensions)
        big = np.full(tuple(2 * d + 1 for d in shape), 7.0)
        sl = tuple(slice(None, 2 * d, 2) for d in shape)
        big[sl] = u
        inp = big[sl]
    try:
        with warnings.catch_warnings():
            warnings.simplefilter("ignore")
            idx, rows = simple_batch(inp.tolist() if tag == "list" else inp, random_state=seed,
                                     batch_size=bs, return_utilities=True, method=method)
    except ValueError as ex:  # proportional branch without admissible result
        events.append({"ev": "Raised", "exc": type(ex).__name__})
        return events, [u], None
    idx = np.asarray(idx)
    rows = np.asarray(rows)
    ok = idx.dtype.kind in "iu" and rows.shape[1:] == shape and (
        (idx.ndim == 1 and len(shape) == 1) or (idx.ndim == 2 and idx.shape[1] == len(shape)))
    ok = ok and len(idx) == len(rows)
    if ok and len(shape) > 1:
        ok = all((0 <= idx[:, d]).all() and (idx[:, d] < shape[d]).all() for d in range(len(shape)))
    elif ok:
        ok = bool(((0 <= idx) & (idx < shape[0])).all())
    if not ok:
        events.append({"ev": "Malformed", "idx_shape": list(idx.shape), "rows_shape": list(rows.shape),
                       "dtype": str(idx.dtype)})
        return events, [u], None
    flat = np.ravel_multi_index(idx.T, shape) if len(shape) > 1 else idx
    picked = [int(j) + 1 for j in flat]
    events += [{"ev": "Pick", "j": j, "row": None} for j in picked]
    events.append({"ev": "Finish", "n": len(picked)})
    if again:
        with warnings.catch_warnings():
            warnings.simplefilter("ignore")
            idx2 = np.asarray(simple_batch(u.copy(), random_state=seed, batch_size=bs, method=method))
        flat2 = np.ravel_multi_index(idx2.T, shape) if len(shape) > 1 and idx2.ndim == 2 else idx2.ravel()
        events.append({"ev": "Again", "picked": [int(j) + 1 for j in flat2]})
    return events, [u] + [r for r in rows], picked


def _finish_trace(events, arrays):
    ranks = ab.signed_ranks(*arrays)
    k = 1
    for e in events:
        if e["ev"] == "Pick":
            e["row"] = ranks[k]
            k += 1
    return ranks[0]


def _sb_case(arg):
    """worker: all executions for one abstract case -> (traces, evaluations, case tokens)"""
    from skactiveml.utils import simple_batch

    case, n_seeds, seed0, cseed = arg
    rng = np.random.default_rng(cseed)
    traces, n_eval, tokens = [], 0, []
    for case in [case]:
        ranks, bs, method = case["util"], case["bs"], case["method"]
        shape = tuple(case.get("shape", [len(ranks)]))
        # simple_batch validates its input with ensure_all_finite="allow-nan":
        # infinities are rejected with a ValueError (documented precondition),
        # so only finite values and NaN are generated here; negative utilities
        # are outside the envelope of the proportional method.
        if method == "proportional" and any(v != ab.NAN and v < 0 for v in ranks):
            continue
        variants = [("plain", False, False), ("random-floats", False, False), ("near-ties", False, False)]
        if method == "max":
            # magnitudes beyond 2^53 (v - 1 == v): fill values "below the minimum" collide with the minimum
            variants.append(("huge", False, False))
        else:
            # one candidate carries almost all of the weight (the others have normalised weights of 1e-6): a
            # sampling scheme must still never return a NaN / zero-weight position in their place
            variants.append(("skewed", False, False))
        for vname, lo, hi in variants:
            u = ab.concretise_ranks(ranks, lo_inf=lo, hi_inf=hi,
                                    rng=rng if vname == "random-floats" else None,
                                    near=(vname == "near-ties"),
                                    scale=1e300 if vname == "huge" else None).reshape(shape)
            if vname == "skewed":
                flat = np.array(u, dtype=float).ravel()
                pos = np.where(flat > 0)[0]
                if len(pos) < 2:
                    continue
                flat[pos[int(rng.integers(len(pos)))]] *= 1e6
                u = flat.reshape(shape)
            nonnan = [v for v in ranks if v != ab.NAN]
            n_tied = sum(1 for v in nonnan if v == max(nonnan)) if nonnan else 0
            # enough seeds that a tied optimum is missed with probability < e^-32
            seeds_here = max(4, n_seeds * n_tied) if method == "max" and n_tied > 1 else 4
            outcomes = {}
            first = set()
            for s in range(seeds_here):
                tag = ("array", "list", "view")[s % 3]
                events, arrays, picked = _simple_batch_trace(simple_batch, u, bs, method,
                                                             seed0 + s, tag, again=(s < 2))
                n_eval += 1
                util_r = _finish_trace(events, arrays)
                key = repr(events)
                if picked:
                    first.add(picked[0])
                if key not in outcomes:
                    outcomes[key] = {"id": "simple_batch/%s/%s/bs%d/%s/seed%d" % (
                        method, ranks, bs, vname, seed0 + s),
                        "util": util_r, "bs": bs, "method": method, "events": events,
                        "concrete": {"utilities": u.tolist(), "shape": list(shape), "seed": seed0 + s,
                                     "input_as": tag}}
            traces.extend(outcomes.values())
            if method == "max" and first:
                util_r = ab.signed_ranks(u)[0]
                traces.append({"id": "simple_batch/first-picks/%s/%s" % (ranks, vname), "util": util_r,
                               "bs": bs, "method": method,
                               "events": [{"ev": "FirstPicks", "set": sorted(first)}],
                               "concrete": {"utilities": u.tolist(), "shape": list(shape),
                                            "seeds": [seed0, seed0 + seeds_here - 1]}})
            nontriv = len(nonnan) >= 2 and (n_tied >= 2 or any(v == ab.NAN for v in ranks) or bs >= 2)
            if nontriv:
                tokens.append(("sb", tuple(ranks), bs, method, vname, shape))
    return traces, n_eval, tokens


def run_simple_batch(chk, cases, n_seeds, seed0, rng):
    from ..core import pmap

    seeds = rng.integers(0, 2 ** 31, size=len(cases)).tolist()
    out = pmap(_sb_case, [(c, n_seeds, seed0, s) for c, s in zip(cases, seeds)])
    traces = []
    for tr, n, toks in out:
        traces.extend(tr)
        chk.count(n)
        for t in toks:
            chk.case(t)
    return traces


def random_sb_cases(rng, n):
    cases = []
    for _ in range(n):
        if rng.random() < 0.3:
            shape = (int(rng.integers(2, 4)), int(rng.integers(2, 5)))
            method = "max"
        else:
            shape = (int(rng.integers(4, 13)),)
            method = "max" if rng.random() < 0.6 else "proportional"
        size = int(np.prod(shape))
        k = int(rng.integers(1, 5))
        lo = 0 if method == "proportional" else -2
        vals = rng.integers(lo, lo + k + 1, size=size).tolist()
        for i in range(size):
            if rng.random() < 0.2:
                vals[i] = ab.NAN
        cases.append({"util": vals, "bs": int(rng.integers(1, size + 2)), "method": method,
                      "shape": list(shape)})
    return cases


def _n_allowed(a_r, ndim, axis, is_max):
    """number of admissible results (product of tie counts per slice); only
    used to choose how many seeds are needed to reach all of them"""
    arr = np.array([[np.nan if v == ab.NAN else v for v in row] for row in a_r], dtype=float)
    if axis == "none" or ndim == 1:
        slices = [arr.ravel()]
    elif axis == "0":
        slices = [arr[:, j] for j in range(arr.shape[1])]
    else:
        slices = [arr[i, :] for i in range(arr.shape[0])]
    m = 1
    for sl in slices:
        sl = sl[~np.isnan(sl)]
        if len(sl):
            opt = sl.max() if is_max else sl.min()
            m *= int((sl == opt).sum())
    return m


def _ra_case(arg):
    from skactiveml.utils import rand_argmax, rand_argmin

    case, n_seeds, seed0 = arg
    traces, n_eval, tokens = [], 0, []
    for case in [case]:
        a_r, ndim, axis, is_max = case["a"], case["ndim"], case["axis"], case["isMax"]
        flat = [v for row in a_r for v in row]
        for vname, lo, hi in [("plain", False, False), ("inf", True, True), ("near-ties", False, False),
                              ("huge", False, False), ("uint8", False, False), ("int64-min", False, False),
                              ("bool", False, False), ("int64-big", False, False)]:
            if vname != "plain" and not any(v != ab.NAN and v != 0 for v in flat):
                continue
            if vname in ("uint8", "int64-min", "bool", "int64-big"):
                # integer-like dtypes (no NaN): the same order on unsigned / extreme signed / Boolean values,
                # for which "the minimum is the maximum of the negation" does not hold
                if any(v == ab.NAN for v in flat):
                    continue
                dv = sorted(set(flat))
                if vname == "bool":
                    if len(dv) > 2:
                        continue
                    arr = np.array([v == dv[-1] and len(dv) > 1 for v in flat], dtype=bool)
                elif vname == "uint8":
                    arr = np.array([dv.index(v) * 7 for v in flat], dtype=np.uint8)
                elif vname == "int64-big":
                    # neighbouring 64-bit integers beyond 2^53 (distinct as integers, equal once converted to float)
                    arr = np.array([2 ** 53 + dv.index(v) for v in flat], dtype=np.int64)
                else:
                    arr = np.array([np.iinfo(np.int64).min if v == dv[0] else dv.index(v) for v in flat], dtype=np.int64)
                arr = arr.reshape(len(a_r), len(a_r[0]))
            else:
                arr = ab.concretise_ranks(flat, lo_inf=lo, hi_inf=hi, near=(vname == "near-ties"),
                                          scale=1e300 if vname == "huge" else None).reshape(len(a_r), len(a_r[0]))
            if ndim == 1:
                arr = arr[0]
            fn = rand_argmax if is_max else rand_argmin
            kw = {} if axis == "none" else {"axis": int(axis)}
            events = []
            nonnan = [v for v in flat if v != ab.NAN]
            seeds_here = max(8, n_seeds * _n_allowed(a_r, ndim, axis, is_max))
            for s in list(range(seeds_here)) + [0, 1]:
                try:
                    with warnings.catch_warnings():
                        warnings.simplefilter("ignore")
                        with np.errstate(all="ignore"):
                            r = fn(arr.copy() if s % 2 else arr.tolist(), random_state=seed0 + s, **kw)
                except Exception as ex:      # the code under test raised: an event no action matches
                    events.append({"ev": "Raised", "exc": "%s: %s" % (type(ex).__name__, str(ex)[:160])})
                    n_eval += 1
                    break
                n_eval += 1
                r = np.asarray(r)
                if r.ndim != 1 or r.dtype.kind not in "iu":
                    events.append({"ev": "Malformed", "shape": list(r.shape), "dtype": str(r.dtype)})
                    break
                res = [int(v) + 1 for v in r]
                # only the first occurrence of a result and the repeated seeds
                # are logged (keeps the trace short; nothing is decided here)
                if s < 2 or not any(e["res"] == res for e in events):
                    events.append({"ev": "Return", "seed": s, "res": res})
            else:
                # every tied optimum must be reached by some seed; only claimed
                # when the number of allowed results is small enough for the
                # seeds used (<= 4 ties per slice product)
                if case.get("fair", True):
                    events.append({"ev": "AllReached"})
            if np.asarray(arr).dtype.kind in "iu":
                # integers are ranked as integers (exact also beyond 2^53, where neighbours collide as floats)
                iv = [int(v) for v in np.asarray(arr).ravel()]
                neg, pos = sorted({v for v in iv if v < 0}), sorted({v for v in iv if v > 0})
                ranks = [0 if v == 0 else (neg.index(v) - len(neg) if v < 0 else pos.index(v) + 1) for v in iv]
            else:
                ranks = ab.signed_ranks(np.asarray(arr, dtype=float))[0]
            a_abs = [ranks[i * len(a_r[0]):(i + 1) * len(a_r[0])] for i in range(len(a_r))]
            traces.append({"id": "%s/%s/axis=%s/%s" % (fn.__name__, a_r, axis, vname), "a": a_abs,
                           "ndim": ndim, "axis": axis, "isMax": is_max, "events": events,
                           "concrete": {"a": np.asarray(arr).tolist(), "seed0": seed0}})
            if len(nonnan) >= 2:
                tokens.append(("ra", repr(a_r), ndim, axis, is_max, vname))
    return traces, n_eval, tokens


def run_rand_arg(chk, cases, n_seeds, seed0):
    from ..core import pmap

    out = pmap(_ra_case, [(c, n_seeds, seed0) for c in cases])
    traces = []
    for tr, n, toks in out:
        traces.extend(tr)
        chk.count(n)
        for t in toks:
            chk.case(t)
    return traces


def main(tier="quick", seed=0):
    chk = Check("C18", tier, seed)
    import_repo()
    rng = np.random.default_rng(seed)
    quick = tier == "quick"
    chk.rule = ("cases = initial states of Selection (arrays over {NaN,-1,0,1,2}, len<=%d, all batch sizes, both "
                "methods) and RandArg (1-D/2-D arrays over {NaN,-1,0,1}, all axes, max/min) enumerated by TLC, "
                "plus random larger/2-D arrays; each executed under many seeds; non-trivial = at least two "
                "non-NaN entries and a tie, a NaN or batch_size>=2; distinct by (abstract array, batch size, "
                "method, concretisation)" % (3 if quick else 4))
    # (M)
    chk.model_check("MC_Selection", "MC_Selection.cfg" if quick else "MC_Selection_thorough.cfg")
    chk.model_check("MC_RandArg", "MC_RandArg.cfg")
    # (G)
    sb_cases = chk.generate("MC_Selection", "Selection_gen.cfg" if quick else "Selection_gen4.cfg")
    sb_cases += random_sb_cases(rng, 150 if quick else 3000)
    ra_cases = chk.generate("MC_RandArg", "RandArg_gen.cfg" if quick else "RandArg_gen23.cfg")
    n_seeds = 32 if quick else 64
    seed0 = 1000 * seed
    traces = run_simple_batch(chk, sb_cases, n_seeds, seed0, rng)
    chk.sample({"trace": traces[len(traces) // 2]})
    chk.validate("SelectionTrace", traces,
                 describe=lambda t: {"function": "skactiveml.utils.simple_batch", **t["concrete"],
                                     "batch_size": t["bs"], "method": t["method"]},
                 key_of=lambda t, r: "simple_batch|%s|%s" % (t["method"], ",".join(r["failed_clauses"]) or
                                                              (r["offending_event"] or {}).get("ev", "end")))
    rtraces = run_rand_arg(chk, ra_cases, n_seeds, seed0)
    chk.sample({"trace": rtraces[len(rtraces) // 3]})
    chk.validate("RandArgTrace", rtraces,
                 describe=lambda t: {"function": "skactiveml.utils." + t["id"].split("/")[0], **t["concrete"],
                                     "axis": t["axis"]},
                 key_of=lambda t, r: "%s|axis=%s|%s" % (t["id"].split("/")[0], t["axis"],
                                                         ",".join(r["failed_clauses"]) or "unmatched"))
    chk.exhaustive = False
    chk.assumptions = [
        "TLC 1.8 evaluates the modules correctly",
        "sign-preserving dense ranks keep every relation simple_batch/rand_argmax can observe",
        "proportional mode is only claimed for finite non-negative utilities; with fewer positive entries than the "
        "(clipped) batch size the only admissible outcome is the ValueError numpy raises",
        "tie fairness is decided from %d x (number of tied optima) seeds per case (miss probability < e^-32)" % n_seeds,
    ]
    return chk.finish()
