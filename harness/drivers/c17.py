"""C17 - annotation aggregation equals plain counting.

(M) TLC checks Aggregation exhaustively on small label matrices (counting
    identities of vote vectors, majority vote and confusion tensors).
(G) TLC enumerates the initial states of Aggregation as abstract cases (label
    matrix, integer weights, true labels, class mode); a few larger random
    matrices are added.  Every case is concretised under several label
    encodings (float + NaN, int 10/20/30 + -1, str + '', object + None), input
    forms (ndarray, nested list, 1-D for a single annotator) and weight forms
    (None, integers, halves) and executed on compute_vote_vectors,
    majority_vote (several seeds) and ext_confusion_matrix (all four
    normalisation modes).
(T) results are projected back (floats -> exact rationals [num, den], labels
    -> class index / -1 / -99) and written as traces; AggregationTrace.tla
    recomputes votes, admissible majority labels and confusion tensors and
    validates every event.

Nothing is judged in this file: it chooses inputs, calls, projects and logs.
"""

import json
import math
from fractions import Fraction

import numpy as np

from ..core import Check, import_repo, pmap

UNMATCHED = -99
UNMATCHED_RAT = [-1, 1]

# (name, dtype, class values, sentinel)
ENCODINGS = [("float+nan", float, [0, 1, 2, 3], np.nan),
             ("int10+(-1)", int, [10, 20, 30, 40], -1),
             ("str+''", str, ["a", "b", "c", "d"], ""),
             # (a sentinel wider than every class name: the result dtype must still hold it)
             ("str+'unlabeled'", str, ["a", "b", "c", "d"], "unlabeled"),
             ("object+None", object, ["a", "b", "c", "d"], None)]
NORMS = [("none", None), ("true", "true"), ("pred", "pred"), ("all", "all")]


def rational(x):
    """observed float -> exact small rational [num, den] (or the unmatched value)"""
    try:
        x = float(x)
    except (TypeError, ValueError):
        return list(UNMATCHED_RAT)
    if not math.isfinite(x):
        return list(UNMATCHED_RAT)
    fr = Fraction(x).limit_denominator(1000)
    if abs(float(fr) - x) > 1e-12:
        return list(UNMATCHED_RAT)
    return [fr.numerator, fr.denominator]


def _is_number(v):
    return isinstance(v, (int, float, np.integer, np.floating)) and not isinstance(v, (bool, np.bool_))


def project(v, classes, sent):
    if sent is None:
        if v is None:
            return -1
    elif isinstance(sent, float) and sent != sent:
        if isinstance(v, (float, np.floating)) and v != v:
            return -1
    elif isinstance(sent, str):
        if isinstance(v, str) and v == sent:
            return -1
    elif _is_number(v) and v == sent:
        return -1
    for i, c in enumerate(classes):
        if isinstance(c, str):
            if isinstance(v, str) and v == c:
                return i
        elif _is_number(v) and v == c:
            return i
    return UNMATCHED


def concretise(mat, dtype, classes, sent):
    n, a = len(mat), len(mat[0])
    arr = np.empty((n, a), dtype=object)
    for i in range(n):
        for j in range(a):
            arr[i, j] = sent if mat[i][j] == -1 else classes[mat[i][j]]
    return arr if dtype is object else arr.astype(dtype)


def _try(fn, *a, **k):
    try:
        return True, fn(*a, **k)
    except Exception as ex:  # the specification decides whether raising was right
        return False, type(ex).__name__


def _nested(arr, f):
    if arr.ndim == 1:
        return [f(v) for v in arr.tolist()]
    return [_nested(sub, f) for sub in arr]


def _same(a, b):
    if a is None or b is None:
        return a is b
    try:
        if a != a and b != b:
            return True
    except Exception:
        pass
    return a == b


def run_case(arg):
    """all executions of one abstract case -> (traces, n_calls, n_majority_results)"""
    from skactiveml.utils import compute_vote_vectors, ext_confusion_matrix, majority_vote

    case, n_enc, n_seeds, cseed = arg
    rng = np.random.default_rng(cseed)
    encs = list(range(len(ENCODINGS)))
    if n_enc < len(encs):
        encs = sorted(rng.choice(len(encs), size=n_enc, replace=False).tolist())
    seen = {}
    n_calls = 0
    base = {"y": case["y"], "w": case["w"], "ytrue": case["ytrue"], "K": case["K"],
            "explicit": case["explicit"], "mode": case["mode"]}
    n, a = len(case["y"]), len(case["y"][0])

    def add(events, wscale, concrete, fn, cfg, w_abs=None):
        tr = dict(base, wscale=wscale, events=events, fn=fn, cfg=cfg, concrete=concrete)
        if w_abs is not None:
            tr["w"] = w_abs
        key = json.dumps([wscale, events], sort_keys=True)
        if key in seen:
            seen[key]["executions"] += 1
        else:
            tr["executions"] = 1
            tr["id"] = "%s/%s/K%d/%s/%s/%s" % (fn, json.dumps(case["y"], separators=(",", ":")), case["K"],
                                             "classes" if case["explicit"] else "inferred", cfg,
                                             concrete["encoding"])
            seen[key] = tr

    for e in encs:
        ename, dtype, cvals, sent = ENCODINGS[e]
        classes = list(cvals[:case["K"]]) if case["explicit"] else None
        y = concretise(case["y"], dtype, cvals, sent)
        forms = ["ndarray", "list"] + (["1d"] if a == 1 else [])
        form = forms[int(rng.integers(len(forms)))]
        y_in = y.tolist() if form == "list" else (y[:, 0] if form == "1d" else y)
        conc = {"encoding": ename, "y": repr(y_in), "classes": repr(classes), "missing_label": repr(sent),
                "input_as": form}
        if case["mode"] == "vote":
            unit = all(v == 1 for row in case["w"] for v in row)
            # "near": large weights that differ by one part in 1e5 (a tolerance-based tie test would call them equal)
            wforms = ["int", "half", "float", "near"] + (["None"] if unit else [])
            wform = wforms[int(rng.integers(len(wforms)))]
            wscale = [1, 2] if wform == "half" else [1, 1]
            w_abs = None
            if wform == "None":
                w_in = None
            else:
                if wform == "near":
                    w_abs = [[100000 + v if v > 0 else 0 for v in row] for row in case["w"]]
                w_arr = np.array(w_abs if w_abs is not None else case["w"], dtype=int if wform == "int" else float)
                if wform == "half":
                    w_arr = w_arr * 0.5
                if form == "1d":
                    w_arr = w_arr[:, 0]
                w_in = w_arr.tolist() if form == "list" else w_arr
            # memory layout: labels stored annotator-major and handed over as a transposed view (Fortran order), or the
            # weights in Fortran order - position (i, a) of one array belongs to position (i, a) of the other whatever
            # the layouts are
            if isinstance(y_in, np.ndarray) and y_in.ndim == 2 and min(y_in.shape) > 1:
                lay = int(rng.integers(4))
                if lay in (1, 3):
                    y_in = np.ascontiguousarray(y_in.T).T
                if lay in (2, 3) and isinstance(w_in, np.ndarray):
                    w_in = np.asfortranarray(w_in)
                if lay:
                    conc = dict(conc, memory_layout={1: "y Fortran-ordered", 2: "w Fortran-ordered",
                                                     3: "y and w Fortran-ordered"}[lay])
            conc = dict(conc, w=repr(w_in))
            # an annotation loop re-uses its weight matrix while the label matrix fills up: before the observed
            # call the same weight array serves a call on an earlier stage of y (some labels still missing);
            # half of the remaining ndarray weights are passed read-only (a view of broadcast confidences)
            if isinstance(w_in, np.ndarray) and w_in.dtype.kind == "f" and isinstance(y_in, np.ndarray):
                pre = int(rng.integers(3))
                if pre == 0:
                    try:
                        y_pre = y_in.copy()
                        flat = y_pre.reshape(-1)
                        idx = [k for k in range(flat.size) if rng.random() < 0.5]
                        for k in idx:
                            flat[k] = sent
                        if idx and all(_same(flat[k], sent) for k in idx):      # (the dtype can hold the sentinel)
                            _try(compute_vote_vectors, y_pre, w=w_in, classes=classes, missing_label=sent)
                            conc = dict(conc, earlier_call_with_same_w="labels at flat positions %s still missing" % idx)
                    except (TypeError, ValueError):
                        pass
                elif pre == 1:
                    w_in.setflags(write=False)
                    conc = dict(conc, w_read_only=True)
            # compute_vote_vectors
            ok, out = _try(compute_vote_vectors, y_in, w=w_in, classes=classes, missing_label=sent)
            n_calls += 1
            if not ok:
                ev = {"ev": "Raised", "fn": "compute_vote_vectors", "exc": out}
            elif not isinstance(out, np.ndarray) or out.ndim != 2 or out.dtype.kind not in "fiu":
                ev = {"ev": "Malformed", "fn": "compute_vote_vectors", "type": type(out).__name__,
                      "shape": list(np.shape(out))}
            else:
                ev = {"ev": "Votes", "shape": [int(s) for s in out.shape], "res": _nested(out, rational)}
            add([ev], wscale, dict(conc, call="compute_vote_vectors(y, w=w, classes=classes, missing_label=..)"),
                "compute_vote_vectors", "w=" + wform, w_abs)
            # majority_vote under several seeds; every distinct result is logged
            events, results = [], set()
            for s in range(n_seeds):
                ok, out = _try(majority_vote, y_in, w=w_in, classes=classes, missing_label=sent,
                               random_state=int(cseed % 1000) + s)
                n_calls += 1
                if not ok:
                    ev = {"ev": "Raised", "fn": "majority_vote", "exc": out}
                elif not isinstance(out, np.ndarray) or out.ndim != 1:
                    ev = {"ev": "Malformed", "fn": "majority_vote", "type": type(out).__name__,
                          "shape": list(np.shape(out))}
                else:
                    ev = {"ev": "Majority", "res": [project(v, cvals, sent) for v in out.tolist()]}
                k = json.dumps(ev, sort_keys=True)
                if k not in results:
                    results.add(k)
                    events.append(ev)
            add(events, wscale, dict(conc, call="majority_vote(y, w=w, classes=classes, missing_label=.., "
                                     "random_state=%d..%d)" % (int(cseed % 1000), int(cseed % 1000) + n_seeds - 1)),
                "majority_vote", "w=" + wform, w_abs)
        else:
            yt = np.array([cvals[v] for v in case["ytrue"]], dtype=dtype)
            yt_in = yt.tolist() if form == "list" else yt
            for nname, norm in NORMS:
                ok, out = _try(ext_confusion_matrix, yt_in, y_in, classes=classes, missing_label=sent,
                               normalize=norm)
                n_calls += 1
                if not ok:
                    ev = {"ev": "Raised", "fn": "ext_confusion_matrix", "exc": out}
                elif not isinstance(out, np.ndarray) or out.ndim != 3 or out.dtype.kind not in "fiu":
                    ev = {"ev": "Malformed", "fn": "ext_confusion_matrix", "type": type(out).__name__,
                          "shape": list(np.shape(out))}
                else:
                    ev = {"ev": "Confusion", "norm": nname, "shape": [int(s) for s in out.shape],
                          "res": _nested(out, rational)}
                add([ev], [1, 1], dict(conc, y_true=repr(yt_in),
                                       call="ext_confusion_matrix(y_true, y, classes=classes, missing_label=.., "
                                            "normalize=%r)" % norm),
                    "ext_confusion_matrix", "normalize=%s" % norm)
    return list(seen.values()), n_calls


def random_cases(rng, n, max_w):
    """larger matrices than the exhaustive scope (inputs only)"""
    out = []
    for _ in range(n):
        N, A, K = int(rng.integers(2, 6)), int(rng.integers(2, 5)), int(rng.integers(2, 5))
        p_missing = rng.choice([0.1, 0.4, 0.7])
        y = [[-1 if rng.random() < p_missing else int(rng.integers(K)) for _ in range(A)] for _ in range(N)]
        explicit = bool(rng.integers(2))
        if rng.random() < 0.5:
            w = [[1 if y[i][a] == -1 else int(rng.integers(max_w + 1)) for a in range(A)] for i in range(N)]
            out.append({"y": y, "w": w, "ytrue": [0] * N, "K": K, "explicit": explicit, "mode": "vote"})
        else:
            out.append({"y": y, "w": [[1] * A for _ in range(N)], "ytrue": [int(rng.integers(K)) for _ in range(N)],
                        "K": K, "explicit": explicit, "mode": "conf"})
    return out


def key_of(trace, rej):
    ev = rej["offending_event"] or {}
    what = ",".join(rej["failed_clauses"]) or (
        "raised-" + str(ev.get("exc")) if ev.get("ev") == "Raised" else str(ev.get("ev", "unmatched")).lower())
    if trace["fn"] == "ext_confusion_matrix":
        # one configuration class per normalisation mode
        return "%s|%s|%s" % (trace["fn"], trace["cfg"], what)
    return "%s|%s,%s|%s" % (trace["fn"], trace["cfg"], "classes" if trace["explicit"] else "inferred", what)


def _nontrivial(t):
    labels = [v for row in t["y"] for v in row if v != -1]
    return len(labels) >= 2 and (len(set(labels)) >= 2 or any(v == -1 for row in t["y"] for v in row))


def main(tier="quick", seed=0):
    chk = Check("C17", tier, seed)
    import_repo()
    rng = np.random.default_rng(seed)
    quick = tier == "quick"
    # (M)
    chk.model_check("MC_Aggregation", "MC_Aggregation.cfg" if quick else "MC_Aggregation_thorough.cfg")
    # (G)
    cases = chk.generate("MC_Aggregation", "Aggregation_gen.cfg" if quick else "Aggregation_gen_thorough.cfg")
    vote = [c for c in cases if c["mode"] == "vote"]
    conf = [c for c in cases if c["mode"] == "conf"]
    n_generated = len(cases)
    n_vote, n_conf = (1500, 1000) if quick else (35000, len(conf))
    vote = [vote[i] for i in sorted(rng.choice(len(vote), size=min(len(vote), n_vote), replace=False))]
    conf = [conf[i] for i in sorted(rng.choice(len(conf), size=min(len(conf), n_conf), replace=False))]
    extra = random_cases(rng, 150 if quick else 3000, 2 if quick else 3)
    used = vote + conf + extra
    n_enc = 2                      # seeded choice of 2 of the 4 encodings per case
    n_seeds = 4 if quick else 8
    seeds = rng.integers(0, 2 ** 31, size=len(used)).tolist()
    out = pmap(run_case, [(c, n_enc, n_seeds, s) for c, s in zip(used, seeds)])
    traces = []
    for tr, n_calls in out:
        traces.extend(tr)
        chk.count(n_calls)
    n_maj = 0
    for t in traces:
        if _nontrivial(t):
            chk.case((json.dumps([t["y"], t["w"], t["ytrue"]]), t["K"], t["explicit"], t["fn"], t["cfg"]))
        if t["fn"] == "majority_vote":
            n_maj += len(t["events"])
    for fn in ("compute_vote_vectors", "majority_vote", "ext_confusion_matrix"):
        mine = [t for t in traces if t["fn"] == fn and _nontrivial(t)]
        if mine:
            chk.sample({"trace": mine[len(mine) // 2]})
    chk.extra["abstract_cases"] = len(used)
    chk.extra["cases_enumerated_by_tlc"] = n_generated
    chk.extra["distinct_majority_results_logged"] = n_maj
    chk.rule = ("cases = initial states of Aggregation enumerated by TLC (label matrices of the shapes 1x1..2x2, 1x3, "
                "3x1 over classes 0..K-1, K <= 3, and the missing marker; 'vote' cases vary integer weights in "
                "0..%d, 'conf' cases vary the true labels; with and without an explicit class list)%s plus %d random "
                "matrices up to 5x4 with up to 4 classes; each case runs under %d of 4 label encodings with seeded "
                "input / weight forms, majority_vote under %d seeds, ext_confusion_matrix under all 4 "
                "normalisations; traces with identical abstract content are validated once; evaluations = calls of "
                "the library; non-trivial = at least two labels and (two different classes or a missing entry), "
                "distinct by (matrix, weights, true labels, K, class mode, function, weight form / normalisation)"
                % (2 if quick else 3, " (seeded sample of %d vote and %d conf cases)" % (len(vote), len(conf)),
                   len(extra), n_enc, n_seeds))
    chk.validate("AggregationTrace", traces,
                 describe=lambda t: dict(t["concrete"], function="skactiveml.utils." + t["fn"]),
                 key_of=key_of)
    chk.exhaustive = False
    chk.assumptions = [
        "TLC 1.8 evaluates the modules correctly",
        "integer and half-integer weights and counts <= 20 make every float the code computes exactly the rational "
        "the specification computes (observed floats are logged as Fraction(x).limit_denominator(1000) when that "
        "reproduces x within 1e-12, otherwise as an unmatched value)",
        "majority_vote: any class with maximal vote is accepted (ties are broken by rand_argmax); reachability of "
        "every tied class is not claimed, the docstring does not promise it",
        "ext_confusion_matrix: entries whose normaliser is 0 are unspecified by the docstring and accepted as they "
        "are, except for an annotator without any label, which the repository's own test pins to the uniform "
        "matrix ('true', 'pred') resp. a matrix summing to one ('all')",
        "y_true never contains missing labels, weights are finite and non-negative (documented preconditions)",
    ]
    return chk.finish()
