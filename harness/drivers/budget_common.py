"""Recording traces of the real budget managers / baseline stream strategies in
the exact dyadic regime (DESIGN 2.2) for validation against BudgetTrace.tla.

Nothing is judged here: the functions build the objects, feed TLC-chosen
streams under TLC-chosen chunkings, and log after every public call the result
and the projected committed state."""

import warnings
from fractions import Fraction

import numpy as np

from .. import abstraction as ab

KINDS = ["Fixed", "Variable", "RandomVariable", "Split", "Random", "DensitySplit", "BIQF",
         "Periodic", "StreamRandom"]
RND_KINDS = {"Split", "Random", "StreamRandom"}
RNG_OBJ_KINDS = {"RandomVariable", "Split", "Random", "DensitySplit", "Periodic", "StreamRandom"}
STRATEGY_KINDS = {"Periodic", "StreamRandom"}


def max_len(kind, W):
    """longest stream for which all cross-multiplied terms stay below 2^31"""
    if kind in ("Periodic", "StreamRandom", "DensitySplit"):
        return 14
    if kind == "BIQF":
        return 10
    return {2: 14, 4: 11, 8: 7}[W]


def make(kind, prm, seed):
    from skactiveml.stream import PeriodicSampling, StreamRandomSampling
    from skactiveml.stream import budgetmanager as bm

    b = float(Fraction(*prm["B"]))
    W = prm["W"]
    s = float(Fraction(*prm["S"]))
    th = float(Fraction(*prm["Theta0"]))
    if kind == "Fixed":
        return bm.FixedUncertaintyBudgetManager(classes=list(range(prm["K"])), w=W, budget=b)
    if kind == "Variable":
        return bm.VariableUncertaintyBudgetManager(theta=th, s=s, w=W, budget=b)
    if kind == "RandomVariable":
        return bm.RandomVariableUncertaintyBudgetManager(delta=1e-9 if prm.get("Sharp") else 1.0, theta=th, s=s,
                                                         random_state=seed, w=W, budget=b)
    if kind == "Split":
        return bm.SplitBudgetManager(v=prm["v"], theta=th, s=s, random_state=seed, w=W, budget=b)
    if kind == "Random":
        return bm.RandomBudgetManager(random_state=seed, w=W, budget=b)
    if kind == "DensitySplit":
        return bm.DensityBasedSplitBudgetManager(theta=th, s=s, delta=1e-9 if prm.get("Sharp") else 1.0, random_state=seed,
                                                 budget=b)
    if kind == "BIQF":
        return bm.BalancedIncrementalQuantileFilter(w=W, w_tol=float(Fraction(*prm["WTol"])), budget=b)
    if kind == "Periodic":
        return PeriodicSampling(budget=b, random_state=seed)
    if kind == "StreamRandom":
        return StreamRandomSampling(allow_exceeding_budget=prm["Allow"], budget=b, random_state=seed)
    raise ValueError(kind)


THIN = {"Fixed": "FixedUncertainty", "Variable": "VariableUncertainty",
        "RandomVariable": "RandomVariableUncertainty", "Split": "Split"}


def make_stub_clf():
    """a classifier whose predict_proba is prescribed by the candidate's first
    feature: the classifier is the environment of the stream strategies, the
    scenario chooses its outputs (utility = 1 - max proba)"""
    from skactiveml.base import SkactivemlClassifier

    class StubClassifier(SkactivemlClassifier):
        def __init__(self, classes=None, missing_label=np.nan, cost_matrix=None, random_state=None):
            super().__init__(classes=classes, missing_label=missing_label, cost_matrix=cost_matrix,
                             random_state=random_state)

        def fit(self, X, y, sample_weight=None):
            return self

        def predict_proba(self, X):
            v = np.asarray(X, dtype=float)[:, 0]
            u = np.where(v < 0, np.nan, v / 16.0)
            return np.stack([1 - u, u], axis=1)

    return StubClassifier(classes=[0, 1])


def make_thin(kind, prm, seed):
    """the uncertainty strategy of the kind around an explicit manager with the exact-regime parameters"""
    from skactiveml import stream as st

    mgr = make(kind, prm, seed)
    cls = getattr(st, THIN[kind])
    if kind == "Fixed":
        return cls(classes=[0, 1], budget_manager=mgr, random_state=seed + 1)
    return cls(budget_manager=mgr, random_state=seed + 1)


class RefStream:
    """Reference uniform stream of RandomState(seed): the Booleans the code can
    observe per position, and a map generator-state -> position."""

    def __init__(self, seed, n, budget, v):
        rs = np.random.RandomState(seed)
        self.pos_of = {}
        self.rnd = []
        for k in range(n + 1):
            self.pos_of[self._key(rs)] = k
            r = rs.random_sample()
            self.rnd.append({"vgt": bool(v > r), "leb": bool(r <= budget), "geb": bool(r >= 1 - budget)})

    @staticmethod
    def _key(rs):
        st = rs.get_state()
        return (st[1].tobytes(), int(st[2]), int(st[3]), float(st[4]))

    def position(self, rs):
        return self.pos_of.get(self._key(rs), -1)


def _rat(x, limit=2 ** 30):
    """exact [num, den] of a float/int; values outside the exact regime are
    logged as [-1, 1] (no state of the specification matches them)"""
    try:
        f = Fraction(x)
    except (ValueError, OverflowError, TypeError):
        return [-1, 1]
    if abs(f.numerator) > limit or f.denominator > limit:
        return [-1, 1]
    return [f.numerator, f.denominator]


def _int(x):
    try:
        f = float(x)
        return int(f) if f == int(f) and abs(f) < 2 ** 30 else -1
    except Exception:
        return -1


def project(obj, kind, prm, ref):
    if hasattr(obj, "budget_manager_") or (hasattr(obj, "budget_manager") and kind in THIN
                                           and not hasattr(obj, "query_by_utility")):
        # a strategy around a manager: the committed state is the nested manager's; the strategy's own
        # generator must still be the freshly seeded one (it is only used to derive the manager's seed)
        own = getattr(obj, "random_state_", None)
        st = project(getattr(obj, "budget_manager_", obj.budget_manager), kind, prm, ref)
        if own is not None and obj._verif_own_rng != RefStream._key(own):
            st["pos"] = -1
        return st
    th0 = float(Fraction(*prm["Theta0"]))
    rs = getattr(obj, "random_state_", None)
    pos = 0
    if kind in RNG_OBJ_KINDS and rs is not None and ref is not None:
        pos = ref.position(rs)
    if kind == "Periodic":
        pos = 0 if pos >= 0 else -1  # never consumes random numbers
    return {
        "u": _rat(getattr(obj, "u_t_", 0)),
        "th": _rat(getattr(obj, "theta_", th0)),
        "t": _int(getattr(obj, "t_", 0)) if kind == "DensitySplit" else 0,
        "cnt": _int(getattr(obj, "u_", 0)),
        "obs": _int(getattr(obj, "observed_samples_", 0)),
        "qd": _int(getattr(obj, "queried_samples_", 0)),
        "hist": [_rat(x) for x in getattr(obj, "history_sorted_", [])],
        "pos": pos,
    }


def util_rat(v16):
    if v16 < 0:
        return [0, 0]
    f = Fraction(v16, 16)
    return [f.numerator, f.denominator]


def util_float(v16):
    return np.nan if v16 < 0 else v16 / 16.0


def chunks_of(stream, cuts):
    cuts = sorted(c for c in cuts if 0 < c < len(stream))
    edges = [0] + cuts + [len(stream)]
    return [stream[a:b] for a, b in zip(edges[:-1], edges[1:])]


def default_params(kind, W, B, allow=False, sharp=None):
    """sharp: the managers whose decision multiplies theta with a normal deviate are constructed with a negligible
    delta, so that the deviate decides exact ties only and Budget.tla predicts every other decision (default for
    those kinds; sharp=False keeps delta=1 with the decision left to the environment)"""
    if sharp is None:
        sharp = kind in ("RandomVariable", "DensitySplit")
    return {"kind": kind, "W": W, "B": list(B), "S": [1, 2], "Theta0": [1, 1], "K": 2,
            "WTol": [2, 1], "Allow": bool(allow), "Stale": False, "Sharp": bool(sharp), "v": 0.5}


def record(kind, prm, stream16, cuts, twice, seed, extra_query_other=False, thin=False):
    """Run one scenario on a fresh object; returns the trace dict.  thin=True
    drives the uncertainty stream strategy of the kind (stub classifier,
    explicit manager) instead of the bare manager."""
    b = float(Fraction(*prm["B"]))
    needs_ref = kind in RNG_OBJ_KINDS
    ref = RefStream(seed, 2 * len(stream16) + 4, b, prm["v"]) if needs_ref else None
    if thin:
        obj = make_thin(kind, prm, seed)
        obj._verif_own_rng = RefStream._key(np.random.RandomState(seed + 1))
        stub = make_stub_clf()
        # utility = 1 - max(1 - v/16, v/16): the abstract chunk holds the utilities the strategy derives
        stream_abs = [(-1 if v < 0 else min(v, 16 - v)) for v in stream16]
    else:
        obj = make(kind, prm, seed)
        stream_abs = list(stream16)
    events = []
    P = {k: prm[k] for k in ("kind", "W", "B", "S", "Theta0", "K", "WTol", "Allow", "Stale", "Sharp")}
    for chunk_raw, chunk in zip(chunks_of(stream16, cuts), chunks_of(stream_abs, cuts)):
        utils = np.array([util_float(v) for v in chunk], dtype=float)
        # (bare managers / baseline strategies only count the candidates: 1-3 feature columns)
        cand = np.array([[float(v)] for v in chunk_raw]) if thin else np.zeros((len(chunk), 1 + seed % 3))
        reps = 2 if twice else 1
        res = None
        for _ in range(reps):
            ev = {"ev": "Query", "chunk": [util_rat(v) for v in chunk]}
            try:
                with warnings.catch_warnings():
                    warnings.simplefilter("ignore")
                    if thin:
                        res, ut = obj.query(cand, clf=stub, return_utilities=True)
                        ua = np.asarray(ut, dtype=float)
                        same = ua.shape == utils.shape and bool(np.all((ua == utils) | (np.isnan(ua) & np.isnan(utils))))
                        ev["nutil"] = int(ua.shape[0]) if (ua.ndim == 1 and same) else -1
                    elif kind in STRATEGY_KINDS:
                        res, ut = obj.query(cand, return_utilities=True)
                        ev["nutil"] = int(np.asarray(ut).shape[0]) if np.asarray(ut).ndim == 1 else -1
                    else:
                        res = obj.query_by_utility(utils.copy())
                        ev["nutil"] = len(chunk)
                r = np.asarray(res)
                if r.ndim != 1 or (r.size and r.dtype.kind not in "iu"):
                    ev = {"ev": "QueryMalformed", "shape": list(r.shape), "dtype": str(r.dtype)}
                else:
                    ev["res"] = [int(i) + 1 for i in r]
                    ev["st"] = project(obj, kind, prm, ref)
            except Exception as ex:  # logged on the error path too
                ev = {"ev": "QueryRaised", "exc": "%s: %s" % (type(ex).__name__, ex)}
                res = None
            events.append(ev)
            if ev["ev"] != "Query":
                break
        if events[-1]["ev"] != "Query":
            break
        ev = {"ev": "Update", "len": len(chunk), "q": [int(i) + 1 for i in np.asarray(res)],
              "xs": [util_rat(v) for v in chunk]}
        try:
            with warnings.catch_warnings():
                warnings.simplefilter("ignore")
                if kind == "BIQF":
                    obj.update(cand, res, utils.copy())
                else:
                    obj.update(cand, np.asarray(res, dtype=int))
            ev["st"] = project(obj, kind, prm, ref)
        except Exception as ex:
            ev = {"ev": "UpdateRaised", "exc": "%s: %s" % (type(ex).__name__, ex)}
        events.append(ev)
        if ev["ev"] != "Update":
            break
    return {
        "id": "%s%s/W%d/B%d_%d/%s/cuts%s/%s/seed%d" % (THIN[kind] + ":" if thin else "", kind, prm["W"], prm["B"][0], prm["B"][1], stream16,
                                                      sorted(cuts), "twice" if twice else "once", seed),
        "P": P, "rnd": ref.rnd if (ref is not None and kind in RND_KINDS) else [],
        "events": events,
        "concrete": {"kind": kind, "via_strategy": THIN[kind] if thin else None, "params": prm,
                     "utilities_in_sixteenths": list(stream_abs), "stub_features": list(stream16),
                     "cuts": sorted(cuts), "twice": bool(twice), "seed": seed},
    }


def finding_key(tr, rej):
    ev = (rej["offending_event"] or {}).get("ev", "end")
    who = tr["id"].split("/")[0]
    return "%s|%s|%s" % (who, ev, ",".join(rej["failed_clauses"]) or "unmatched")


def describe(tr):
    return {"how": "harness.drivers.budget_common.record(**concrete) re-runs this history", **tr["concrete"]}
