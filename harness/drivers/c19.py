"""C19 - index-based incremental refitting equals retraining from scratch.

(M) TLC checks IndexWrapper (the bookkeeping of
    skactiveml/pool/utils.py:IndexClassifierWrapper as a state machine)
    exhaustively: all operation sequences up to a depth, all 8 flag
    combinations x 3 classifier kinds x stored weights x prefit modes.
(G) TLC generates behaviours of the same module (history variable printed as
    JSON): exhaustively for a small call alphabet and as random walks
    (-simulate) over the wide alphabet.  Every behaviour carries, computed by
    TLC, the state after each call (the implied training set).
    Each behaviour is replayed into a real IndexClassifierWrapper around
    ParzenWindowClassifier (speed-up on/off), SklearnClassifier(GaussianNB)
    (native partial_fit, ignore_partial_fit on/off) and
    SklearnClassifier(LogisticRegression).  After every call the driver logs
    the projected wrapper state, the wrapper's predictions on all samples,
    the predictions of a REFERENCE - a fresh copy of the wrapped classifier
    trained from scratch on the training set TLC computed - and, for the
    speed-up, the predictions of a twin wrapper without speed-up.
(T) IndexWrapperTrace (TLC) validates every logged run: calls/raises are the
    steps the specification allows, the projected state equals cur/base, the
    reference was trained on the implied set, wrapper == reference and
    speed-up == no speed-up within a band of 2 * 2^-20.

Python only concretises, calls and projects; every verdict is a clause of
IndexWrapperTrace.tla.
"""

import os
import warnings
from concurrent.futures import ThreadPoolExecutor

import numpy as np

from .. import tlc
from ..core import Check, import_repo, pmap

UNIT = 1 << 20          # fixed point: 2^-20
LIMIT = 1 << 30

# --------------------------------------------------------------------------
# the wrapped classifiers (always built fresh: "a fresh copy of the wrapped
# classifier" has the constructor parameters the user wrote)
VARIANTS = {
    "pwc": ["pwc-default", "pwc-gamma", "pwc-knn", "pwc-gamma-mean"],
    "nb": ["nb-default", "nb-smooth"],
    "lr": ["lr-default", "lr-C10"],
}


def make_clf(variant):
    from sklearn.linear_model import LogisticRegression
    from sklearn.naive_bayes import GaussianNB

    from skactiveml.classifier import ParzenWindowClassifier, SklearnClassifier

    cl = [0, 1]
    if variant == "pwc-default":
        return ParzenWindowClassifier(classes=cl, random_state=0)
    if variant == "pwc-gamma":
        return ParzenWindowClassifier(classes=cl, metric_dict={"gamma": 0.7}, class_prior=0.5, random_state=0)
    if variant == "pwc-knn":
        return ParzenWindowClassifier(classes=cl, n_neighbors=2, random_state=0)
    if variant == "pwc-gamma-mean":
        return ParzenWindowClassifier(classes=cl, metric_dict={"gamma": "mean"}, random_state=0)
    if variant == "nb-default":
        return SklearnClassifier(GaussianNB(), classes=cl, random_state=0)
    if variant == "nb-smooth":
        return SklearnClassifier(GaussianNB(var_smoothing=0.25), classes=cl, random_state=0)
    if variant == "lr-default":
        return SklearnClassifier(LogisticRegression(), classes=cl, random_state=0)
    if variant == "lr-C10":
        return SklearnClassifier(LogisticRegression(C=10.0), classes=cl, random_state=0)
    raise KeyError(variant)


def make_X(n, geom, rng):
    if geom == "grid":
        pts = np.array([[0, 0], [2, 1], [1, 3], [3, 3], [4, 0], [0, 4]], dtype=float)
        return pts[rng.permutation(len(pts))[:n]].copy()
    X = np.round(rng.normal(size=(n, 2)) * 1.5, 3)
    if geom == "dup" and n >= 2:
        X[1] = X[0]
    return X


# --------------------------------------------------------------------------
# concretisers / projections
def lab_c(l):
    return np.nan if l == -1 else float(l)


# how the abstract weights {1, 2} are presented (set per replay): plain = 1.0 / 2.0 as floats; fractional = 1 / 2.5,
# a weight vector of ones being handed over with an INTEGER dtype (stored integer weights followed by fractional
# ones: the weight vector must be promoted, never truncated)
WVAL = {1: 1.0, 2: 2.0}
SHUFFLED_PREDICT = False
FRACTIONAL = {1: 1.0, 2: 2.5}
PLAIN = {1: 1.0, 2: 2.0}


def conc_w(ws):
    """abstract weights -> concrete list (ints for all-ones vectors in the fractional presentation)"""
    if WVAL is FRACTIONAL and all(v == 1 for v in ws):
        return [1 for _ in ws]
    return [float(WVAL[v]) for v in ws]


def conc_args(a, as_array):
    idx = [i - 1 for i in a["I"]]
    y = None if not a["Y"] else [lab_c(v) for v in a["Y"]]
    w = None if not a["W"] else conc_w(a["W"])
    if as_array:
        idx = np.array(idx, dtype=int)
        y = None if y is None else np.array(y, dtype=float)
        w = None if w is None else np.array(w)
    return idx, y, w


def triples_of(idx, y, sw):
    """idx_/y_/sample_weight_ -> [[sample, label, weight], ...] or None if malformed"""
    try:
        idx = np.asarray(idx)
        y = np.asarray(y, dtype=float)
        if idx.ndim != 1 or y.shape != idx.shape or idx.dtype.kind not in "iu":
            return None
        if sw is not None:
            sw = np.asarray(sw, dtype=float)
            if sw.shape != idx.shape:
                return None
        out = []
        for k in range(len(idx)):
            lbl = -1 if np.isnan(y[k]) else int(y[k])
            if lbl != -1 and float(lbl) != float(y[k]):
                return None
            if sw is None:
                wt = 0
            else:
                wt = [k_ for k_, v_ in WVAL.items() if float(v_) == float(sw[k])]
                if not wt:
                    return None
                wt = wt[0]
            out.append([int(idx[k]) + 1, lbl, wt])
        return out
    except Exception:
        return None


def project_state(w):
    d = w.__dict__
    st = {"ok": True, "fitted": bool(w.is_fitted()), "hasBase": bool(w.is_fitted(base_clf=True)),
          "known": "idx_" in d, "cur": [], "bknown": "base_idx_" in d, "base": []}
    if st["known"]:
        t = triples_of(d.get("idx_"), d.get("y_"), d.get("sample_weight_"))
        if t is None:
            st["ok"] = False
        else:
            st["cur"] = t
    if st["bknown"]:
        t = triples_of(d.get("base_idx_"), d.get("base_y_"), d.get("base_sample_weight_"))
        if t is None:
            st["ok"] = False
        else:
            st["base"] = t
    return st


def fx(a):
    return [int(v) for v in np.rint(np.asarray(a, dtype=float).ravel() * UNIT)]


RAISED = {"r": True, "ok": False, "v": []}
ABSENT = {"r": False, "ok": True, "v": []}       # predict_freq does not exist for this kind
BAD = {"r": False, "ok": False, "v": []}


def rec_rows(kind, out, k, ncls):
    """rows of one prediction call on k samples -> k records"""
    try:
        a = np.asarray(out)
        if kind == "p":
            if a.shape != (k,) or a.dtype.kind not in "iuf":
                return [dict(BAD) for _ in range(k)]
            res = []
            for v in a:
                if float(v) in (0.0, 1.0):
                    res.append({"r": False, "ok": True, "v": [int(v)]})
                else:
                    res.append(dict(BAD))
            return res
        a = np.asarray(out, dtype=float)
        if a.shape != (k, ncls) or not np.isfinite(a).all() or (np.abs(a) * UNIT >= LIMIT).any():
            return [dict(BAD) for _ in range(k)]
        return [{"r": False, "ok": True, "v": fx(row)} for row in a]
    except Exception:
        return [dict(BAD) for _ in range(k)]


def observe(obj, n, freq, per_sample, X=None):
    """predictions of a wrapper (X is None: by index) or a classifier on all
    samples -> list over samples of {p, pp, pf}"""
    methods = [("p", "predict"), ("pp", "predict_proba")] + ([("pf", "predict_freq")] if freq else [])
    recs = [{"p": None, "pp": None, "pf": dict(ABSENT)} for _ in range(n)]
    for key, name in methods:
        # (half of the replays ask for all samples in descending order with the first one repeated at the end: an
        #  index array addresses rows one by one - the result has one row per requested index, in that order)
        allg = list(range(n)) if not SHUFFLED_PREDICT else (list(range(n - 1, -1, -1)) + [n - 1])
        if per_sample:
            # (whether a prediction is possible depends on the sample: the groups repeat ONE index)
            groups = [[j, j] for j in range(n)] if SHUFFLED_PREDICT else [[j] for j in range(n)]
        else:
            groups = [allg]
        for g in groups:
            try:
                arg = np.array(g, dtype=int) if X is None else X[g]
                out = getattr(obj, name)(arg)
            except Exception:
                rows = [dict(RAISED) for _ in g]
            else:
                rows = rec_rows(key, out, len(g), 2)
            for j, r in zip(g, rows):
                recs[j][key] = r
    return recs


def fit_reference(variant, X, post):
    """a fresh copy of the wrapped classifier trained from scratch on the
    triples TLC computed (cut into the calls that supplied them: one fit,
    then the estimator's own partial_fit for the following segments)"""
    cur, seg = post["cur"], post["seg"]
    if not cur:
        return None
    ref = make_clf(variant)
    pos = 0
    for s, ln in enumerate(seg):
        part = cur[pos:pos + ln]
        pos += ln
        idx = [t[0] - 1 for t in part]
        y = np.array([lab_c(t[1]) for t in part], dtype=float)
        w = None if all(t[2] == 0 for t in part) else np.array([float(WVAL.get(t[2], 0.0)) for t in part])
        if s == 0:
            ref.fit(X[idx], y, w)
        elif w is None:
            ref.partial_fit(X[idx], y)
        else:
            ref.partial_fit(X[idx], y, sample_weight=w)
    return ref


# --------------------------------------------------------------------------
def build_wrapper(cfg, variant, X, su, wlist=False):
    from skactiveml.pool.utils import IndexClassifierWrapper

    y0 = np.array([lab_c(v) for v in cfg["initY"]], dtype=float)
    w0 = None if not cfg["initW"] else np.array(conc_w(cfg["initW"]))
    clf = make_clf(variant)
    if cfg["prefit"] != "none":
        pre = [i - 1 for i in cfg["preI"]]
        clf.fit(X[pre], y0[pre], None if w0 is None else w0[pre])
    if wlist and w0 is not None:      # "array-like": the stored weights handed over as a python list
        w0 = w0.tolist()
    return IndexClassifierWrapper(clf, X, y0, sample_weight=w0, set_base_clf=(cfg["prefit"] == "fitbase"),
                                  ignore_partial_fit=cfg["ipf"], enforce_unique_samples=cfg["eu"],
                                  use_speed_up=su)


def do_call(w, op, as_array):
    """perform one call; returns the exception class name or ''"""
    try:
        if op["op"] == "Precompute":
            p = op["pre"]
            w.precompute([i - 1 for i in p["F"]], [i - 1 for i in p["P"]], fit_params=p["fp"],
                         pred_params=p["pp"])
        else:
            idx, y, sw = conc_args(op["a"], as_array)
            if op["op"] == "Fit":
                w.fit(idx, y=y, sample_weight=sw, set_base_clf=op["setBase"])
            else:
                w.partial_fit(idx, y=y, sample_weight=sw, use_base_clf=op["useBase"],
                              set_base_clf=op["setBase"])
    except Exception as ex:  # noqa: BLE001 - the class is logged, TLC decides
        return type(ex).__name__
    return ""


INIT_POST_KEYS = ("cur", "seg")


def init_post(cfg):
    """the training set behind a classifier that came fitted through
    __init__ (constant of the configuration, see IndexWrapper!PreT)"""
    if cfg["prefit"] == "none":
        return {"cur": [], "seg": []}
    t = [[i, cfg["initY"][i - 1], (cfg["initW"][i - 1] if cfg["initW"] else 0)] for i in cfg["preI"]]
    return {"cur": t, "seg": [len(t)]}


def replay(arg):
    """worker: one behaviour x one classifier variant -> list of traces"""
    global WVAL, SHUFFLED_PREDICT
    beh, variant, geom, xseed, tag, corrupt = arg[:6]
    wlist = len(arg) > 6 and arg[6]
    WVAL = FRACTIONAL if xseed % 3 == 2 else PLAIN
    SHUFFLED_PREDICT = bool((xseed // 3) % 2)
    warnings.filterwarnings("ignore")
    cfg = beh["cfg"]
    n = cfg["n"]
    rng = np.random.default_rng(xseed)
    X = make_X(n, geom, rng)
    freq = cfg["kind"] == "pwc"
    su = bool(cfg["su"]) and cfg["kind"] == "pwc"
    as_array = bool(xseed % 2)

    real_su = cfg["su"]
    if variant == "pwc-gamma-mean":
        # a symbolic bandwidth depends on the training subset, so the wrapper switches the
        # precomputed-kernel speed-up off: behaviours of the no-speed-up configuration are replayed,
        # every other wrapper being CONSTRUCTED with use_speed_up=True
        if cfg["su"]:
            return [], 0
        real_su = bool(xseed % 2)
    runs = [("main", dict(cfg), build_wrapper(cfg, variant, X, real_su, wlist))]
    if su:   # paired run without the speed-up
        c2 = dict(cfg)
        c2["su"] = False
        runs.append(("twin", c2, build_wrapper(c2, variant, X, False)))
    events = {name: [] for name, _, _ in runs}
    n_eval = 0

    alive = {name: True for name, _, _ in runs}

    def log(evname, op, exc, post, bare):
        """one event per living run; runs in `bare` end here without observation
        (the specification leaves the object unspecified after this call, or
        rejects the run at this event)"""
        nonlocal n_eval
        full = [r for r in runs if alive[r[0]] and r[0] not in bare]
        ref = fit_reference(variant, X, post) if full else None
        robs = [] if ref is None else observe(ref, n, freq, False, X=X)
        fb = bool(ref is not None and getattr(ref, "is_fitted_", True) is False)
        obs = {}
        for name, c, w in full:
            obs[name] = observe(w, n, freq, per_sample=(name == "main" and su))
            n_eval += 3 * n
        for name, c, w in runs:
            if not alive[name]:
                continue
            if name in bare:
                events[name].append({"ev": evname[name], "op": op, "exc": exc[name], "st": project_state(w),
                                     "refset": [], "refseg": [], "obs": [], "ref": [], "fb": False, "twin": []})
                alive[name] = False
                continue
            e = {"ev": evname[name], "op": op, "exc": exc[name], "st": project_state(w),
                 "refset": post["cur"], "refseg": post["seg"], "obs": obs[name], "ref": robs, "fb": fb,
                 "twin": obs["twin"] if (name == "main" and "twin" in obs and ref is not None) else []}
            events[name].append(e)

    noop = {"op": "Init", "a": {"I": [], "Y": [], "W": []}, "useBase": False, "setBase": False,
            "pre": {"F": [], "P": [], "fp": "all", "pp": "all"}}
    log({k: "Init" for k in events}, noop, {k: "" for k in events}, init_post(cfg), set())
    for h in beh["hist"]:
        op = h["op"]
        living = [r for r in runs if alive[r[0]]]
        if not living:
            break
        exc = {name: do_call(w, op, as_array) for name, c, w in living}
        evname = {name: ("Raised" if exc[name] else op["op"]) for name in exc}
        bare = {name for name in exc if h["why"] not in ("ok", "dup", "notfitted") or (exc[name] and h["why"] == "ok")}
        log(evname, op, exc, h["post"], bare)

    traces = []
    for name, c, w in runs:
        tr = {"id": "C19/%s/%s/%s" % (tag, variant, name), "cfg": c, "events": events[name],
              "variant": variant, "initw_list": bool(wlist),
              "concrete": {"X": X.tolist(), "classifier": variant, "flags": {k: c[k] for k in ("su", "eu", "ipf")},
                           "prefit": c["prefit"], "args_as": "ndarray" if as_array else "list",
                           "stored_labels": c["initY"], "stored_weights": c["initW"],
                           "stored_weights_as": "list" if wlist else "ndarray",
                           "weight_values": {str(k): v for k, v in WVAL.items()},
                           "all_ones_weight_vectors_as_integers": WVAL is FRACTIONAL,
                           "predictions_requested_for": "all indices descending, the last one twice"
                           if SHUFFLED_PREDICT else "all indices ascending",
                           "calls": [h["op"] for h in beh["hist"]], "zero_based": "indices in calls are 1-based"}}
        traces.append(tr)
    return traces, n_eval


def _corrupt(trace, how):
    """binding demo (VERIF_C19_CORRUPT=proba|state|refset|drop): damage one
    logged field / drop one event; returns True if something was changed"""
    if how == "drop":
        ev = trace["events"]
        if len(ev) > 2 and ev[1]["ev"] == "Fit" and ev[2]["ev"] == "PartialFit" and not ev[2]["op"]["useBase"]:
            del trace["events"][1]
            return True
        return False
    for e in trace["events"]:
        if how == "proba" and e["obs"] and e["obs"][0]["pp"]["v"]:
            e["obs"][0]["pp"]["v"][0] += 5
            return True
        if how == "state" and e["st"]["cur"]:
            e["st"]["cur"][0][1] = 1 - max(e["st"]["cur"][0][1], 0)
            return True
        if how == "refset" and e["refset"]:
            e["refset"] = e["refset"][:-1]
            return True
    return False


# --------------------------------------------------------------------------
FAMILY = {"pwc-default": "pwc", "pwc-gamma": "pwc", "pwc-knn": "pwc", "pwc-gamma-mean": "pwc-gamma-mean",
          "nb-default": "nb", "nb-smooth": "nb", "lr-default": "lr", "lr-C10": "lr"}


def config_class(tr, rej):
    """<classifier family>[+speedup][+prefitted-model][+init-weights-as-list]"""
    c = tr["cfg"]
    fam = FAMILY[tr["variant"]]
    if c["kind"] == "nb":
        fam += "-refit" if c["ipf"] else "-native-partial_fit"
    parts = [fam]
    if c["su"] and c["kind"] == "pwc":
        parts.append("speedup")
    seen = tr["events"][:rej["matched_events"] + 1]
    if c["prefit"] != "none" and not any(e["ev"] == "Fit" for e in seen):
        parts.append("prefitted-model")       # the model in use came fitted through __init__
    if tr.get("initw_list"):
        parts.append("init-weights-as-list")
    return "+".join(parts)


def key_of(tr, rej):
    clauses = rej["failed_clauses"]
    clause = clauses[0] if clauses else "unmatched"
    ev = rej["offending_event"] or {}
    where = "IndexClassifierWrapper"
    if clause in ("raise-only-where-spec-disables-call", "call-disabled-by-spec-must-raise", "exception-class",
                  "cur-triples-equal-spec", "base-triples-equal-spec", "unmatched"):
        where += "." + {"Fit": "fit", "PartialFit": "partial_fit", "Precompute": "precompute",
                        "Init": "__init__"}.get((ev.get("op") or {}).get("op", ""), "call")
    return "%s|%s|%s" % (where, config_class(tr, rej), clause)


def describe(tr):
    return tr.get("concrete")


def _mc(cfgname, workers):
    return cfgname, tlc.model_check("MC_IndexWrapper", cfgname, workers=workers)


def _sim(arg):
    seed, num, cfgname = arg
    return tlc.generate("MC_IndexWrapper", cfgname,
                        extra=("-simulate", "num=%d" % num, "-depth", "30", "-seed", str(seed)))


def main(tier="quick", seed=0):
    chk = Check("C19", tier, seed)
    import_repo()
    quick = tier == "quick"
    chk.rule = ("every generated behaviour of IndexWrapper (fit / partial_fit from current or base model / "
                "precompute / refused calls) is replayed into a real IndexClassifierWrapper per classifier "
                "variant; after every call projected state = spec state, reference trained on the implied set, "
                "wrapper predictions = reference predictions (band 2*2^-20), speed-up = no speed-up")
    chk.assumptions = [
        "labels {0,1}+missing (NaN), classes=[0,1] given to the wrapped classifier; weights None or {1,2}",
        "index lists are non-empty (fit with an empty list is rejected by check_array)",
        "after a refusal that the code raises after it already overwrote idx_/clf_ (mixed None/given sample "
        "weights; restart from a base classifier passed fitted through __init__) nothing is specified",
        "native partial_fit (GaussianNB, ignore_partial_fit=False): the reference is a fresh estimator fed the "
        "same call sequence (fit, then partial_fit per call); enforce_unique_samples does not replace there "
        "(the code warns about it in __init__)",
        "predict is compared through the allowed set: reference label, any class within the band of the "
        "maximum probability, any class of positive probability when SklearnClassifier predicts from label "
        "counts (random draw in the library)",
    ]

    # ---- (M) exhaustive model checking of the design (runs while behaviours are
    # generated and replayed) -----------------------------------------------------
    mcs = ["MC_IndexWrapper_d4.cfg", "MC_IndexWrapper.cfg"] if quick else \
        ["MC_IndexWrapper_d4n.cfg", "MC_IndexWrapper_d5.cfg", "MC_IndexWrapper_mid2.cfg"]
    mc_pool = ThreadPoolExecutor(max_workers=len(mcs))
    futs = [mc_pool.submit(_mc, c, 6 if quick else 8) for c in mcs]
    # ---- (G) behaviours ---------------------------------------------------------
    gen_cfg = "IndexWrapper_gen.cfg" if quick else "IndexWrapper_gen3.cfg"
    exh_all = chk.generate("MC_IndexWrapper", gen_cfg)
    n_sim, per, sim_cfg = (4, 400, "IndexWrapper_sim.cfg") if quick else (12, 1000, "IndexWrapper_sim8.cfg")
    with ThreadPoolExecutor(max_workers=n_sim) as ex2:
        sims = list(ex2.map(_sim, [(1000 * seed + k + 1, per, sim_cfg) for k in range(n_sim)]))
    walks = []
    for res in sims:
        walks.extend(res.json_lines)
        chk.transitions += res.generated
        chk.mc_runs.append({"module": "MC_IndexWrapper", "cfg": sim_cfg + " (-simulate)",
                            "generated_cases": len(res.json_lines), "wall_s": round(res.wall, 2)})
    rng = np.random.default_rng(seed)
    n_exh = 1800 if quick else 20000
    if len(exh_all) > n_exh:     # seeded subset of the exhaustive enumeration
        exh = [exh_all[i] for i in sorted(rng.choice(len(exh_all), size=n_exh, replace=False))]
    else:
        exh = exh_all
    chk.extra["behaviours"] = {"exhaustive_enumerated": len(exh_all), "exhaustive_replayed": len(exh),
                               "random_walks": len(walks)}

    # ---- concretise: behaviour x classifier variant x geometry -----------------------
    corrupt = os.environ.get("VERIF_C19_CORRUPT", "")
    geoms = ["generic", "grid", "dup", "generic"]
    items = []
    for src, behs in (("exh", exh), ("walk", walks)):
        for b, beh in enumerate(behs):
            vs = VARIANTS[beh["cfg"]["kind"]]
            if src == "exh" and quick:
                chosen = [vs[(b + seed) % len(vs)]]
            elif src == "exh":
                chosen = vs
            else:
                chosen = [vs[int(rng.integers(len(vs)))]]
            for v in chosen:
                g = geoms[int(rng.integers(len(geoms)))]
                items.append((beh, v, g, int(rng.integers(1 << 30)), "%s%d-s%d" % (src, b, seed), ""))
    # stored sample weights handed over as a python list (array-like): a few
    # behaviours of the plainest configuration
    extra = [it for it in items if it[0]["cfg"]["initW"] and it[0]["cfg"]["kind"] == "lr"
             and not (it[0]["cfg"]["su"] or it[0]["cfg"]["eu"] or it[0]["cfg"]["ipf"])
             and it[0]["cfg"]["prefit"] == "none"][:(40 if quick else 400)]
    items += [it[:4] + (it[4] + "-wlist", "", True) for it in extra]
    out = pmap(replay, items)
    for f in futs:
        cfgname, res = f.result()
        chk.states += res.distinct
        chk.transitions += res.generated
        chk.mc_runs.append({"module": "MC_IndexWrapper", "cfg": cfgname, "distinct_states": res.distinct,
                            "states_generated": res.generated, "depth": res.depth, "wall_s": round(res.wall, 2)})
    mc_pool.shutdown()
    traces = []
    for trs, n_eval in out:
        traces.extend(trs)
        chk.count(n_eval)
    if corrupt:      # binding demo: the first trace the corruption applies to
        for tr in traces:
            if tr["variant"] in ("lr-default", "nb-default", "pwc-default") and _corrupt(tr, corrupt):
                tr["id"] += "/CORRUPTED-" + corrupt
                break
    for tr in traces:
        c = tr["cfg"]
        for e in tr["events"]:
            if e["ev"] != "Init":
                chk.case((tr["variant"], c["su"], c["eu"], c["ipf"], c["prefit"], bool(c["initW"]), e["ev"],
                          e["op"]["op"], e["op"]["useBase"], e["op"]["setBase"], len(e["refset"]), len(e["refseg"])))
    for tr in traces[:3]:
        chk.sample({"id": tr["id"], "cfg": tr["cfg"], "calls": tr["concrete"]["calls"],
                    "last_event": {k: tr["events"][-1][k] for k in ("ev", "st", "refset")}})
    chk.validate("IndexWrapperTrace", traces, describe=describe, key_of=key_of)
    return chk.finish()
