"""X07 - beyond the listed properties: the predictions of NICKernelRegressor /
NadarayaWatsonRegressor against NIC.tla, exactly, over the rationals.

Not registered in MANIFEST.json: C15 states that a regressor's outputs are
coherent with each other, not which numbers they are.  (M) MC_NIC model-checks
the transcribed update equations (the mean is a convex combination of labels
and prior mean, the prior predictive without labels, positive variance, "a
weight of 2 is the sample twice") and verifies that ignoring the weights
violates the last one; (G) TLC enumerates (prior, labeled samples, kernel row)
and computes mean and variance; (T) every case is executed on the real
regressors (rbf kernel with gamma = log 2 on lattice points, so that the kernel
values are 1, 1/2, 1/4 up to rounding; the training set also holds unlabeled
samples at seeded positions, which do not count because they are dropped) and
NICTrace compares the observed mean / variance (as exact rationals) with the
specified ones."""

import warnings
from fractions import Fraction

import numpy as np

from ..core import Check, import_repo, pmap

MAXDEN = 10 ** 6


def _rat(x):
    """float -> [num, den] if it is (to 1e-9) a rational of small denominator, else the marker [-7, 1]"""
    if not np.isfinite(x):
        return [-7, 1]
    f = Fraction(float(x)).limit_denominator(MAXDEN)
    if abs(float(f) - float(x)) > 1e-9 * max(1.0, abs(float(x))):
        return [-7, 1]
    return [f.numerator, f.denominator]


def _f(r):
    return r[0] / r[1]


OFFSETS = {(1, 1): [(0, 0)], (1, 2): [(1, 0), (0, 1), (-1, 0), (0, -1)], (1, 4): [(1, 1), (1, -1), (-1, 1), (-1, -1)]}
GAMMA = float(np.log(2.0))      # rbf kernel exp(-gamma d^2) = 2^(-d^2): lattice points give the kernel values 1, 1/2, 1/4


def _job(arg):
    from skactiveml.regressor import NadarayaWatsonRegressor, NICKernelRegressor

    case, seed = arg
    rng = np.random.RandomState(seed)
    prior, data, row = case["prior"], case["data"], case["k"]
    nw = prior == {"k0": [0, 1], "nu0": [3, 1], "mu0": [0, 1], "s0": [1, 1]} and seed % 2 == 0
    n_lab = len(data)
    q = rng.randint(-3, 4, size=2).astype(float)         # the query point
    # the training set: the labeled samples of the case (placed at the squared distance -log2 k from the query
    # point) plus unlabeled ones at seeded positions
    n_unl = int(rng.randint(0, 3))
    pos = sorted(rng.choice(n_lab + n_unl, size=n_lab, replace=False).tolist()) if n_lab else []
    n = n_lab + n_unl
    X = q + rng.randint(-2, 3, size=(n, 2)).astype(float)
    y = np.full(n, np.nan)
    w = rng.randint(1, 3, size=n).astype(float)
    for s, p, k in zip(data, pos, row):
        offs = OFFSETS[tuple(k)]
        X[p] = q + np.array(offs[int(rng.randint(len(offs)))], dtype=float)
        y[p], w[p] = float(s["y"]), float(s["w"])
    use_w = not all(s["w"] == 1 for s in data) or bool(rng.randint(2))
    events = []
    conc = {"regressor": "NadarayaWatsonRegressor" if nw else "NICKernelRegressor", "prior": prior,
            "metric": "rbf", "gamma": "log(2)", "X": X.tolist(), "y": [None if v != v else v for v in y.tolist()],
            "sample_weight": w.tolist() if use_w else None, "query_point": q.tolist()}
    try:
        if nw:
            reg = NadarayaWatsonRegressor(metric="rbf", metric_dict={"gamma": GAMMA})
        else:
            reg = NICKernelRegressor(metric="rbf", metric_dict={"gamma": GAMMA}, kappa_0=_f(prior["k0"]),
                                     nu_0=_f(prior["nu0"]), mu_0=_f(prior["mu0"]), sigma_sq_0=_f(prior["s0"]))
        with warnings.catch_warnings():
            warnings.simplefilter("ignore")
            reg.fit(X.reshape(n, 2), y, w if use_w else None)
            kept_w = [1] * len(reg.y_) if reg.weights_ is None else [int(v) if v == int(v) else -7 for v in reg.weights_]
            events.append({"ev": "Fit", "given": [{"y": s["y"], "w": s["w"] if use_w else 1} for s in data],
                           "kept": [{"y": int(v) if v == int(v) else -7, "w": kw} for v, kw in zip(reg.y_, kept_w)]})
            mean, std = reg.predict(q.reshape(1, 2), return_std=True)
        events.append({"ev": "Predict", "k": row, "mean": _rat(float(mean[0])), "var": _rat(float(std[0]) ** 2)})
    except Exception as ex:
        events.append({"ev": "Raised", "exc": "%s: %s" % (type(ex).__name__, str(ex)[:160])})
    return {"id": "%s/k0=%s,nu0=%s,mu0=%s,s0=%s/%s/seed%d" % (
                conc["regressor"], *("%d_%d" % tuple(prior[k]) for k in ("k0", "nu0", "mu0", "s0")),
                ",".join("y%dw%dk%d_%d" % (s["y"], s["w"], k[0], k[1]) for s, k in zip(data, row)) or "no-label", seed),
            "prior": prior, "events": events, "concrete": conc}


def _key(t, r):
    ev = r["offending_event"] or {}
    return "%s|%s" % (t["id"].split("/")[0], ",".join(r["failed_clauses"]) or
                      "unmatched:%s %s" % (ev.get("ev", "end"), str(ev.get("exc", ""))[:60]))


def main(tier="quick", seed=0):
    chk = Check("X07", tier, seed)
    import_repo()
    from .c12 import expect_violation

    chk.model_check("MC_NIC", "MC_NIC.cfg")
    expect_violation(chk, "MC_NIC_ignore.cfg", "WeightIsMultiplicity", module="MC_NIC")
    cases = chk.generate("MC_NIC", "NIC_gen.cfg" if tier == "quick" else "NIC_gen3.cfg")
    rng = np.random.default_rng(seed + 7)
    if tier == "quick" and len(cases) > 1400:
        cases = [cases[int(i)] for i in rng.choice(len(cases), size=1400, replace=False)]
    jobs = [(c, int(rng.integers(0, 10 ** 6))) for c in cases]
    traces = pmap(_job, jobs)
    chk.count(sum(len(t["events"]) for t in traces))
    for t in traces:
        chk.case(t["id"])
    chk.sample({"trace": {k: v for k, v in traces[len(traces) // 2].items() if k != "concrete"}})
    chk.rule = ("all (prior, labeled samples, kernel row) combinations TLC enumerates: 4 priors (one of them "
                "NadarayaWatsonRegressor's), 0-%d labeled samples with labels in a small integer set and weights 1/2, "
                "kernel values 1/4, 1/2, 1 (rbf, gamma = log 2, lattice points); training sets padded with unlabeled samples at seeded positions"
                % (2 if tier == "quick" else 3))
    chk.validate("NICTrace", traces, describe=lambda t: t["concrete"], key_of=_key)
    chk.assumptions = ["observed floats are mapped to the rational of denominator <= 10^6 within 1e-9 (the specified "
                       "values have denominators below 10^5); kernel mass positive, kappa > 0, nu > 2"]
    return chk.finish()
