"""C02 - see pool_checks.py (shared machinery of C01/C02)."""
from .pool_checks import main_for


def main(tier="quick", seed=0):
    return main_for("C02", tier, seed)
from .pool_checks import replay  # noqa: E402,F401
