"""X04 - beyond the listed properties: the greedy maximum-coverage loop of
ProbCover (single ball radius) against Cover.tla, exactly, on points of the
integer line.

Not registered in MANIFEST.json (it pins the present utility values).  (M)
MC_Cover model-checks distinctness, the NaN pattern, diminishing returns and
the greedy contract and verifies that forgetting earlier coverage violates
diminishing returns; (G) TLC enumerates the configurations; (T) every
configuration is executed (candidates None where the candidate set is the set
of unlabeled samples, an index array otherwise) and CoverTrace validates every
batch step."""

import warnings

import numpy as np

from .. import abstraction as ab
from ..core import Check, import_repo, pmap

NAN = ab.NAN


def _row(r):
    return [NAN if v != v else (int(v) if v == int(v) and abs(v) < 1e6 else -7) for v in np.asarray(r, dtype=float).ravel()]


def _job(arg):
    from skactiveml.pool import ProbCover

    case, lab_pattern, seed = arg
    U = [int(v) for v in case["U"]]
    cands = [int(i) for i in case["cands"]]
    n = len(U)
    X = np.array([[float(v), 0.0] for v in U])
    y = np.full(n, np.nan)
    non = [i for i in range(1, n + 1) if i not in cands]
    # non-candidates are labeled (pattern 0), or - when they are passed over by an index list - partly unlabeled
    for k, i in enumerate(non):
        if lab_pattern == 0 or k % 2 == 0:
            y[i - 1] = float(k % 2)
    unl = [i for i in range(1, n + 1) if y[i - 1] != y[i - 1]]
    cand_arg = None if unl == cands else np.array([i - 1 for i in cands])
    if any(y[i - 1] == y[i - 1] for i in cands):
        return None
    qs = ProbCover(n_classes=2, deltas=[float(case["delta"])], random_state=seed)
    try:
        with warnings.catch_warnings():
            warnings.simplefilter("ignore")
            q, u = qs.query(X.copy(), y.copy(), candidates=cand_arg, batch_size=int(case["bs"]), return_utilities=True)
        q = np.asarray(q).ravel()
        events = [{"ev": "Step", "p": int(q[i]) + 1, "row": _row(u[i])} for i in range(len(q))]
        events.append({"ev": "Done", "n": int(len(q))})
    except Exception as ex:
        events = [{"ev": "Raised", "exc": "%s: %s" % (type(ex).__name__, str(ex)[:160])}]
    return {"id": "ProbCover/U%s-d%d-C%s-bs%d-%s/seed%d" % (U, case["delta"], cands, case["bs"],
                                                          "none" if cand_arg is None else "idx", seed),
            "U": U, "delta": int(case["delta"]), "cands": cands, "bs": int(case["bs"]), "events": events,
            "concrete": {"X": X.tolist(), "y": [None if v != v else v for v in y.tolist()],
                         "candidates": None if cand_arg is None else cand_arg.tolist(), "deltas": [case["delta"]],
                         "batch_size": int(case["bs"]), "seed": seed}}


def main(tier="quick", seed=0):
    chk = Check("X04", tier, seed)
    import_repo()
    from .c12 import expect_violation

    quick = tier == "quick"
    chk.model_check("MC_Cover", "MC_Cover_small.cfg" if quick else "MC_Cover.cfg")
    expect_violation(chk, "MC_Cover_forget_small.cfg" if quick else "MC_Cover_forget.cfg", "DiminishingReturns",
                     module="MC_Cover")
    cases = chk.generate("MC_Cover", "Cover_gen.cfg")
    rng = np.random.default_rng(seed + 4)
    n = 4000 if quick else 60000
    jobs = [(cases[int(i)], int(rng.integers(2)), int(rng.integers(0, 1000)))
            for i in rng.choice(len(cases), size=min(n, len(cases)), replace=False)]
    traces = [t for t in pmap(_job, jobs) if t is not None]
    chk.count(sum(len(t["events"]) for t in traces))
    for t in traces:
        chk.case(t["id"].rsplit("/", 1)[0])
    chk.sample({"trace": {k: v for k, v in traces[0].items() if k != "concrete"}})
    chk.rule = ("configurations (<= 5 points on {0,1,2,4}, radius in {0,1,2}, non-empty candidate set, batch size <= 3) "
                "enumerated by TLC; a seeded sample executed on ProbCover(deltas=[radius]); one event per batch step")
    chk.validate("CoverTrace", traces, describe=lambda t: t["concrete"],
                 key_of=lambda t, r: "ProbCover|%s" % (",".join(r["failed_clauses"]) or "unmatched"))
    chk.assumptions = ["integer coordinates and radii: every distance comparison is exact"]
    return chk.finish()
