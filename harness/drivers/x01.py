"""X01 - beyond the listed properties: combine_ranking (hierarchical rank
combination, skactiveml/utils/_selection.py) against Ranking.tla.

Not registered in MANIFEST.json (it decides none of C01-C20); run with
`./check X01`.  Same scheme: (M) MC_Ranking, (G) TLC-enumerated rankings,
(T) RankingTrace validates the dense ranks of every observed result."""

import warnings

import numpy as np

from .. import abstraction as ab
from ..core import Check, import_repo, pmap


def _job(arg):
    from skactiveml.utils._selection import combine_ranking

    case, variant = arg
    rs = case["rs"]
    arrs = []
    for k, r in enumerate(rs):
        a = ab.concretise_ranks(r, rng=np.random.default_rng(variant + k) if variant else None)
        if variant == 2:
            a = a * 3.0          # moderately large values (sigmoid still strictly increasing)
        arrs.append(a)
    try:
        with warnings.catch_warnings():
            warnings.simplefilter("ignore")
            c = np.asarray(combine_ranking(*[a.copy() for a in arrs]), dtype=float)
        if c.shape != arrs[0].shape:
            events = [{"ev": "Malformed", "shape": list(c.shape)}]
        else:
            events = [{"ev": "Result", "c": ab.signed_ranks(c)[0]}]
    except Exception as ex:
        events = [{"ev": "Raised", "exc": "%s: %s" % (type(ex).__name__, str(ex)[:120])}]
    # the abstract rankings as seen by the specification: joint ranks per ranking
    rs_abs = [ab.signed_ranks(a)[0] for a in arrs]
    return {"id": "combine_ranking/%s/v%d" % (rs, variant), "rs": rs_abs, "events": events,
            "concrete": {"rankings": [a.tolist() for a in arrs]}}


def main(tier="quick", seed=0):
    chk = Check("X01", tier, seed)
    import_repo()
    chk.model_check("MC_Ranking", "MC_Ranking.cfg")
    cases = chk.generate("MC_Ranking", "Ranking_gen.cfg")
    rng = np.random.default_rng(seed)
    if tier == "quick":
        cases = [cases[int(i)] for i in rng.choice(len(cases), size=min(6000, len(cases)), replace=False)]
    jobs = [(c, v) for c in cases for v in (0, 1, 2)]
    traces = pmap(_job, jobs)
    chk.count(len(traces))
    for t in traces:
        chk.case(t["id"])
    chk.sample({"trace": {k: v for k, v in traces[0].items() if k != "concrete"}})
    chk.rule = "all pairs / triples of rankings of length <= 3 over {-1, 0, 2} (NaN allowed in the first), 3 concretisations"
    chk.validate("RankingTrace", traces, describe=lambda t: t["concrete"],
                 key_of=lambda t, r: "combine_ranking|%s" % (",".join(r["failed_clauses"]) or "unmatched"))
    chk.assumptions = ["values are moderate (|x| < 10): for large values the sigmoid saturates and ties appear"]
    return chk.finish()
