"""C01 / C02 - pool queries return valid batches and coherent utilities.

(M) MC_PoolQuery (validate/transform/score/pick pipeline, all labeled sets,
    candidate modes and subsets, batch sizes, adversarial scorings with ties)
    and MC_Selection (simple_batch).
(G) PoolGen: TLC enumerates pool scenarios; every registered strategy
    configuration (harness/zoo.py) is run on a seeded sample of them.
(T) every call becomes a trace validated by TLC against PoolTrace.
"""

import numpy as np

from .. import tlc, zoo
from ..core import Check, import_repo, pmap
from . import pool_common as pc

OWN = {
    "C01": {"batch-not-larger-than-requested", "index-in-range", "is-candidate", "not-selected-twice",
            "batch-size-is-min-of-requested-and-candidates", "unmatched"},
    "C02": {"row-width", "nan-exactly-at-unavailable", "chosen-is-number", "chosen-attains-row-maximum",
            "chosen-has-positive-mass", "one-utility-row-per-selected-sample", "unmatched-utilities"},
}


def _job(arg):
    name, sc, seed, ret_util, variant, strip_rows = arg
    entry = ENTRIES[name]
    tr = pc.record_query(entry, sc, seed, ret_util, variant)
    if strip_rows:
        for e in tr["events"]:
            if e["ev"] == "Step":
                e["ev"] = "Pick"
                e.pop("row", None)
            if e["ev"] == "Finish":
                e["nrows"] = -1
    return tr


ENTRIES = {}


def plan(pid, quick, rng, scenarios):
    jobs = []
    per_cost = {1: 400, 2: 150, 3: 40} if quick else {1: 3000, 2: 1000, 3: 200}
    for entry in ENTRIES.values():
        pool = [s for s in scenarios if pc.applicable(entry, s)]
        k = min(per_cost[entry.cost], len(pool))
        for n_, i in enumerate(rng.choice(len(pool), size=k, replace=False)):
            sc = pool[int(i)]
            seed = int(rng.integers(0, 1000))
            variant = n_ % 3
            if pid == "C01":
                jobs.append((entry.name, sc, seed, bool(n_ % 2), variant, True))
            else:
                jobs.append((entry.name, sc, seed, True, variant, False))
    return jobs


def main_for(pid, tier="quick", seed=0):
    chk = Check(pid, tier, seed)
    import_repo()
    quick = tier == "quick"
    rng = np.random.default_rng(seed + (1 if pid == "C01" else 2))
    missing = zoo.check_complete()
    if missing:
        raise tlc.MachineryError("pool strategies exported but not registered in harness/zoo.py: %s" % missing)
    ENTRIES.update({e.name: e for e in zoo.entries()})
    ENTRIES.update({e.name: e for e in zoo.wrapper_entries()})
    chk.rule = ("scenarios = initial states of PoolGen (pool size 2..%d, every labeled set, candidates None / index "
                "subsets of the unlabeled samples / arbitrary index sets for sample-wise scorers / feature rows, batch "
                "sizes {1,2,#cand,#cand+1}, 5 geometry classes incl. duplicates and identical points, label patterns) "
                "plus seeded larger pools (6-10 samples), sampled per registered strategy configuration (%d configurations); distinct = (configuration, "
                "scenario); non-trivial = at least 2 candidates" % (4 if quick else 5, len(ENTRIES)))
    chk.model_check("MC_PoolQuery", "MC_PoolQuery.cfg" if quick else "MC_PoolQuery_thorough.cfg")
    chk.model_check("MC_Selection", "MC_Selection.cfg")
    scenarios = chk.generate("PoolGen", "PoolGen.cfg")
    if not quick:
        scenarios += chk.generate("PoolGen", "PoolGen5.cfg")
    scenarios = scenarios + pc.random_scenarios(rng, len(scenarios) // 2)   # larger pools, conflicting duplicates
    jobs = plan(pid, quick, rng, scenarios)
    traces = pmap(_job, jobs, chunksize=4)
    chk.count(len(traces))
    for tr, job in zip(traces, jobs):
        ncand = len(job[1]["S"]) if job[1]["mode"] != "none" else job[1]["n"] - len(job[1]["labeled"])
        if ncand >= 2:
            chk.case((job[0], pc.scenario_tag(job[1])))
    chk.sample({"trace": {k: v for k, v in traces[3].items() if k != "concrete"}})
    chk.sample({"call": traces[3]["concrete"]})
    own = OWN[pid]
    rej, st = tlc.validate_traces("PoolTrace", traces)
    chk.states += st["distinct"]
    chk.transitions += st["generated"]
    chk.traces += st["validated"] - len(rej)
    mine = 0
    for r in rej:
        tr = traces[r["index"]]
        oe = r["offending_event"] or {}
        clauses = set(r["failed_clauses"])
        if not clauses:
            tag = "unmatched-utilities" if oe.get("ev") == "MalformedUtilities" else "unmatched"
            clauses = {tag}
        if not (clauses & own):
            continue
        mine += 1
        what = "%s: rejected at event %d (%s): %s %s" % (
            tr["id"], r["matched_events"] + 1, oe.get("ev", "end"), ", ".join(sorted(clauses)), oe.get("exc", ""))
        chk.violation(pc.finding_key(tr, r), what,
                      {"module": "PoolTrace", "trace": tr, "rejection": r, "call": pc.describe(tr)})
    chk.mc_runs.append({"module": "PoolTrace", "traces": st["validated"], "rejected_total": len(rej),
                        "rejected_owned_by_%s" % pid: mine, "distinct_states": st["distinct"],
                        "wall_s": round(st["wall"], 2)})
    chk.assumptions = [
        "utility rows are abstracted to sign-preserving dense ranks (exact float comparisons, no tolerance)",
        "documented preconditions are respected: feature-row candidates only where the strategy does not enforce a "
        "mapping (MappingError otherwise), index candidates drawn from the unlabeled samples unless the strategy "
        "scores samples independently (harness/zoo.py)",
        "models are the package's own classifiers/regressors and scikit-learn estimators (torch/skorch absent)",
        "termination is observed with a 60 s watchdog per call",
    ]
    return chk.finish()


def replay(rep):
    """re-run the recorded call on the current tree and validate it again"""
    import json

    import_repo()
    ENTRIES.update({e.name: e for e in zoo.entries()})
    ENTRIES.update({e.name: e for e in zoo.wrapper_entries()})
    c = rep["payload"]["trace"]["concrete"]
    entry = ENTRIES[c["strategy"]]
    tr = pc.record_query(entry, c["scenario"], c["seed"], c["return_utilities"], c["variant"])
    print(json.dumps({k: v for k, v in tr.items() if k != "concrete"})[:3000])
    rej, _ = tlc.validate_traces("PoolTrace", [tr])
    if rej:
        print("REJECTED:", rej[0]["failed_clauses"], rej[0]["offending_event"])
        print("VIOLATION property=%s replay=%s" % (rep["property"], "(this file)"))
        return 1
    print("ACCEPTED")
    return 0
