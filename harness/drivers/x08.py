"""X08 - beyond the listed properties: IntervalEstimationAnnotModel (the
annotator model behind IntervalEstimationThreshold) against AnnotPerf.tla.

Not registered in MANIFEST.json.  C07 / C09 see the model only through the
pairs IntervalEstimationThreshold selects.  (M) MC_AnnotPerf model-checks the
counting design (smoothed accuracy strictly inside (0, 1), 1/2 without labels,
an annotator is scored with its OWN labels, the vote is one of the given
labels) and verifies that scoring every annotator with the first column
violates OwnLabels; (T) seeded label matrices (6 samples x 3 annotators x 3
classes, missing entries, three encodings, all three modes) are run through the
real model; AnnotPerfTrace checks that the majority vote is a maximal class,
that the mean accuracy is EXACTLY (agreements + 1) / (labels + 2), that the
interval is symmetric around it, and that predict_annotator_perf returns the
selected column for every row."""

import warnings
from fractions import Fraction

import numpy as np

from .. import abstraction as ab
from ..core import Check, import_repo, pmap

M = -1
NS, NA, NC = 6, 3, 3
ENCODINGS = {"int-nan": ([0, 1, 2], np.nan), "offset": ([10, 20, 30], -1), "str": (["aa", "b", "cc"], "unlabeled")}


def _encode(Y, enc):
    classes, ml = ENCODINGS[enc]
    rows = [[ml if v == M else classes[int(v)] for v in r] for r in Y.tolist()]
    return np.array(rows, dtype=float) if enc == "int-nan" else np.array(rows)


def _job(arg):
    from skactiveml.pool.multiannotator._interval_estimation_threshold import IntervalEstimationAnnotModel
    from skactiveml.utils import majority_vote

    seed, enc, mode, alpha = arg
    rng = np.random.RandomState(seed)
    classes, ml = ENCODINGS[enc]
    Y = rng.randint(0, NC, size=(NS, NA))
    Y[rng.rand(NS, NA) < 0.35] = M
    if seed % 4 == 0:
        Y[:, int(rng.randint(NA))] = M           # an annotator without any label
    y = _encode(Y, enc)
    X = rng.normal(size=(NS, 2)).round(3)
    events = []
    try:
        model = IntervalEstimationAnnotModel(classes=classes, missing_label=ml, alpha=alpha, mode=mode,
                                             random_state=seed)
        with warnings.catch_warnings():
            warnings.simplefilter("ignore")
            model.fit(X, y)
            mv = majority_vote(y, classes=classes, missing_label=ml, random_state=seed)   # same seed, same tie-breaks
            A = np.asarray(model.A_perf_, dtype=float)
            P = np.asarray(model.predict_annotator_perf(X[:4]), dtype=float)
        mean = []
        for a in range(NA):
            f = Fraction(float(A[a, 1])).limit_denominator(64)
            mean.append([f.numerator, f.denominator] if abs(float(f) - A[a, 1]) < 1e-12 else [-7, 1])
        sym = [bool(abs((A[a, 0] + A[a, 2]) - 2 * A[a, 1]) < 1e-12 and A[a, 0] <= A[a, 1] <= A[a, 2]) for a in range(NA)]
        events.append({"ev": "Fit", "y": Y.tolist(), "mean": mean, "sym": sym,
                       "mv": [M if (v != v if enc == "int-nan" else v == ml) else
                              (classes.index(v) if v in classes else -7) for v in mv.tolist()]})
        ids = {}
        col = [ids.setdefault(ab.digest(np.array([v])), len(ids) + 1) for v in A[:, {"lower": 0, "mean": 1, "upper": 2}[mode]]]
        events.append({"ev": "Perf", "col": col,
                       "rows": [[ids.setdefault(ab.digest(np.array([v])), len(ids) + 1) for v in r] for r in P]})
    except Exception as ex:
        events.append({"ev": "Raised", "exc": "%s: %s" % (type(ex).__name__, str(ex)[:160])})
    return {"id": "IntervalEstimationAnnotModel(mode=%s,alpha=%s)/%s/seed%d" % (mode, alpha, enc, seed), "events": events,
            "concrete": {"classes": classes, "missing_label": repr(ml), "mode": mode, "alpha": alpha, "seed": seed,
                         "y": y.tolist() if enc != "int-nan" else [[None if v != v else v for v in r] for r in y.tolist()],
                         "how": "harness.drivers.x08._job((seed, encoding, mode, alpha))"}}


def _key(t, r):
    ev = r["offending_event"] or {}
    return "IntervalEstimationAnnotModel|%s" % (",".join(r["failed_clauses"]) or
                                                "unmatched:%s %s" % (ev.get("ev", "end"), str(ev.get("exc", ""))[:60]))


def main(tier="quick", seed=0):
    chk = Check("X08", tier, seed)
    import_repo()
    from .c12 import expect_violation

    chk.model_check("MC_AnnotPerf", "MC_AnnotPerf.cfg")
    expect_violation(chk, "MC_AnnotPerf_first.cfg", "OwnLabels", module="MC_AnnotPerf")
    rng = np.random.default_rng(seed + 8)
    jobs = [(int(rng.integers(0, 10 ** 6)), ["int-nan", "offset", "str"][int(rng.integers(3))],
             ["lower", "mean", "upper"][int(rng.integers(3))], [0.05, 0.2][int(rng.integers(2))])
            for _ in range(800 if tier == "quick" else 30000)]
    traces = pmap(_job, jobs)
    chk.count(sum(len(t["events"]) for t in traces))
    for t in traces:
        chk.case(t["id"])
    chk.sample({"trace": {k: v for k, v in traces[0].items() if k != "concrete"}})
    chk.rule = ("seeded label matrices (6 samples x 3 annotators x 3 classes, 35 % missing entries, one quarter with an "
                "annotator without labels), three label encodings, modes lower / mean / upper, alpha 0.05 / 0.2")
    chk.validate("AnnotPerfTrace", traces, describe=lambda t: t["concrete"], key_of=_key)
    chk.assumptions = ["the majority vote used by fit is re-computed by the harness with the same seed (same tie-breaks)"]
    return chk.finish()
