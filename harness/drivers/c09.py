"""C09 - results do not depend on how labels and missing labels are encoded.

(M) MC_Labels is the agent-built algebra of the label encoder (C16); the
    design-level statement used here is Addressing-style: an abstract scenario
    over class indices 0..K-1 and "missing" has ONE meaning, every encoding
    accepted by the library is a presentation of it.  The model-checked part
    of this check is MC_Encoding (order-preserving renamings commute with
    sorting / argmax / majority).
(T) paired observations (EquivTrace): the same abstract scenario is presented
    under several (class renaming, missing-label sentinel, dtype) encodings
    with missing_label / classes set consistently on strategy and models;
    utilities per sample, selected sample, predict_proba per (probe, class
    index) and the index of the predicted class must agree with the first
    encoding.
"""

import warnings

import numpy as np

from .. import abstraction as ab
from .. import tlc, zoo
from ..core import Check, import_repo, pmap
from . import pool_common as pc
from .c08 import _enc, BAND

ENTRIES = {}

# (name, classes for abstract 0/1, missing label, dtype)
ENCODINGS = [
    ("float-nan", (0.0, 1.0), np.nan, float),
    ("int-minus1", (0, 1), -1, int),
    ("int-10-20", (10, 20), -1, int),
    ("float-10-20", (10.0, 20.0), np.nan, float),   # (scikit-learn rejects non-integral float labels as "continuous")
    ("str-a-b", ("a", "b"), "unlabeled", str),
    ("object-none", ("a", "b"), None, object),
    ("int-minus5-3", (-5, 3), 99, int),
    # (the NaN sentinel as a numpy scalar - what `y[i]` or `y.dtype.type("nan")` gives; np.float64 subclasses float)
    ("float-npnan", (0.0, 1.0), np.float64("nan"), float),
    # (class names of different lengths: while the longer one is unobserved the label array is narrower than it)
    ("str-bee-cicada", ("bee", "cicada"), "nan", str),
]


def encode(y_abs, enc):
    name, classes, ml, dt = enc
    vals = [ml if v < 0 else classes[int(v)] for v in y_abs]
    if dt is str:
        return np.array(vals, dtype=str)
    if dt is object:
        return np.array(vals, dtype=object)
    return np.array(vals, dtype=dt)


def pool_group(name, sc, seed, variant, encs):
    entry = ENTRIES[name]
    conc = pc.concretise(sc, entry, seed)
    X = conc["X"]
    y_abs = np.where(np.isnan(conc["y"]), -1, conc["y"]).astype(int)
    cand = conc["candidates"]
    obs = []
    try:
        for enc in encs:
            ename, classes, ml, dt = enc
            qs = entry.make(seed, ml, classes)
            kw = zoo.model_kwargs(entry, ml, classes, seed=seed, variant=variant)
            np.random.seed(5)
            with warnings.catch_warnings():
                warnings.simplefilter("ignore")
                with np.errstate(all="ignore"):
                    with pc.time_limit(120):
                        q, u = qs.query(X.copy(), encode(y_abs, enc), candidates=None if cand is None else np.array(cand),
                                        batch_size=1, return_utilities=True, **kw)
            u = np.asarray(u, dtype=float)
            obs.append((ename, u[0], int(np.asarray(q)[0])))
        finite = [abs(v) for o in obs for v in o[1] if np.isfinite(v)]
        scale = max(max(finite), 1e-6) if finite else 1.0
        events = [{"ev": "Obs", "name": n_, "vals": [[j + 1, _enc(v, scale)] for j, v in enumerate(row)],
                   "sel": sel + 1, "samekeys": True, "cmpsel": True} for n_, row, sel in obs]
    except Exception as ex:
        events = [{"ev": "Raised", "exc": "%s: %s" % (type(ex).__name__, str(ex)[:160]),
                   "encoding": encs[len(obs)][0] if len(obs) < len(encs) else "-"}]
    return {"id": "pool:%s/%s/seed%d/v%d" % (name, pc.scenario_tag(sc), seed, variant), "band": BAND,
            "events": events,
            "concrete": {"subject": "pool:" + name, "scenario": sc, "seed": seed, "variant": variant,
                         "encodings": [e[0] for e in encs], "X": X.tolist(), "y_abstract": y_abs.tolist()}}


# (a sentinel must be a value that cannot occur as a target - 0.0 is the prior mean of the kernel regressor and is
#  therefore simulated as a label by the expected-change strategies; it is not a reserved number)
REG_SENTINELS = [("float-nan", np.nan), ("float-minus999", -999.0), ("float-1e6", 1e6), ("float-minus1", -1.0)]


def reg_group(name, sc, seed, variant):
    """regression strategies: the targets stay, the missing-label sentinel varies (NaN / reserved numbers).  When
    the call fails in the same way under every sentinel there is nothing to compare (the scenario is outside the
    strategy's domain for reasons that have nothing to do with the encoding)."""
    entry = REG_ENTRIES[name]
    conc = pc.concretise(sc, entry, seed)
    X = conc["X"]
    y0 = conc["y"]
    cand = conc["candidates"]
    sent = [s_ for s_ in REG_SENTINELS if not np.any(y0 == s_[1])]
    obs, raised = [], []
    for ename, ml in sent:
        try:
            qs = entry.make(seed, ml, (0, 1))
            kw = zoo.model_kwargs(entry, ml, zoo.REG, seed=seed, variant=variant)
            big = bool(sc.get("bigreg"))
            if big and name.startswith("RegressionTreeBasedAL"):
                # a regularised tree (several labeled samples per leaf), as the strategy's paper uses it
                from sklearn.tree import DecisionTreeRegressor

                from skactiveml.regressor import SklearnRegressor

                kw["reg"] = SklearnRegressor(DecisionTreeRegressor(min_samples_leaf=2, random_state=seed),
                                             random_state=seed, missing_label=ml)
            y = np.where(np.isnan(y0), ml, y0)
            np.random.seed(5)
            with warnings.catch_warnings():
                warnings.simplefilter("ignore")
                with np.errstate(all="ignore"):
                    with pc.time_limit(120):
                        q, u = qs.query(X.copy(), y, candidates=None if cand is None else np.array(cand),
                                        batch_size=3 if big else 1, return_utilities=True, **kw)
            u = np.asarray(u, dtype=float)
            # (larger pools: the whole batch - every utility row and every selected sample - is compared)
            row = u.ravel() if big else u[0]
            extra = [1000.0 * (int(v) + 1) for v in np.asarray(q).ravel()] if big else []
            obs.append((ename, np.concatenate([row, np.array(extra, dtype=float)]), int(np.asarray(q).ravel()[0])))
        except Exception as ex:
            raised.append((ename, "%s: %s" % (type(ex).__name__, str(ex)[:160])))
    if raised and obs:
        events = [{"ev": "Raised", "exc": raised[0][1], "encoding": raised[0][0]}]
    elif raised:
        kinds = {r[1].split(":")[0] for r in raised}
        events = [] if len(kinds) == 1 else [{"ev": "Raised", "exc": " / ".join(sorted(kinds)), "encoding": "-"}]
    else:
        finite = [abs(v) for o in obs for v in o[1] if np.isfinite(v) and abs(v) < 999.0]
        scale = max(max(finite), 1e-6) if finite else 1.0
        events = [{"ev": "Obs", "name": n_,
                   "vals": [[j + 1, _enc(v, scale) if abs(v) < 999.0 or not np.isfinite(v) else int(v)]
                            for j, v in enumerate(row)],
                   "sel": sel + 1, "samekeys": True, "cmpsel": True} for n_, row, sel in obs]
    return {"id": "reg:%s/%s/seed%d/v%d" % (name, pc.scenario_tag(sc), seed, variant), "band": BAND,
            "events": events,
            "concrete": {"subject": "pool-regression:" + name, "scenario": sc, "seed": seed, "variant": variant,
                         "encodings": [e[0] for e in sent], "X": X.tolist(),
                         "y": [None if v != v else float(v) for v in y0]}}


FULL_ENCODINGS = [("float-nan", (0.0, 1.0), np.nan, float), ("int-minus1", (0, 1), -1, int), ("int-nan", (0, 1), np.nan, int),
                  ("str1-unlabeled", ("a", "b"), "unlabeled", str), ("str1-nan", ("a", "b"), "nan", str),
                  ("object-none", ("a", "b"), None, object),
                  # (a declared class whose name is wider than the dtype of a label array that never contains it)
                  ("str-a-horse", ("a", "horse"), "unlabeled", str)]


def full_rows_group(name, seed, n, k):
    """a completely labeled training set (the label array holds no sentinel entry, so its dtype may be too narrow
    for the sentinel: '<U1' vs 'unlabeled', int vs NaN) and candidates given as external feature rows"""
    from skactiveml.utils import check_missing_label

    entry = ENTRIES[name]
    rng = np.random.RandomState(seed)
    X = rng.normal(size=(n, 2)).round(3)
    y_abs = np.array([i % 2 for i in range(n)])
    rng.shuffle(y_abs)
    if seed % 3 == 0:
        y_abs[:] = 0                        # only the first class is observed
    cand = rng.normal(size=(k, 2)).round(3)
    obs, used = [], []
    try:
        for enc in FULL_ENCODINGS:
            ename, classes, ml, dt = enc
            y = np.array([classes[int(v)] for v in y_abs], dtype=dt)
            try:
                check_missing_label(ml, target_type=y.dtype)
            except (TypeError, ValueError):
                continue                    # (a combination the library documents as unsupported)
            used.append(ename)
            qs = entry.make(seed, ml, classes)
            kw = zoo.model_kwargs(entry, ml, classes, seed=seed, variant=0)
            np.random.seed(5)
            try:
                with warnings.catch_warnings():
                    warnings.simplefilter("ignore")
                    with np.errstate(all="ignore"):
                        with pc.time_limit(120):
                            q, u = qs.query(X.copy(), y, candidates=cand.copy(), batch_size=1, return_utilities=True,
                                            **kw)
            except TypeError as ex:
                if "not compatible" in str(ex):     # an explicit "sentinel type vs label dtype" precondition
                    used.pop()
                    continue
                raise
            obs.append((ename, np.asarray(u, dtype=float)[0], int(np.asarray(q)[0])))
        finite = [abs(v) for o in obs for v in o[1] if np.isfinite(v)]
        scale = max(max(finite), 1e-6) if finite else 1.0
        events = [{"ev": "Obs", "name": n_, "vals": [[j + 1, _enc(v, scale)] for j, v in enumerate(row)],
                   "sel": sel + 1, "samekeys": True, "cmpsel": True} for n_, row, sel in obs]
    except Exception as ex:
        events = [{"ev": "Raised", "exc": "%s: %s" % (type(ex).__name__, str(ex)[:160]),
                   "encoding": used[-1] if used else "-"}]
    return {"id": "pool:%s/fully-labeled-rows-n%d-k%d/seed%d" % (name, n, k, seed), "band": BAND, "events": events,
            "concrete": {"subject": "pool:" + name, "seed": seed, "encodings": used, "X": X.tolist(),
                         "y_abstract": y_abs.tolist(), "candidates": cand.tolist()}}


REG_ENTRIES = {}


def clf_makers():
    from sklearn.linear_model import LogisticRegression
    from sklearn.naive_bayes import GaussianNB

    from skactiveml.classifier import (MixtureModelClassifier, ParzenWindowClassifier, SklearnClassifier,
                                       SlidingWindowClassifier)
    from skactiveml.classifier.multiannotator import AnnotatorEnsembleClassifier, AnnotatorLogisticRegression

    def cm(k):
        return 1 - np.eye(k)

    return {
        "ParzenWindowClassifier": lambda c, m, s: ParzenWindowClassifier(classes=list(c), missing_label=m, random_state=s),
        "ParzenWindowClassifier(mean-gamma)": lambda c, m, s: ParzenWindowClassifier(
            classes=list(c), missing_label=m, random_state=s, metric_dict={"gamma": "mean"}),
        "ParzenWindowClassifier(cost)": lambda c, m, s: ParzenWindowClassifier(
            classes=list(c), missing_label=m, random_state=s, cost_matrix=np.array([[0, 2], [1, 0]])),
        "MixtureModelClassifier": lambda c, m, s: MixtureModelClassifier(classes=list(c), missing_label=m, random_state=s),
        "SklearnClassifier(GaussianNB)": lambda c, m, s: SklearnClassifier(GaussianNB(), classes=list(c),
                                                                           missing_label=m, random_state=s),
        "SklearnClassifier(LogisticRegression)": lambda c, m, s: SklearnClassifier(
            LogisticRegression(), classes=list(c), missing_label=m, random_state=s),
        "SklearnClassifier(GaussianNB,cost)": lambda c, m, s: SklearnClassifier(
            GaussianNB(), classes=list(c), missing_label=m, random_state=s, cost_matrix=np.array([[0, 2], [1, 0]])),
        "SlidingWindowClassifier": lambda c, m, s: SlidingWindowClassifier(
            ParzenWindowClassifier(classes=list(c), missing_label=m, random_state=s), classes=list(c), missing_label=m,
            random_state=s),
        "AnnotatorEnsembleClassifier": lambda c, m, s: AnnotatorEnsembleClassifier(
            estimators=[("a", ParzenWindowClassifier(classes=list(c), missing_label=m, random_state=s)),
                        ("b", ParzenWindowClassifier(classes=list(c), missing_label=m, random_state=s))],
            classes=list(c), missing_label=m, random_state=s),
        "AnnotatorLogisticRegression": lambda c, m, s: AnnotatorLogisticRegression(
            classes=list(c), missing_label=m, random_state=s, max_iter=5),
    }


def clf_group(name, seed, geom, pattern, encs):
    rng = np.random.RandomState(seed)
    n = 7
    X = pc.make_X(n, geom, rng)
    if pattern == "none":
        y_abs = np.full(n, -1)
    elif pattern == "one-class":
        y_abs = np.where(rng.rand(n) < 0.6, 0, -1)
    else:
        y_abs = np.where(rng.rand(n) < 0.7, rng.randint(0, 2, size=n), -1)
    probes = np.vstack([X[:3], X.mean(axis=0, keepdims=True), X.mean(axis=0, keepdims=True) + 0.37])
    multi = name.startswith("Annotator")
    obs = []
    try:
        for enc in encs:
            ename, classes, ml, dt = enc
            fresh = CLFS[name](classes, ml, seed)
            if seed % 3 == 1 and obs:
                # ONE object for all encodings, re-configured through set_params with the constructor parameters of
                # a fresh object of the new encoding: whatever the previous fit derived from the old encoding
                # (encoders, copies of nested estimators) must be replaced by the next fit
                clf.set_params(**fresh.get_params(deep=False))
            else:
                clf = fresh
            y = encode(y_abs, enc)
            if multi:
                y2 = encode(np.where(rng.rand(n) < 0.3, -1, y_abs) if False else y_abs, enc)
                y = np.stack([y, y2], axis=1)
            np.random.seed(5)
            with warnings.catch_warnings():
                warnings.simplefilter("ignore")
                with np.errstate(all="ignore"):
                    clf.fit(X.copy(), y)
                    P = np.asarray(clf.predict_proba(probes), dtype=float)
                    pred = clf.predict(probes)
                    cls_sorted = list(clf.classes_)
            pidx = [cls_sorted.index(p) if p in cls_sorted else -7 for p in pred.tolist()]
            # classes_ must be the re-encoded sorted classes
            order_ok = [classes.index(c) if c in classes else -7 for c in cls_sorted]
            obs.append((ename, P, pidx, order_ok))
        events = []
        for ename, P, pidx, order_ok in obs:
            vals = [[i * 10 + k + 1, _enc(P[i, k], 1.0)] for i in range(P.shape[0]) for k in range(P.shape[1])]
            vals += [[1000 + i, 1000 * pidx[i]] for i in range(len(pidx))]
            vals += [[2000 + k, 1000 * order_ok[k]] for k in range(len(order_ok))]
            events.append({"ev": "Obs", "name": ename, "vals": vals, "sel": 0, "samekeys": True, "cmpsel": False})
    except Exception as ex:
        events = [{"ev": "Raised", "exc": "%s: %s" % (type(ex).__name__, str(ex)[:160]),
                   "encoding": encs[len(obs)][0] if len(obs) < len(encs) else "-"}]
    return {"id": "clf:%s/%s-%s/seed%d" % (name, geom, pattern, seed), "band": BAND, "events": events,
            "concrete": {"subject": "clf:" + name, "seed": seed, "geometry": geom, "label_pattern": pattern,
                         "encodings": [e[0] for e in encs], "X": X.tolist(), "y_abstract": y_abs.tolist(),
                         "one_object_reconfigured_by_set_params": seed % 3 == 1}}


def stream_makers():
    from skactiveml import stream as st

    def plain(cls, **kw):
        return lambda classes, seed: cls(budget=0.5, random_state=seed, **kw)

    def with_classes(cls, **kw):
        return lambda classes, seed: cls(classes=list(classes), budget=0.5, random_state=seed, **kw)

    return {
        "FixedUncertainty": with_classes(st.FixedUncertainty),
        "VariableUncertainty": plain(st.VariableUncertainty),
        "RandomVariableUncertainty": plain(st.RandomVariableUncertainty),
        "Split": plain(st.Split),
        "StreamProbabilisticAL": plain(st.StreamProbabilisticAL),
        "StreamProbabilisticAL(rbf)": plain(st.StreamProbabilisticAL, metric="rbf"),
        "StreamDensityBasedAL": plain(st.StreamDensityBasedAL, window_size=5),
        "CognitiveDualQueryStrategyVarUn": plain(st.CognitiveDualQueryStrategyVarUn, cognition_window_size=4,
                                                 force_full_budget=True),
        "CognitiveDualQueryStrategyFixUn": with_classes(st.CognitiveDualQueryStrategyFixUn, cognition_window_size=4,
                                                        force_full_budget=True),
    }


def stream_group(name, seed, encs):
    """one stream (3 chunks of 4 candidates, query + update) per encoding; the classifier and, where the
    strategy has one, its `classes` parameter carry the encoding"""
    from skactiveml.classifier import ParzenWindowClassifier

    rng = np.random.RandomState(seed)
    X0 = rng.randint(0, 6, size=(10, 1)).astype(float)
    y_abs = np.where(rng.rand(10) < 0.3, -1, (X0[:, 0] > 2).astype(int))
    stream = rng.randint(0, 6, size=(12, 1)).astype(float)
    obs = []
    try:
        for enc in encs:
            ename, classes, ml, dt = enc
            clf = ParzenWindowClassifier(classes=list(classes), missing_label=ml, random_state=seed,
                                         metric_dict={"gamma": 0.4})
            y0 = encode(y_abs, enc)
            clf.fit(X0, y0)
            qs = STREAMS[name](classes, seed)
            vals = []
            np.random.seed(5)
            for step in range(3):
                cand = stream[4 * step:4 * step + 4]
                with warnings.catch_warnings():
                    warnings.simplefilter("ignore")
                    q, u = qs.query(cand.copy(), clf=clf, X=X0, y=y0, return_utilities=True)
                    qs.update(cand.copy(), q, budget_manager_param_dict={"utilities": np.asarray(u)})
                u = np.asarray(u, dtype=float)
                qset = set(int(i) for i in np.asarray(q))
                vals += [[step * 100 + i + 1, u[i]] for i in range(len(u))]
                vals += [[5000 + step * 100 + i + 1, 1000.0 * (i in qset)] for i in range(len(cand))]
            obs.append((ename, vals))
        finite = [abs(v) for o in obs for k, v in o[1] if k < 5000 and np.isfinite(v)]
        scale = max(max(finite), 1e-6) if finite else 1.0
        events = [{"ev": "Obs", "name": n_, "vals": [[k, _enc(v, scale) if k < 5000 else int(v)] for k, v in vals],
                   "sel": 0, "samekeys": True, "cmpsel": False} for n_, vals in obs]
    except Exception as ex:
        events = [{"ev": "Raised", "exc": "%s: %s" % (type(ex).__name__, str(ex)[:160]),
                   "encoding": encs[len(obs)][0] if len(obs) < len(encs) else "-"}]
    return {"id": "stream:%s/seed%d" % (name, seed), "band": BAND, "events": events,
            "concrete": {"subject": "stream:" + name, "seed": seed, "encodings": [e[0] for e in encs],
                         "y_abstract": y_abs.tolist()}}


def ma_group(inner_name, seed, encs):
    """SingleAnnotatorWrapper / IntervalEstimationThreshold on a label matrix presented under several encodings"""
    from skactiveml.classifier.multiannotator import AnnotatorLogisticRegression
    from skactiveml.pool.multiannotator import IntervalEstimationThreshold, SingleAnnotatorWrapper

    rng = np.random.RandomState(seed)
    n, na = 6, 3
    X = rng.normal(size=(n, 2)).round(3)
    y_abs = np.where(rng.rand(n, na) < 0.5, -1, rng.randint(0, 2, size=(n, na)))
    y_abs[0] = -1                      # at least one fully unlabeled sample
    if seed % 3 == 0:
        # an early state of a labeling campaign: only the FIRST class has been observed so far, and every annotated
        # sample was annotated by all annotators (label values that are falsy in one encoding - 0, 0.0 - and
        # truthy in another must not matter)
        y_abs[:] = -1
        y_abs[1:1 + 2 + seed % 2] = 0
    obs = []
    try:
        for enc in encs:
            ename, classes, ml, dt = enc
            y = np.stack([encode(y_abs[:, a], enc) for a in range(na)], axis=1)
            if inner_name == "IET":
                qs = IntervalEstimationThreshold(missing_label=ml, random_state=seed)
                kw = {"clf": AnnotatorLogisticRegression(classes=list(classes), missing_label=ml, random_state=seed,
                                                         max_iter=5), "batch_size": 2}
            else:
                e = ENTRIES[inner_name]
                qs = SingleAnnotatorWrapper(e.make(seed, ml, classes), missing_label=ml, random_state=seed)
                kw = dict(zoo.model_kwargs(e, ml, classes, seed=seed), batch_size=3, n_annotators_per_sample=2)
            np.random.seed(5)
            with warnings.catch_warnings():
                warnings.simplefilter("ignore")
                with np.errstate(all="ignore"):
                    with pc.time_limit(20):
                        q, u = qs.query(X.copy(), y, return_utilities=True, **kw)
            u = np.asarray(u, dtype=float)
            q = np.asarray(q)
            vals = [[j + 1, v] for j, v in enumerate(u[0].ravel())]
            vals += [[5000 + k, 1000.0 * (int(q[k, 0]) * na + int(q[k, 1]) + 1)] for k in range(len(q))]
            obs.append((ename, vals))
        finite = [abs(v) for o in obs for k, v in o[1] if k < 5000 and np.isfinite(v)]
        scale = max(max(finite), 1e-6) if finite else 1.0
        events = [{"ev": "Obs", "name": n_, "vals": [[k, _enc(v, scale) if k < 5000 else int(v)] for k, v in vals],
                   "sel": 0, "samekeys": True, "cmpsel": False} for n_, vals in obs]
    except BaseException as ex:
        events = [{"ev": "Raised", "exc": "%s: %s" % (type(ex).__name__, str(ex)[:160]),
                   "encoding": encs[len(obs)][0] if len(obs) < len(encs) else "-"}]
    return {"id": "ma:%s/seed%d" % (inner_name, seed), "band": BAND, "events": events,
            "concrete": {"subject": "multi-annotator:" + inner_name, "seed": seed, "encodings": [e[0] for e in encs],
                         "X": X.tolist(), "y_abstract": y_abs.tolist()}}


CLFS = {}
STREAMS = {}


def _job(arg):
    if arg[0] == "pool":
        return pool_group(*arg[1:])
    if arg[0] == "stream":
        return stream_group(*arg[1:])
    if arg[0] == "ma":
        return ma_group(*arg[1:])
    if arg[0] == "reg":
        return reg_group(*arg[1:])
    if arg[0] == "full":
        return full_rows_group(*arg[1:])
    return clf_group(*arg[1:])


def finding_key(tr, rej):
    oe = rej["offending_event"] or {}
    why = ",".join(rej["failed_clauses"]) or ("%s:%s" % (oe.get("ev", "end"), str(oe.get("exc", "")).split(":")[0]))
    return "%s|%s|%s" % (tr["id"].split("/")[0], oe.get("name", oe.get("encoding", "-")), why)


def main(tier="quick", seed=0):
    chk = Check("C09", tier, seed)
    import_repo()
    quick = tier == "quick"
    rng = np.random.default_rng(seed + 9)
    from . import c05

    # registry configurations plus the non-default parameter settings of C05 (metric=..., cost matrices,
    # dictionaries): helper models built inside a strategy must receive the configured sentinel too
    ENTRIES.update({e.name: e for e in zoo.entries() + c05.extra_entries() if not zoo.is_regression(e)})
    REG_ENTRIES.update({e.name: e for e in zoo.entries() + c05.extra_entries() if zoo.is_regression(e)})
    CLFS.update(clf_makers())
    STREAMS.update(stream_makers())
    chk.model_check("MC_Encoding", "MC_Encoding.cfg")
    scenarios = [s for s in chk.generate("PoolGen", "PoolGen.cfg") if s["n"] >= 3 and s["mode"] != "idx-any"]
    encs_all = ENCODINGS
    per_cost = {1: 30, 2: 12, 3: 4} if quick else {1: 300, 2: 120, 3: 30}
    jobs = []
    for e in ENTRIES.values():
        pool = [s for s in scenarios if pc.applicable(e, s)]
        for n_, i in enumerate(rng.choice(len(pool), size=min(per_cost[e.cost], len(pool)), replace=False)):
            k = 4 if quick else 7
            # (the n-th group of a configuration always contains the n-th encoding: every encoding is met by every
            #  configuration that has at least as many groups as there are encodings)
            forced = 1 + n_ % (len(encs_all) - 1)
            rest = [int(j) for j in rng.permutation(np.arange(1, len(encs_all))) if int(j) != forced][:k - 2]
            pick = [encs_all[0], encs_all[forced]] + [encs_all[j] for j in rest]
            jobs.append(("pool", e.name, pool[int(i)], int(rng.integers(0, 1000)), n_ % 2, pick))
    # cold starts (no label yet: the string label array is as narrow as the sentinel, narrower than the class names,
    # and the models break their ties at random, so every declared class is predicted somewhere)
    cold = [s for s in scenarios if not s["labeled"] and s["n"] >= 3]
    enc_by_name = {e[0]: e for e in encs_all}
    for e in ENTRIES.values():
        pool = [s for s in cold if pc.applicable(e, s)]
        for i in rng.choice(len(pool), size=min({1: 3, 2: 3, 3: 1}[e.cost] if quick else 12, len(pool)), replace=False):
            jobs.append(("pool", e.name, pool[int(i)], int(rng.integers(0, 1000)), 0,
                         [encs_all[0], enc_by_name["str-bee-cicada"], enc_by_name["str-a-b"]]))
    # larger seeded pools (6-10 samples), mostly with an index list that leaves unlabeled samples among the
    # non-candidates: code that looks at the labels of "the other samples" meets the sentinel only there
    # (both classes labeled, points in general position: the regime in which a miscounted class / an extra
    #  "NaN class" changes a clustering or a class-dependent score)
    big = [x for x in pc.random_scenarios(rng, 3000, 6, 10) if x["mode"] in ("idx", "none", "rows")]
    big_idx = [x for x in big if x["mode"] == "idx" and len(x["S"]) < x["n"] - len(x["labeled"])
               and len(x["labeled"]) >= 2 and x["labpat"] == "all-classes"
               and x["geom"] in ("distinct", "constant-feature", "collinear")]
    per_big = {1: 10, 2: 6, 3: 2} if quick else {1: 80, 2: 40, 3: 10}
    for e in ENTRIES.values():
        pool = [s for s in big_idx if pc.applicable(e, s)]
        for n_, i in enumerate(rng.choice(len(pool), size=min(per_big[e.cost], len(pool)), replace=False)):
            pick = [encs_all[0]] + [encs_all[int(j)] for j in rng.choice(np.arange(1, len(encs_all)), size=2, replace=False)]
            jobs.append(("pool", e.name, pool[int(i)], int(rng.integers(0, 1000)), n_ % 2, pick))
    for e in ENTRIES.values():
        if e.rows:
            for n_ in range({1: 4, 2: 2, 3: 1}[e.cost] if quick else {1: 30, 2: 12, 3: 4}[e.cost]):
                jobs.append(("full", e.name, int(rng.integers(0, 1000)), int(rng.integers(3, 7)), int(rng.integers(2, 5))))
    for e in REG_ENTRIES.values():
        pool = [s for s in scenarios if pc.applicable(e, s)]
        for n_, i in enumerate(rng.choice(len(pool), size=min(per_cost[e.cost], len(pool)), replace=False)):
            jobs.append(("reg", e.name, pool[int(i)], int(rng.integers(0, 1000)), n_ % 2))
    # larger regression pools (12-18 samples, at least four labels, batches of 3): a regression tree then has several
    # leaves that hold labeled AND unlabeled samples, where a sentinel that is a number can leak into a statistic
    bigreg = [dict(x, mode="none", S=[], bs=3, bigreg=True) for x in pc.random_scenarios(rng, 400, 12, 18)
              if len(x["labeled"]) >= 4]
    for e in REG_ENTRIES.values():
        for n_ in range(6 if quick else 40):
            jobs.append(("reg", e.name, bigreg[int(rng.integers(len(bigreg)))], int(rng.integers(0, 1000)), n_ % 2))
    geoms = ["distinct", "duplicates", "all-equal"]
    pats = ["none", "one-class", "all-classes"]
    for name in sorted(CLFS):
        for n_ in range(27 if quick else 270):
            jobs.append(("clf", name, int(rng.integers(0, 1000)), geoms[n_ % 3], pats[(n_ // 3) % 3], encs_all))
    for name in sorted(STREAMS):
        for n_ in range(10 if quick else 100):
            jobs.append(("stream", name, int(rng.integers(0, 1000)), encs_all))
    for inner in ("RandomSampling", "UncertaintySampling(entropy)", "ProbabilisticAL", "EpistemicUncertaintySampling",
                  "IET"):
        for n_ in range(8 if quick else 80):
            jobs.append(("ma", inner, int(rng.integers(0, 1000)), encs_all))
    traces = pmap(_job, jobs, chunksize=2)
    chk.count(sum(len(t["events"]) for t in traces))
    for t in traces:
        chk.case(tuple(t["id"].split("/")[:2]))
    chk.sample({"trace": {k: v for k, v in traces[0].items() if k != "concrete"}})
    chk.sample({"encodings": [[e[0], list(map(str, e[1])), str(e[2]), e[3].__name__] for e in ENCODINGS]})
    chk.rule = ("one trace = one abstract scenario presented under 4-7 encodings (class renaming x missing-label "
                "sentinel x dtype: float/NaN, int/-1, 10-20/-1, 10.0-20.0/NaN, str/'unlabeled', object/None, "
                "negative ints/99) for %d classification strategy configurations on PoolGen scenarios and %d "
                "classifiers on seeded data (no labels / one class / both classes) and %d stream strategy configurations "
                "(3 chunks of query + update each), the multi-annotator strategies on label matrices, and %d regression "
                "strategy configurations under the sentinels NaN / -999 / 1e6 / -1 (targets unchanged); evaluations = "
                "observations" % (len(ENTRIES), len(CLFS), len(STREAMS), len(REG_ENTRIES)))
    chk.validate("EquivTrace", traces, key_of=finding_key, describe=lambda t: t["concrete"])
    chk.assumptions = ["only combinations accepted by check_missing_label are used (numeric sentinels with numeric "
                       "labels, string sentinel with string labels, None with object labels)",
                       "utilities / probabilities are compared in fixed point (band 2^-19 of the scale); predicted "
                       "classes and the order of classes_ are compared exactly through their class indices",
                       "the process-global generator is reseeded identically before every call"]
    return chk.finish()
