"""Concretising TLC pool scenarios, running pool queries on the real
strategies and synthesising the trace events (PoolTrace.tla).  Nothing is
judged here."""

import signal
import warnings
from contextlib import contextmanager

import inspect
import os

import numpy as np

from .. import abstraction as ab
from .. import zoo


class Hang(Exception):
    pass


@contextmanager
def time_limit(seconds):
    def handler(signum, frame):
        raise Hang("no result after %ss" % seconds)

    old = signal.signal(signal.SIGALRM, handler)
    signal.setitimer(signal.ITIMER_REAL, seconds)
    try:
        yield
    finally:
        signal.setitimer(signal.ITIMER_REAL, 0)
        signal.signal(signal.SIGALRM, old)


def make_X(n, geom, rng, d=2):
    if geom == "distinct":
        return rng.normal(size=(n, d)).round(3)
    if geom == "duplicates":
        # small pools: two copies per point; larger pools: three or more copies, so that a point can
        # carry conflicting labels and still be a candidate
        k = max(1, (n + 1) // 2) if n <= 5 else max(2, n // 3)
        base = rng.normal(size=(k, d)).round(3)
        return base[np.arange(n) % k].copy()
    if geom == "all-equal":
        return np.tile(rng.normal(size=(1, d)).round(3), (n, 1))
    if geom == "constant-feature":
        X = rng.normal(size=(n, d)).round(3)
        X[:, -1] = 1.0
        return X
    if geom == "collinear":
        t = rng.permutation(n).astype(float) + 1.0
        return np.outer(t, np.arange(1, d + 1)).astype(float)
    raise ValueError(geom)


def concretise(sc, entry, seed, encoding=None, dup=False, sentinel=False):
    """TLC scenario -> concrete query arguments (+ the abstract fields of the trace).  dup=True: an index candidate
    list may name a sample twice (check_indices de-duplicates: the candidate SET is what the property speaks of)"""
    rng = np.random.RandomState(seed)
    n = sc["n"]
    X = make_X(n, sc["geom"], rng)
    labeled = sorted(sc["labeled"])
    regression = zoo.is_regression(entry)
    y = np.full(n, np.nan)
    for k, i in enumerate(labeled):
        if regression:
            y[i - 1] = 1.0 if sc["labpat"] == "one-class" else float(k) - 0.5
        else:
            y[i - 1] = 0.0 if sc["labpat"] == "one-class" else float(k % 2)
    mode = sc["mode"]
    S = sorted(sc["S"])
    if mode in ("idx", "idx-any"):
        order = list(rng.permutation(len(S)))
        S = [S[i] for i in order]
        candidates = [i - 1 for i in S]
        if dup and len(S) >= 1 and rng.rand() < 0.3:
            candidates.insert(int(rng.randint(len(candidates) + 1)), candidates[int(rng.randint(len(candidates)))])
        amode, M = "idx", 0
    elif mode == "rows":
        order = list(rng.permutation(len(S)))
        S = [S[i] for i in order]
        candidates = X[[i - 1 for i in S]].copy()
        amode, M = "rows", len(S)
    else:
        candidates, amode, M = None, "none", 0
    if sentinel and seed % 5 == 4:
        # (and one fifth of the calls present the features as an integer matrix)
        # (same scale: far-apart points make kernel models underflow, which is the models' numerics)
        X = np.round(X).astype(int)
        if isinstance(candidates, np.ndarray):
            candidates = np.round(candidates).astype(int)
    ml, classes = np.nan, (0, 1)
    if sentinel and seed % 4 == 3:
        # one quarter of the calls encode the missing labels with a reserved number (consistently on strategy
        # and models): validity of the batch must not depend on the sentinel
        if regression:
            ml, classes = -999.0, zoo.REG
            y = np.where(np.isnan(y), ml, y)
        else:
            ml = -1
            y = np.where(np.isnan(y), ml, y).astype(int)
    return {
        "X": X, "y": y, "candidates": candidates, "batch_size": int(sc["bs"]), "classes": classes,
        "missing_label": ml, "rows_of": S if amode == "rows" else None,
        "abstract": {"n": n, "labeled": labeled, "mode": amode, "S": sorted(S) if amode == "idx" else [],
                     "M": M, "bs": int(sc["bs"]), "kind": entry.selection},
    }


def call_query(entry, conc, seed, return_utilities, variant=0, limit=60):
    qs = entry.make(seed, conc["missing_label"], conc["classes"])
    kw = zoo.model_kwargs(entry, conc["missing_label"], conc["classes"], seed=seed, variant=variant)
    cand = conc["candidates"]
    if isinstance(cand, np.ndarray):
        cand = cand.copy()
    if seed % 7 == 3 and "sample_weight" in inspect.signature(qs.query).parameters and "reg" not in kw:
        # one seventh of the calls weight every training sample with 40: large (weighted) class frequencies, as a
        # few hundred labeled neighbours would produce (counts of 200-400 where a handful of samples gives 1-10)
        kw["sample_weight"] = np.full(len(conc["X"]), 40.0)
    with warnings.catch_warnings():
        warnings.simplefilter("ignore")
        with np.errstate(all="ignore"):
            with time_limit(limit):
                return qs.query(conc["X"].copy(), conc["y"].copy(), candidates=cand,
                                batch_size=conc["batch_size"], return_utilities=return_utilities, **kw)


def events_of(result, return_utilities, width):
    """events of one finished call"""
    events = [{"ev": "Validate"}, {"ev": "Transform"}]
    if return_utilities:
        if not (isinstance(result, tuple) and len(result) == 2):
            return events + [{"ev": "MalformedResult", "type": type(result).__name__}]
        q, u = result
    else:
        q, u = result, None
    qa = np.asarray(q)
    if qa.ndim != 1 or (qa.size and qa.dtype.kind not in "iu"):
        return events + [{"ev": "MalformedIndices", "shape": list(qa.shape), "dtype": str(qa.dtype)}]
    if u is None:
        events += [{"ev": "Pick", "j": int(j) + 1} for j in qa]
        events.append({"ev": "Finish", "n": int(len(qa)), "nrows": -1})
        return events
    ua = np.asarray(u)
    if ua.ndim != 2 or ua.dtype.kind != "f":
        return events + [{"ev": "MalformedUtilities", "shape": list(ua.shape), "dtype": str(ua.dtype)}]
    ranks = ab.signed_ranks(*[r for r in ua]) if len(ua) else []
    for i, j in enumerate(qa):
        if i < len(ranks):
            events.append({"ev": "Step", "j": int(j) + 1, "row": ranks[i]})
        else:
            events.append({"ev": "Pick", "j": int(j) + 1})
    events.append({"ev": "Finish", "n": int(len(qa)), "nrows": int(len(ua))})
    return events


def record_query(entry, sc, seed, return_utilities, variant=0):
    conc = concretise(sc, entry, seed, dup=True, sentinel=True)
    ab_ = conc["abstract"]
    try:
        res = call_query(entry, conc, seed, return_utilities, variant)
        events = events_of(res, return_utilities, ab_["M"] if ab_["mode"] == "rows" else ab_["n"])
    except Hang as ex:
        events = [{"ev": "Validate"}, {"ev": "Transform"}, {"ev": "Hang", "exc": str(ex)}]
    except Exception as ex:
        events = [{"ev": "Validate"}, {"ev": "Transform"},
                  {"ev": "Raised", "exc": "%s: %s" % (type(ex).__name__, str(ex)[:160])}]
    tr = dict(ab_)
    tr["id"] = "%s/%s/seed%d/util=%s/v%d" % (entry.name, scenario_tag(sc), seed, return_utilities, variant)
    tr["events"] = events
    tr["concrete"] = {"strategy": entry.name, "scenario": sc, "seed": seed, "variant": variant,
                      "return_utilities": return_utilities,
                      "sample_weight": "40.0 for every sample, if query takes sample_weight" if seed % 7 == 3 else None,
                      "X": conc["X"].tolist(), "y": ["nan" if v != v else v for v in conc["y"].tolist()],
                      "candidates": (conc["candidates"].tolist() if isinstance(conc["candidates"], np.ndarray)
                                     else conc["candidates"]), "batch_size": conc["batch_size"]}
    return tr


def scenario_tag(sc):
    return "n%d-L%s-%s-S%s-bs%d-%s-%s" % (sc["n"], "".join(map(str, sorted(sc["labeled"]))) or "0", sc["mode"],
                                           "".join(map(str, sorted(sc["S"]))) or "0", sc["bs"], sc["geom"][:4],
                                           sc["labpat"][:3])


# strategies that are not sample-wise scorers but whose documentation and code accept index candidates that contain
# labeled samples (DiscriminativeAL labels candidates "0" in its own discriminator problem).  An experiment with
# VERIF_IDX_ANY_ALL=1 shows that TypiClust, Quire, CoreSet, Badge and SubSamplingWrapper(exclude_non_subsample=True)
# assume unlabeled candidates (errors / repeated picks otherwise) - outside the envelope of DESIGN.md section 5.
LABELED_IDX_OK = {"DiscriminativeAL", "DiscriminativeAL(greedy)"}


def applicable(entry, sc):
    if sc["mode"] == "rows" and not entry.rows:
        return False
    if sc["mode"] == "idx-any" and not ((entry.samplewise and entry.arbitrary_idx) or entry.name in LABELED_IDX_OK
                                        or os.environ.get("VERIF_IDX_ANY_ALL")):
        return False
    return True


def finding_key(tr, rej):
    oe = rej["offending_event"] or {}
    name = tr["id"].split("/")[0]
    why = ",".join(rej["failed_clauses"]) or ("%s:%s" % (oe.get("ev", "end"), str(oe.get("exc", "")).split(":")[0]))
    if name.startswith("RegressionTreeBasedAL"):
        # this strategy fails in several ways once a tree can be grown (wrong
        # shape, wrong count, exceptions), depending on the seed: one finding
        # per method and regime instead of one per symptom
        return "%s|%s" % (name, "at-least-two-labels" if len(tr["labeled"]) >= 2 else "fewer-than-two-labels")
    if (name.startswith("SubSamplingWrapper(") and "exclude_non_subsample=True" in name and not tr["labeled"]
            and "-rows-" in tr["id"] and why == "Raised:ValueError"):
        # the cold-start failure recorded under C20: the configuration class, not the wrapped strategy, is the key
        return "SubSamplingWrapper(exclude_non_subsample=True)|feature-row-candidates,no-label|%s" % why
    return "%s|%s" % (name, why)


def describe(tr):
    return dict(tr["concrete"], how="strategy.query(X, y, candidates=candidates, batch_size=batch_size, "
                                    "return_utilities=..., <models from harness.zoo.model_kwargs>)")


def random_scenarios(rng, k, n_lo=6, n_hi=10):
    """larger seeded scenarios (same fields as PoolGen cases); duplicated
    points with conflicting labels, several candidates per mode"""
    geoms = ["distinct", "duplicates", "duplicates", "all-equal", "constant-feature", "collinear"]
    out = []
    for _ in range(k):
        n = int(rng.integers(n_lo, n_hi + 1))
        nl = int(rng.choice([0, 1, 2, 3, 4, n // 2, n - 2]))
        nl = max(0, min(nl, n - 1))
        labeled = sorted(int(i) for i in rng.choice(np.arange(1, n + 1), size=nl, replace=False))
        unl = [i for i in range(1, n + 1) if i not in labeled]
        mode = ["none", "idx", "rows", "idx-any"][int(rng.integers(4))]
        if mode == "none":
            S = []
            nc = len(unl)
        elif mode == "idx-any":
            S = sorted(int(i) for i in rng.choice(np.arange(1, n + 1), size=int(rng.integers(1, n + 1)), replace=False))
            nc = len(S)
        else:
            S = sorted(int(i) for i in rng.choice(unl, size=int(rng.integers(1, len(unl) + 1)), replace=False))
            nc = len(S)
        out.append({"n": n, "labeled": labeled, "mode": mode, "S": S,
                    "bs": int(rng.choice([1, 2, 3, max(1, nc - 1), nc, nc + 1])),
                    "geom": geoms[int(rng.integers(len(geoms)))],
                    "labpat": ["one-class", "all-classes", "all-classes"][int(rng.integers(3))]})
    return out
