"""C11 - classifier outputs are valid probabilities and consistent decisions.

(M) TLC checks spec/Classify.tla exhaustively (K <= 3 classes, every declared
    order, every set of seen classes, frequency rows over {0,1,2}, priors over
    {0,1}, zero-diagonal cost matrices and the default): Simplex, Order,
    CostSemantics, PredictInClasses, PredictMinimisesCost, TieFair,
    UniformNoLabels.
(G) TLC enumerates abstract cases (a residue class of a hash of the case,
    chosen by the seed).  Each case is concretised under three label encodings
    and replayed into ParzenWindowClassifier(metric='precomputed') (the kernel
    row consists of the TLC-chosen integers, so frequencies are exact) and into
    SklearnClassifier around DummyClassifier('prior') / GaussianNB /
    LogisticRegression (fit and partial_fit).  The projected fit / predict_proba
    / predict results are written as traces.
(T) ClassifyTrace.tla validates every trace: exact traces must be steps of
    Classify with exactly the logged rationals; numeric classifiers
    (kernel PWC, MixtureModelClassifier, SlidingWindowClassifier,
    AnnotatorEnsembleClassifier, AnnotatorLogisticRegression, fitted GaussianNB /
    LogisticRegression wrappers) log fixed-point rows, cost ranks and predicted
    indices on which TLC evaluates the invariants.

Python only chooses inputs and projects values; every verdict is TLC's.
"""

import copy
import threading
import warnings
from fractions import Fraction

import numpy as np

from .. import tlc as _tlc
from ..core import Check, import_repo, pmap

ONE = 1 << 16
CAP = 1 << 30
N_REPEAT = 8          # identical query rows per exact case (tie breaking / sampling is per row)

# concrete label encodings; abstract class r (1-based sorted position) -> labels[r-1]
ENCODINGS = {
    "int": {"labels": [3, 10, 25], "missing": -1},
    # integer-valued floats: scikit-learn estimators reject non-integral float class labels
    "float": {"labels": [4.0, 6.0, 9.0], "missing": float("nan")},
    "str": {"labels": ["aa", "b", "cc"], "missing": "none"},
    # labels equal to column indices (hides decoding defects, used only in
    # addition to the others for the numeric classifiers)
    "idx": {"labels": [0, 1, 2], "missing": -1},
}


# ---------------------------------------------------------------------------
# concretisation helpers (inputs)
def _labels(enc, K):
    return ENCODINGS[enc]["labels"][:K]


def _declared(enc, decl):
    labs = ENCODINGS[enc]["labels"]
    out = [labs[r - 1] for r in decl]
    return out


def _y_array(enc, cls_ids, shape=None):
    """cls_ids: nested list of 0-based abstract classes or None (missing)."""
    labs, miss = ENCODINGS[enc]["labels"], ENCODINGS[enc]["missing"]

    def conv(c):
        return miss if c is None else labs[c]

    arr = np.array(cls_ids, dtype=object)
    flat = [conv(c) for c in arr.ravel().tolist()]
    if enc in ("int", "idx"):
        out = np.array(flat, dtype=int)
    elif enc == "float":
        out = np.array(flat, dtype=float)
    else:
        out = np.array(flat, dtype=str)
    return out.reshape(arr.shape if shape is None else shape)


# ---------------------------------------------------------------------------
# projections (abstraction function)
def _idx_of(v, labs):
    """1-based position of value v in the sorted concrete class list, 0 if it
    is not a member."""
    for i, lab in enumerate(labs):
        try:
            if isinstance(lab, str):
                if isinstance(v, str) and str(v) == lab:
                    return i + 1
            elif not isinstance(v, str) and float(v) == float(lab):
                return i + 1
        except (TypeError, ValueError):
            pass
    return 0


def _rat(x):
    try:
        x = float(x)
    except (TypeError, ValueError):
        return [-1, 1]
    if not np.isfinite(x):
        return [-1, 1]
    fr = Fraction(x).limit_denominator(1000)
    if abs(float(fr) - x) <= 1e-12:
        return [fr.numerator, fr.denominator]
    return [-1, 1]  # not a small rational: no probability of the specification equals it


def _fx(x):
    x = float(x)
    if not np.isfinite(x):
        return 0
    return int(max(-CAP, min(CAP, round(x * ONE))))


def _small_int(x):
    x = float(x)
    if np.isfinite(x) and x == int(x) and abs(x) < 10000:
        return int(x)
    return -1


def _cost_ranks(c, tol=1e-9):
    """dense ranks of a cost row; values closer than tol (chained) share a rank"""
    c = np.asarray(c, dtype=float)
    if not np.isfinite(c).all():
        return [0] * len(c)
    order = np.argsort(c, kind="stable")
    ranks = [0] * len(c)
    r, prev = 0, None
    for j in order:
        if prev is not None and c[j] - prev > tol:
            r += 1
        ranks[int(j)] = r
        prev = c[j]
    return ranks


def _fit_event(clf, labs):
    classes = [_idx_of(v.item() if hasattr(v, "item") else v, labs) for v in np.asarray(clf.classes_).ravel()]
    cm = np.asarray(clf.cost_matrix_, dtype=float)
    return {"ev": "Fit", "classes": classes, "cmS": [[_small_int(v) for v in row] for row in cm.tolist()]}


def _pred_indices(pred, labs):
    pred = np.asarray(pred).ravel()
    return [_idx_of(v.item() if hasattr(v, "item") else v, labs) for v in pred]


def _base(case, enc, name, mode, site, cfgclass, **flags):
    K = case["K"]
    t = {"id": name, "mode": mode, "site": site, "cfgclass": cfgclass,
         "kind": case.get("kind", "freq"), "K": K, "decl": case["decl"], "dflt": case["dflt"],
         "cm": case["cm"], "seen": case["seen"], "F": case.get("F", [0] * K),
         "prior": case.get("prior", [0] * K), "lc": case.get("lc", case["seen"]),
         "estOK": case.get("estOK", True), "votes": False, "remap": False, "hard": False,
         "events": [], "enc": enc}
    t.update(flags)
    return t


def _raised(where, ex):
    return {"ev": "Raised", "where": where, "exc": type(ex).__name__, "msg": str(ex)[:160]}


def _call(trace, where, fn):
    """run one public call of the classifier; an exception becomes an event
    no action of the specification matches"""
    try:
        with warnings.catch_warnings():
            warnings.simplefilter("ignore")
            with np.errstate(all="ignore"):
                return True, fn()
    except Exception as ex:  # noqa: BLE001 - the code under test raised
        trace["events"].append(_raised(where, ex))
        return False, None


def _fresh(clf):
    """every public call is made on a copy of the fitted classifier, so that
    each observation is a function of the fitted state (member classifiers
    advance their random generators when they break ties)"""
    return copy.deepcopy(clf)


def _exact_events(trace, clf, Xq, labs, K, with_freq):
    ok, P = _call(trace, "predict_proba", lambda: np.asarray(_fresh(clf).predict_proba(Xq)))
    if not ok:
        return
    Fobs = None
    if with_freq:
        ok, Fobs = _call(trace, "predict_freq", lambda: np.asarray(_fresh(clf).predict_freq(Xq)))
        if not ok:
            return
    if P.ndim != 2 or P.shape[0] != len(Xq) or (Fobs is not None and Fobs.shape != P.shape):
        trace["events"].append({"ev": "Malformed", "what": "predict_proba", "shape": list(P.shape)})
        return
    trace["events"].append({"ev": "Proba", "P": [_rat(v) for v in P[0]],
                            "fin": bool(np.isfinite(P.astype(float)).all()),
                            "F": [_small_int(v) for v in Fobs[0]] if Fobs is not None else []})
    ok, pred = _call(trace, "predict", lambda: np.asarray(_fresh(clf).predict(Xq)))
    if not ok:
        return
    if pred.shape != (len(Xq),):
        trace["events"].append({"ev": "Malformed", "what": "predict", "shape": list(pred.shape)})
        return
    trace["events"].append({"ev": "Predict", "preds": _pred_indices(pred, labs)})


def _row_events(trace, clf, Xq, labs, K, with_freq):
    ok, P = _call(trace, "predict_proba", lambda: np.asarray(_fresh(clf).predict_proba(Xq)))
    if not ok:
        return
    Fobs = None
    if with_freq:
        ok, Fobs = _call(trace, "predict_freq", lambda: np.asarray(_fresh(clf).predict_freq(Xq)))
        if not ok:
            return
    ok, pred = _call(trace, "predict", lambda: np.asarray(_fresh(clf).predict(Xq)))
    if not ok:
        return
    if (P.ndim != 2 or P.shape[0] != len(Xq) or pred.shape != (len(Xq),)
            or (Fobs is not None and Fobs.shape != P.shape)):
        trace["events"].append({"ev": "Malformed", "what": "shapes", "proba": list(P.shape),
                                "pred": list(pred.shape)})
        return
    P = P.astype(float)
    cmS = np.asarray(clf.cost_matrix_, dtype=float)
    with np.errstate(all="ignore"):
        costs = np.dot(P, cmS) if P.shape[1] == cmS.shape[0] else np.zeros_like(P)
    idx = _pred_indices(pred, labs)
    for i in range(len(Xq)):
        ev = {"ev": "Row", "Pfx": [_fx(v) for v in P[i]], "fin": bool(np.isfinite(P[i]).all()),
              "Prat": [_rat(v) for v in P[i]], "cr": _cost_ranks(costs[i]), "pred": idx[i],
              "Ffx": [], "Ffin": True}
        if Fobs is not None:
            ev["Ffx"] = [_fx(v) for v in Fobs[i]]
            ev["Ffin"] = bool(np.isfinite(Fobs[i].astype(float)).all())
        trace["events"].append(ev)


# ---------------------------------------------------------------------------
# (G) exact replay of one TLC case
def _cost_arg(case):
    return None if case["dflt"] else [list(map(float, row)) for row in case["cm"]]


def _prior_arg(case, rng):
    pr = case["prior"]
    if all(p == pr[0] for p in pr):
        return float(pr[0]) if rng.random() < 0.5 else int(pr[0])
    return [float(p) for p in pr]


def _realise_freq(case, rng):
    """training multiset [(class|None, kernel value, weight)] whose weighted
    kernel sums are exactly the frequency row chosen by TLC"""
    K, F, scen = case["K"], case["F"], case["scen"]
    seen = [c for c in range(K) if case["seen"][c]]
    s = []
    for c in seen:
        f = F[c]
        if scen == "plain":
            if f == 0:
                s.append((c, 0, 1))
            elif rng.random() < 0.5:
                s.append((c, f, 1))
            else:
                s += [(c, 1, 1)] * f
        elif scen == "dups":
            s += [(c, 1, 1)] * f if f else [(c, 0, 1), (c, 0, 1)]
        else:
            if f == 0:
                s += [[(c, int(rng.integers(0, 3)), 0)], [(c, 0, 5)], [(c, 0, 1), (c, 2, 0)]][int(rng.integers(3))]
            elif f % 5 == 0 and rng.random() < 0.7:
                s.append((c, f // 5, 5))
            else:
                s.append((c, f, 1))
                if rng.random() < 0.5:
                    s.append((c, int(rng.integers(0, 3)), 0))
    for _ in range(int(rng.integers(0 if s else 1, 3))):
        s.append((None, int(rng.integers(0, 3)), [0, 1, 5][int(rng.integers(3))]))
    order = rng.permutation(len(s))
    return [s[i] for i in order], scen == "weights"


def _freq_case(case, rng, seed, encs):
    from skactiveml.classifier import ParzenWindowClassifier

    K = case["K"]
    samples, use_w = _realise_freq(case, rng)
    n = len(samples)
    X = np.zeros((n, 1)) if case["scen"] == "dups" else np.arange(n, dtype=float).reshape(-1, 1)
    krow = np.array([[float(k) for _, k, _ in samples]] * N_REPEAT)
    w = np.array([float(wt) for _, _, wt in samples]) if use_w else None
    all_seen = all(case["seen"])
    traces, n_eval = [], 0
    for enc in encs:
        labs = _labels(enc, K)
        y = _y_array(enc, [c for c, _, _ in samples])
        no_classes = all_seen and case["dflt"] and rng.random() < 0.3
        prior = _prior_arg(case, rng)
        tr = _base(case, enc, "PWC-precomputed/%s/%s" % (enc, _case_tag(case)), "exact",
                   "ParzenWindowClassifier", "precomputed-kernel",
                   concrete={"classifier": "ParzenWindowClassifier(metric='precomputed')",
                             "classes": None if no_classes else _declared(enc, case["decl"]),
                             "missing_label": repr(ENCODINGS[enc]["missing"]), "cost_matrix": _cost_arg(case),
                             "class_prior": prior, "y": y.tolist(),
                             "sample_weight": None if w is None else w.tolist(),
                             "kernel_row": krow[0].tolist(), "random_state": seed})
        clf = ParzenWindowClassifier(metric="precomputed",
                                     classes=None if no_classes else _declared(enc, case["decl"]),
                                     missing_label=ENCODINGS[enc]["missing"], cost_matrix=_cost_arg(case),
                                     class_prior=prior, random_state=seed)
        ok, _ = _call(tr, "fit", lambda: clf.fit(X, y, sample_weight=w))
        n_eval += 1
        if ok:
            tr["events"].append(_fit_event(clf, labs))
            _exact_events(tr, clf, krow, labs, K, with_freq=True)
        traces.append(tr)
    return traces, n_eval


def _decompose(f, rng):
    """weights from {0,1,5} that sum to f"""
    ws = []
    while f >= 5:
        ws.append(5)
        f -= 5
    ws += [1] * f
    if not ws or rng.random() < 0.4:
        ws.append(0)
    return ws


def _realise_wrap(case, rng):
    K, scen = case["K"], case["scen"]
    seen = [c for c in range(K) if case["seen"][c]]
    s = []  # (class|None, weight)
    use_w = False
    if case["estOK"]:
        F = case["F"]
        if scen == "weights" or any(F[c] == 0 or F[c] > 2 for c in seen):
            use_w = True
        for c in seen:
            if use_w:
                s += [(c, wt) for wt in _decompose(F[c], rng)]
            else:
                s += [(c, 1)] * F[c]
    else:
        for c in seen:
            s += [(c, 1)] * case["lc"][c]
    for _ in range(int(rng.integers(0 if s else 1, 3))):
        s.append((None, [0, 1, 5][int(rng.integers(3))]))
    order = rng.permutation(len(s))
    return [s[i] for i in order], use_w


def _features(cls_ids, rng, dups, d=2):
    """dups: False | "all" (every point identical) | "class" (all points of a
    class identical, unlabeled points copy a labeled one)"""
    n = len(cls_ids)
    if dups == "all" or dups is True:
        return np.tile(rng.normal(size=(1, d)).round(2), (n, 1))
    X = np.zeros((n, d))
    for i, c in enumerate(cls_ids):
        cc = -1 if c is None else c
        X[i] = np.array([2.0 * cc, -1.0 * cc] + [0.0] * (d - 2))[:d]
        if dups != "class":
            X[i] += 0.3 * rng.normal(size=d)
    if dups == "class":
        lab = [i for i, c in enumerate(cls_ids) if c is not None]
        for i, c in enumerate(cls_ids):
            if c is None and lab:
                X[i] = X[lab[int(rng.integers(len(lab)))]]
    return X.round(3)


def _wrap_variants():
    from sklearn.dummy import DummyClassifier
    from sklearn.linear_model import LogisticRegression
    from sklearn.naive_bayes import GaussianNB

    return [("DummyClassifier", lambda: DummyClassifier(strategy="prior"), "fit"),
            ("GaussianNB", GaussianNB, "fit"),
            ("GaussianNB", GaussianNB, "partial_fit"),
            ("LogisticRegression", LogisticRegression, "fit")]


def _wrap_case(case, rng, seed, encs):
    from skactiveml.classifier import SklearnClassifier

    K = case["K"]
    samples, use_w = _realise_wrap(case, rng)
    cls_ids = [c for c, _ in samples]
    # wrapped scikit-learn estimators: duplicates are identical points within a
    # class (GaussianNB on data without any variance is outside its envelope)
    X = _features(cls_ids, rng, "class" if case["scen"] == "dups" else False)
    w = np.array([float(wt) for _, wt in samples]) if use_w else None
    F_real = [int(sum((wt if use_w else 1) for c, wt in samples if c == k)) for k in range(K)]
    lc_real = [sum(1 for c, _ in samples if c == k) for k in range(K)]
    Xq_same = np.tile(X[:1] if len(X) else np.zeros((1, 2)), (N_REPEAT, 1))
    Xq_num = np.vstack([X[:4], rng.normal(size=(2, X.shape[1])).round(3)])
    traces, n_eval = [], 0
    for name, make, how in _wrap_variants():
        for enc in encs:
            labs = _labels(enc, K)
            y = _y_array(enc, cls_ids)
            c2 = dict(case)
            c2["F"], c2["lc"] = F_real, lc_real
            tr = _base(c2, enc, "SklearnClassifier(%s).%s/%s/%s" % (name, how, enc, _case_tag(case)), "exact",
                       "SklearnClassifier", "",
                       concrete={"classifier": "SklearnClassifier(%s)" % name, "fit_method": how,
                                 "classes": _declared(enc, case["decl"]),
                                 "missing_label": repr(ENCODINGS[enc]["missing"]),
                                 "cost_matrix": _cost_arg(case), "X": X.tolist(), "y": y.tolist(),
                                 "sample_weight": None if w is None else w.tolist(), "random_state": seed})
            clf = SklearnClassifier(make(), classes=_declared(enc, case["decl"]),
                                    missing_label=ENCODINGS[enc]["missing"], cost_matrix=_cost_arg(case),
                                    random_state=seed)
            lab_ids = [c for c in cls_ids if c is not None]
            past = int(rng.integers(3)) if (how == "fit" and lab_ids) else 0
            if past:
                # the object has a past: it was fitted on the same points with OTHER classes observed (1: the class
                # ids mirrored, 2: one single class) and asked for probabilities and decisions - whatever it derived
                # from that model (class positions of the wrapped estimator's columns, ...) must not survive the fit
                past_ids = [None if c is None else (K - 1 - c if past == 1 else (lab_ids[0] + 1) % K) for c in cls_ids]
                try:
                    with warnings.catch_warnings():
                        warnings.simplefilter("ignore")
                        clf.fit(X, _y_array(enc, past_ids))
                        clf.predict_proba(Xq_num)
                        clf.predict(Xq_num)
                    tr["concrete"]["fitted_and_queried_before_on"] = {"y": _y_array(enc, past_ids).tolist(),
                                                                       "then": "predict_proba(X_query), predict(X_query)"}
                except Exception:
                    pass
            ok, _ = _call(tr, how, lambda: getattr(clf, how)(X, y, sample_weight=w))
            n_eval += 1
            if not ok:
                tr["cfgclass"] = "cost_matrix" if not case["dflt"] else "default-cost"
                traces.append(tr)
                continue
            fitted = getattr(clf, "is_fitted_", None)
            if not isinstance(fitted, (bool, np.bool_)):
                tr["events"].append({"ev": "Malformed", "what": "is_fitted_"})
                traces.append(tr)
                continue
            fitted = bool(fitted)
            tr["cfgclass"] = "%s,%s" % ("fitted" if fitted else "unfitted",
                                         "default-cost" if case["dflt"] else "cost_matrix")
            if fitted and case["dflt"]:
                # the decision is the wrapped estimator's own predict
                tr["cfgclass"] += ",%s.%s,%s" % (name, how, "all-classes-seen" if all(case["seen"])
                                                 else "declared-classes-unseen")
            tr["estOK"] = fitted
            if not fitted:
                tr["F"] = [0] * K
            tr["events"].append(_fit_event(clf, labs))
            if name == "DummyClassifier" or not fitted:
                _exact_events(tr, clf, Xq_same, labs, K, with_freq=False)
            else:
                tr["mode"] = "num"
                tr["kind"] = "freq"     # only the case description is used in num mode
                tr["F"] = [0] * K
                tr["remap"] = how == "fit"
                _row_events(tr, clf, Xq_num, labs, K, with_freq=False)
            traces.append(tr)
    return traces, n_eval


def _case_tag(case):
    return "K%d-d%s-s%s-F%s-p%s-%s-%s" % (
        case["K"], "".join(map(str, case["decl"])), "".join(map(str, case["seen"])),
        "".join(map(str, case["F"])), "".join(map(str, case["prior"])),
        "dflt" if case["dflt"] else "c" + "".join(str(v) for r in case["cm"] for v in r), case["scen"])


# ---------------------------------------------------------------------------
# (T) numeric classifiers on a TLC-chosen training-set scenario
def _scenario_data(case, rng, n_annot):
    K, scen = case["K"], case["scen"]
    seen = [c for c in range(K) if case["seen"][c]]
    cls_ids = []
    for c in seen:
        cls_ids += [c] * int(rng.integers(1, 4))
    cls_ids += [None] * int(rng.integers(1, 3))
    while len(cls_ids) < 5:
        cls_ids.append(None)
    if scen == "dups" and rng.random() < 0.5:
        cls_ids = cls_ids + cls_ids          # every point twice
        X = _features(cls_ids[:len(cls_ids) // 2], rng, False)
        X = np.vstack([X, X])
    else:
        X = _features(cls_ids, rng, scen == "dups")
    order = rng.permutation(len(cls_ids))
    cls_ids = [cls_ids[i] for i in order]
    X = X[order]
    n = len(cls_ids)
    if n_annot == 1:
        Y = list(cls_ids)
    else:
        Y = []
        for c in cls_ids:
            row = [c]
            for _ in range(n_annot - 1):
                u = rng.random()
                row.append(None if c is None or u < 0.25 else (c if u < 0.8 else seen[int(rng.integers(len(seen)))]))
            Y.append(row)
    W = None
    if scen == "weights":
        W = rng.choice([0.0, 1.0, 5.0], size=(n, n_annot) if n_annot > 1 else (n,), p=[0.25, 0.5, 0.25])
        lab = np.array([[v is not None for v in (r if n_annot > 1 else [r])] for r in Y]).reshape(W.shape)
        if lab.any() and not (W[lab] > 0).any():
            W[tuple(np.argwhere(lab)[0])] = 1.0
    return X, Y, W


def _seen_of(K, Y):
    flat = [v for r in Y for v in (r if isinstance(r, list) else [r])]
    return [1 if c in flat else 0 for c in range(K)]


def _scenario_case(case, rng, seed, enc):
    from sklearn.mixture import BayesianGaussianMixture
    from skactiveml.classifier import (MixtureModelClassifier, ParzenWindowClassifier,
                                       SlidingWindowClassifier)
    from skactiveml.classifier.multiannotator import (AnnotatorEnsembleClassifier,
                                                      AnnotatorLogisticRegression)

    K = case["K"]
    labs = _labels(enc, K)
    miss = ENCODINGS[enc]["missing"]
    declared = _declared(enc, case["decl"])
    cm = _cost_arg(case)
    p0 = case["prior"][0]
    case = dict(case)
    case["prior"] = [p0] * K          # scalar prior for the numeric classifiers
    case["F"] = [0] * K
    traces, n_eval = [], 0
    X, Y, W = _scenario_data(case, rng, 1)
    Xq = np.vstack([X[:4], rng.normal(size=(2, X.shape[1])).round(3)])
    if rng.random() < 0.25:
        # integer feature matrices (validated with dtype=None by the wrappers): the dtype of X must not leak into
        # probabilities or frequencies
        X, Xq = np.round(2 * X).astype(int), np.round(2 * Xq).astype(int)
    y = _y_array(enc, Y)
    empty = not any(case["seen"]) and rng.random() < 0.4
    y_all = _y_array(enc, [i % K for i in range(len(X))])     # every sample labeled, classes cycling

    def pf(c):
        return c.fit(X, y_all)

    def conc(name, **kw):
        d = {"classifier": name, "classes": declared, "missing_label": repr(miss), "cost_matrix": cm,
             "X": X.tolist(), "y": np.asarray(kw.pop("y", y)).tolist(),
             "sample_weight": None if kw.get("W", W) is None else np.asarray(kw.pop("W", W)).tolist(),
             "X_query": Xq.tolist(), "random_state": seed}
        kw.pop("W", None)
        d.update(kw)
        return d

    def run(name, clf, fit, site, cfgclass, with_freq, seen=None, prefit=None, **flags):
        nonlocal n_eval
        c2 = dict(case)
        if seen is not None:
            c2["seen"] = seen
        c2["lc"] = c2["seen"]
        tr = _base(c2, enc, "%s/%s/%s" % (name, enc, _case_tag(case)), "num", site, cfgclass, **flags)
        if prefit is not None and rng.random() < 0.3:
            # the object has a past: it was fitted before on a completely labeled version of the data (every
            # declared class present) - the outputs after the observed fit must not remember it
            try:
                with warnings.catch_warnings():
                    warnings.simplefilter("ignore")
                    prefit(clf)
                tr["concrete"] = dict(tr.get("concrete") or {}, fitted_before_on="the same X with every sample labeled "
                                                                               "(classes cycling)")
            except Exception:
                pass
        ok, _ = _call(tr, "fit", fit)
        n_eval += 1
        if ok:
            ok, ev = _call(tr, "fit", lambda: _fit_event(clf, labs))
            if ok:
                tr["events"].append(ev)
                _row_events(tr, clf, Xq, labs, K, with_freq)
        traces.append(tr)

    # kernel ParzenWindowClassifier
    for nn in (None, 2):
        clf = ParzenWindowClassifier(n_neighbors=nn, classes=declared, missing_label=miss, cost_matrix=cm,
                                     class_prior=float(p0), random_state=seed)
        if empty:
            run("PWC-rbf-nn%s-empty" % nn, clf,
                lambda: clf.fit(np.zeros((0, X.shape[1])), _y_array(enc, []), None),
                "ParzenWindowClassifier", "kernel,empty-training-set", True, votes=True,
                concrete=conc("ParzenWindowClassifier(n_neighbors=%s, class_prior=%s)" % (nn, p0),
                              X=[], y=[], W=None))
        else:
            run("PWC-rbf-nn%s" % nn, clf, lambda: clf.fit(X, y, W), "ParzenWindowClassifier",
                "kernel", True, votes=True, prefit=pf,
                concrete=conc("ParzenWindowClassifier(n_neighbors=%s, class_prior=%s)" % (nn, p0)))
    # symbolic bandwidth gamma='mean' (resolved from the training data: degenerate training sets - one row,
    # identical rows - must still give valid probabilities)
    for sub in ("all", "one-row", "identical-rows"):
        if sub == "all":
            Xs, Ys, Ws = X, Y, W
        elif sub == "one-row":
            Xs, Ys, Ws = X[:1], Y[:1], (None if W is None else W[:1])
        else:
            Xs, Ys, Ws = np.repeat(X[:1], len(X), axis=0), Y, W
        if len(Xs) == 0:
            continue
        ys = _y_array(enc, Ys)
        clf = ParzenWindowClassifier(metric_dict={"gamma": "mean"}, classes=declared, missing_label=miss,
                                     cost_matrix=cm, class_prior=float(p0), random_state=seed)
        run("PWC-gamma-mean-%s" % sub, clf, lambda clf=clf, Xs=Xs, ys=ys, Ws=Ws: clf.fit(Xs, ys, Ws),
            "ParzenWindowClassifier", "kernel,gamma=mean", True, seen=_seen_of(K, Ys), votes=True,
            concrete=conc("ParzenWindowClassifier(metric_dict={'gamma': 'mean'}, class_prior=%s) on %s" % (p0, sub),
                          X=np.asarray(Xs).tolist(), y=ys, W=Ws))
    # (kernels that can be negative - 'linear', odd polynomials - are no Parzen windows: negative "frequencies")
    for metric, md in (("polynomial", {"degree": 2, "coef0": 1.0}), ("rbf", {"gamma": 2.0}), ("laplacian", None)):
        clf = ParzenWindowClassifier(metric=metric, metric_dict=md, n_neighbors=3, classes=declared, missing_label=miss,
                                     cost_matrix=cm, class_prior=float(p0), random_state=seed)
        run("PWC-%s-nn3" % metric, clf, lambda clf=clf: clf.fit(X, y, W), "ParzenWindowClassifier",
            "kernel,metric=%s" % metric, True, votes=True, prefit=pf,
            concrete=conc("ParzenWindowClassifier(metric=%r, metric_dict=%r, n_neighbors=3, class_prior=%s)"
                          % (metric, md, p0)))
    # MixtureModelClassifier
    for mode in ("responsibilities", "similarities"):
        clf = MixtureModelClassifier(mixture_model=BayesianGaussianMixture(n_components=2, random_state=0),
                                     weight_mode=mode, classes=declared, missing_label=miss, cost_matrix=cm,
                                     class_prior=float(p0), random_state=seed)
        run("MMC-%s" % mode, clf, lambda: clf.fit(X, y, W), "MixtureModelClassifier", mode, True, votes=True,
            prefit=pf,
            concrete=conc("MixtureModelClassifier(BayesianGaussianMixture(2), weight_mode=%r, class_prior=%s)"
                          % (mode, p0)))
    # SlidingWindowClassifier(ParzenWindowClassifier): fit on a prefix, partial_fit the rest
    ws = [None, 3][int(rng.integers(2))]
    h = max(1, len(X) // 2)
    inner = ParzenWindowClassifier(classes=declared, missing_label=miss, cost_matrix=cm,
                                   class_prior=float(p0), random_state=seed)
    swc = SlidingWindowClassifier(inner, classes=declared, missing_label=miss, cost_matrix=cm,
                                  window_size=ws, random_state=seed)

    def fit_swc():
        swc.fit(X[:h], y[:h], None if W is None else W[:h])
        swc.partial_fit(X[h:], y[h:], None if W is None else W[h:])

    window = Y if ws is None else Y[-ws:]
    run("SWC-PWC-ws%s" % ws, swc, fit_swc, "SlidingWindowClassifier", "ParzenWindowClassifier,fit+partial_fit",
        True, seen=_seen_of(K, window), votes=True,
        concrete=conc("SlidingWindowClassifier(ParzenWindowClassifier(class_prior=%s), window_size=%s): "
                      "fit(first %d), partial_fit(rest)" % (p0, ws, h)))
    # multi-annotator classifiers
    X2, Y2, W2 = _scenario_data(case, rng, 2)
    y2 = _y_array(enc, Y2)
    Xq2 = np.vstack([X2[:4], rng.normal(size=(2, X2.shape[1])).round(3)])
    seen2 = _seen_of(K, Y2)
    X_save, Xq_save = X, Xq
    X, Xq = X2, Xq2
    for voting in ("hard", "soft"):
        for est_classes in (None, declared):
            ests = [("a%d" % i, ParzenWindowClassifier(classes=est_classes, missing_label=miss,
                                                       class_prior=float(p0))) for i in range(2)]
            clf = AnnotatorEnsembleClassifier(ests, voting=voting, classes=declared, missing_label=miss,
                                              cost_matrix=cm, random_state=seed)
            run("AEC-%s-estclasses%s" % (voting, "None" if est_classes is None else "declared"), clf,
                lambda: clf.fit(X2, y2, W2), "AnnotatorEnsembleClassifier",
                "%s,member-classes=%s,labels=%s" % (voting, "None" if est_classes is None else "declared",
                                                   "indices" if enc == "idx" else "general"),
                False, seen=seen2, hard=(voting == "hard"),
                concrete=conc("AnnotatorEnsembleClassifier([PWC,PWC], voting=%r), member classes=%r"
                              % (voting, est_classes), y=y2, W=W2))
    clf = AnnotatorLogisticRegression(classes=declared, missing_label=miss, cost_matrix=cm, random_state=seed)
    full = bool(np.array([[v is not None for v in r] for r in Y2]).any(axis=1).all())
    y2_all = _y_array(enc, [[(i + a_) % K for a_ in range(len(Y2[0]))] for i in range(len(X2))]) if len(Y2) else None
    run("ALR", clf, lambda: clf.fit(X2, y2, W2), "AnnotatorLogisticRegression",
        "weights=%s,all-samples-labeled=%s" % ("given" if W2 is not None else "None", full), False,
        seen=seen2, prefit=(lambda c: c.fit(X2, y2_all)) if y2_all is not None else None, concrete=conc("AnnotatorLogisticRegression()", y=y2, W=W2))
    # parameter sweep: documented non-default values of the remaining constructor parameters
    clf = AnnotatorLogisticRegression(classes=declared, missing_label=miss, cost_matrix=cm, random_state=seed,
                                      fit_intercept=False, annot_prior_full=2, annot_prior_diag=1, weights_prior=0.5,
                                      tol=1e-3, max_iter=20)
    run("ALR-params", clf, lambda clf=clf: clf.fit(X2, y2, W2), "AnnotatorLogisticRegression",
        "no-intercept,priors", False, seen=seen2,
        prefit=(lambda c: c.fit(X2, y2_all)) if y2_all is not None else None,
        concrete=conc("AnnotatorLogisticRegression(fit_intercept=False, annot_prior_full=2, annot_prior_diag=1, "
                      "weights_prior=0.5, tol=1e-3, max_iter=20)", y=y2, W=W2))
    if empty:
        clf = AnnotatorLogisticRegression(n_annotators=2, classes=declared, missing_label=miss, cost_matrix=cm,
                                          random_state=seed)
        run("ALR-empty", clf, lambda: clf.fit(np.zeros((0, X2.shape[1])), _y_array(enc, [], shape=(0, 2)), None),
            "AnnotatorLogisticRegression", "empty-training-set", False,
            concrete=conc("AnnotatorLogisticRegression(n_annotators=2)", X=[], y=[], W=None))
    X, Xq = X_save, Xq_save
    return traces, n_eval


# ---------------------------------------------------------------------------
def _work(arg):
    what, case, cseed, seed, encs = arg
    rng = np.random.default_rng(cseed)
    if what == "scenario":
        return _scenario_case(case, rng, seed, encs)
    if case["kind"] == "freq":
        return _freq_case(case, rng, seed, encs)
    return _wrap_case(case, rng, seed, encs)


_METHOD_OF = {"classes": "fit", "cost": "fit", "proba": "predict_proba", "freq": "predict_freq",
              "uniform": "predict_proba", "predict": "predict", "phase": "protocol", "mode": "protocol"}


def _key_of(t, r):
    ev = r["offending_event"] or {}
    if ev.get("ev") == "Raised":
        return "%s.%s|%s|raised %s" % (t["site"], ev.get("where"), t["cfgclass"], ev.get("exc"))
    if ev.get("ev") == "Malformed":
        return "%s|%s|malformed %s" % (t["site"], t["cfgclass"], ev.get("what"))
    clauses = r["failed_clauses"]
    first = clauses[0] if clauses else "unmatched-" + str(ev.get("ev", "end"))
    meth = _METHOD_OF.get(first.split("-")[0], "?")
    return "%s.%s|%s|%s" % (t["site"], meth, t["cfgclass"], ",".join(clauses) or first)


def _describe(t):
    return t.get("concrete", {})


def main(tier="quick", seed=0):
    chk = Check("C11", tier, seed)
    import_repo()
    quick = tier == "quick"
    rng = np.random.default_rng(seed)

    # (M) runs in the background while the cases are replayed
    mc = {}

    def run_mc():
        try:
            mc["res"] = [_tlc.model_check("MC_Classify", "MC_Classify.cfg", workers=8)]
            if not quick:   # full cost-value range for K = 3 (with frequencies over {0,1})
                mc["res"].append(_tlc.model_check("MC_Classify", "MC_Classify_thorough.cfg", workers=12))
        except BaseException as ex:  # noqa: BLE001 - re-raised in the main thread
            mc["err"] = ex

    th = threading.Thread(target=run_mc)
    th.start()

    # (G) cases from TLC; the residue classes depend on the seed
    env = {"GEN_CM_MOD": 40 if quick else 12, "GEN_CM_REM": seed, "GEN_MOD": 48 if quick else 16,
           "GEN_WRAP_MOD": 14 if quick else 10, "GEN_REM": 7 * seed + 1}
    cases = chk.generate("MC_Classify", "Classify_gen.cfg" if quick else "Classify_gen_thorough.cfg", env=env)
    if not cases:
        raise _tlc.MachineryError("the generator produced no case")
    encs = ["int", "float", "str"]
    seeds = rng.integers(0, 2 ** 31, size=len(cases)).tolist()
    items = [("exact", c, s, seed, encs) for c, s in zip(cases, seeds)]
    # scenarios for the numeric classifiers: distinct projections of the cases
    scen = {}
    for c in cases:
        key = (c["K"], tuple(c["decl"]), c["dflt"], repr(c["cm"]), tuple(c["seen"]), c["scen"], c["prior"][0])
        scen.setdefault(key, c)
    keys = sorted(scen)
    pick = rng.permutation(len(keys))[: (160 if quick else 1500)]
    all_enc = ["int", "float", "str", "idx"]
    for n, i in enumerate(pick):
        items.append(("scenario", scen[keys[i]], int(rng.integers(0, 2 ** 31)), seed, all_enc[n % 4]))
    out = pmap(_work, items)
    traces = []
    for tr, n in out:
        traces.extend(tr)
        chk.count(n)
    for t in traces:
        if t["K"] >= 2:
            chk.case((t["site"], t["cfgclass"], t["K"], tuple(t["decl"]), tuple(t["seen"]), tuple(t["F"]),
                      tuple(t["prior"]), t["dflt"], repr(t["cm"]), t["mode"]))
    exact = [t for t in traces if t["mode"] == "exact"]
    num = [t for t in traces if t["mode"] == "num"]
    chk.sample({"exact_trace": {k: v for k, v in exact[len(exact) // 2].items()}})
    chk.sample({"numeric_trace": {k: v for k, v in num[len(num) // 2].items()}})
    chk.validate("ClassifyTrace", traces, describe=_describe, key_of=_key_of)

    th.join()
    if "err" in mc:
        raise mc["err"]
    for res, cfg in zip(mc["res"], ["MC_Classify.cfg", "MC_Classify_thorough.cfg"]):
        chk.states += res.distinct
        chk.transitions += res.generated
        chk.mc_runs.append({"module": "MC_Classify", "cfg": cfg, "distinct_states": res.distinct,
                            "states_generated": res.generated, "depth": res.depth, "wall_s": round(res.wall, 2)})
    chk.extra["traces_exact"] = len(exact)
    chk.extra["traces_numeric"] = len(num)
    chk.extra["cases_from_tlc"] = len(cases)
    chk.rule = ("cases = initial states of Classify enumerated by TLC (K<=3, declared order, seen classes, "
                "frequency row, prior, cost matrix, scenario) restricted to a seed-dependent residue class; each "
                "replayed under 3 label encodings into PWC(precomputed) or SklearnClassifier(Dummy/GaussianNB/"
                "LogisticRegression, fit/partial_fit); distinct scenario projections drive the numeric "
                "classifiers; an evaluation = one fitted classifier with its predict_proba/predict_freq/predict "
                "calls; non-trivial = K>=2; distinct by (classifier, configuration class, abstract case)")
    chk.assumptions = [
        "TLC evaluates the modules correctly",
        "exact regime: integer kernel rows and weights in {0,1,5} make predict_freq exact; probabilities with "
        "denominators <= 1000 are recovered from floats by limit_denominator with a 1e-12 consistency check",
        "an exact-arithmetic strict cost difference (>= 1/1000) cannot be reversed by float rounding, exact ties "
        "may be broken either way (the specification allows every minimiser)",
        "numeric classifiers: expected-cost ranks are computed from the classifier's own predict_proba and "
        "cost_matrix_ with values closer than 1e-9 sharing a rank; row sums are checked within K units of 2^-16",
        "training sets whose labeled samples all have weight zero are not generated for wrapped scikit-learn "
        "estimators (not an admissible input of those estimators)",
        "the mixture model is given at least 5 samples and 2 components (scikit-learn requires n_samples >= "
        "n_components)",
        "UniformNoLabels is required for a constant class prior and for classifiers that estimate "
        "probabilities themselves (not for hard voting)",
    ]
    return chk.finish()
