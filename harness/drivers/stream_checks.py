"""C03 / C04 / C10 - the stream side (budget managers and stream strategies).

(M)  MC_Budget: TLC explores every chunking of every adversarial utility
     stream for each manager kind (one action per loop iteration).
(G)  BudgetGen: TLC enumerates stream scenarios (utilities x cuts x repeated
     queries); each is replayed on the real managers / baseline strategies in
     the exact dyadic regime.
(T)  BudgetTrace validates every recorded history step by step against the
     folds of Budget.tla (exact state equality); StreamProto validates long
     histories of *all* stream strategies and managers with the committed
     state abstracted to a digest (purity, twin runs, counting bound,
     acceptance of query results by update).
The three properties own different clauses of the two trace specifications.
"""

import os
from fractions import Fraction

import numpy as np

from .. import tlc
from ..core import Check, import_repo, pmap
from . import budget_common as bc
from . import density_common as dc
from . import stream_common as sc

OWN = {
    "C03": {"query-leaves-state-unchanged", "repeated-query-same-result",
            "same-result-as-run-without-extra-queries", "same-state-as-run-without-extra-queries",
            "query-leaves-window-unchanged", "query-leaves-manager-unchanged"},
    "C04": {"no-overspend-at-every-prefix", "result-equals-simulation"},
    "C10": {"indices-strictly-increasing-in-range", "utilities-one-per-candidate", "result-equals-simulation",
            "returned-utilities-explain-the-decision", "same-decisions-as-one-instance-at-a-time",
            "state-after-update-equals-per-instance-commit", "window-after-update",
            "manager-after-update-equals-per-instance-commit", "unmatched",
            "manager-commits-the-passing-candidates", "update-must-not-raise",
            "manager-commits-the-passing-candidates[filtered-candidate-before-a-queried-one]",
            "update-must-not-raise[filtered-candidate-before-a-queried-one]"},
}
INVARIANTS = {
    "C03": (["IndicesOK", "QueryPureInv"], []),
    "C04": (["NoOverspend", "UBound"], []),
    "C10": (["SimEqualsCommit", "ChunkInvariant", "IndicesOK"], []),
}


def mc_cfg(kind, W, B, depth, maxchunk, rndlen, invs, props, allow=False, stale=False):
    lines = ["SPECIFICATION Spec", "CONSTANTS", '  Kind = "%s"' % kind, "  W = %d" % W, "  BNum = %d" % B[0],
             "  BDen = %d" % B[1], "  Stale = %s" % ("TRUE" if stale else "FALSE"),
             "  Allow = %s" % ("TRUE" if allow else "FALSE"), "  Depth = %d" % depth,
             "  MaxChunk = %d" % maxchunk, "  RndLen = %d" % rndlen]
    lines += ["INVARIANT %s" % i for i in invs]
    lines += ["PROPERTY %s" % p for p in props]
    lines.append("CHECK_DEADLOCK FALSE")
    return "\n".join(lines) + "\n"


def mc_plan(pid, quick):
    """(kind, W, B, depth, maxchunk, rndlen, allow) tuples"""
    plan = []
    grid = [(2, (1, 2)), (4, (1, 4))] if quick else [(2, (1, 2)), (2, (1, 4)), (4, (1, 4)), (4, (1, 2)), (2, (1, 1)),
                                                      (8, (1, 8))]
    d = 0 if quick else 1
    for W, B in grid:
        plan.append(("Fixed", W, B, 6 + d, 3, 1, False))
        plan.append(("Variable", W, B, 5 + d, 3, 1, False))
        plan.append(("RandomVariable", W, B, 4 + d, 3, 1, False))
        plan.append(("Random", W, B, 4 + d, 3, 4 + d, False))
        if not quick or W == 2:
            plan.append(("Split", W, B, 3, 2 if quick else 3, 6, False))
        if pid != "C04":
            plan.append(("BIQF", W, B, 4 + d, 2, 1, False))
    for B in ([(1, 4), (3, 8)] if quick else [(1, 4), (1, 2), (3, 4), (1, 1), (3, 8), (5, 8)]):
        plan.append(("DensitySplit", 2, B, 5 + d, 3, 1, False))
        plan.append(("Periodic", 2, B, 10, 3, 1, False))
        plan.append(("StreamRandom", 2, B, 6, 3, 6, False))
        if pid != "C04":
            plan.append(("StreamRandom", 2, B, 6, 3, 6, True))
    return plan


def run_mc(chk, pid, quick):
    invs, props = INVARIANTS[pid]
    from concurrent.futures import ThreadPoolExecutor

    with tlc.Scratch() as scratch:
        def one(item):
            k, (kind, W, B, depth, maxchunk, rndlen, allow) = item
            cfg = os.path.join(scratch, "mc-%d.cfg" % k)
            with open(cfg, "w") as f:
                f.write(mc_cfg(kind, W, B, depth, maxchunk, rndlen, invs, props, allow=allow))
            sub = os.path.join(scratch, "run-%d" % k)
            os.makedirs(sub)
            res = tlc.run_tlc("MC_Budget", cfg, workers=2, timeout=1800 if quick else 7200, scratch=sub, heap="3g")
            return item, res

        with ThreadPoolExecutor(max_workers=8) as ex:
            results = list(ex.map(one, enumerate(mc_plan(pid, quick))))
        for (k, (kind, W, B, depth, maxchunk, rndlen, allow)), res in results:
            if not res.ok or res.distinct == 0:
                raise tlc.MachineryError("model checking MC_Budget (%s) failed:\n%s" % (kind, res.tail(60)))
            chk.states += res.distinct
            chk.transitions += res.generated
            chk.mc_runs.append({"module": "MC_Budget", "cfg": "generated: Kind=%s W=%d B=%d/%d Depth=%d MaxChunk=%d "
                                "Allow=%s invariants=%s" % (kind, W, B[0], B[1], depth, maxchunk, allow,
                                                            ",".join(invs + props)),
                                "distinct_states": res.distinct, "states_generated": res.generated,
                                "depth": res.depth, "wall_s": round(res.wall, 2)})
        # the code-shaped deviation must be caught by the same invariants (vacuity guard)
        if pid == "C10":
            cfg = os.path.join(scratch, "mc-stale.cfg")
            with open(cfg, "w") as f:
                f.write(mc_cfg("Variable", 2, (1, 2), 5, 3, 1, invs, props, stale=True))
            res = tlc.run_tlc("MC_Budget", cfg, timeout=600)
            if not any("SimEqualsCommit" in e or "ChunkInvariant" in e for e in res.errors):
                raise tlc.MachineryError("the Stale deviation of Budget.tla is not caught by the C10 invariants")
            chk.notes.append("deviation switch Stale=TRUE violates %s (expected)" % res.errors[:1])


def run_apalache(chk, quick):
    """C04 for unbounded n: discharge the inductive obligations of
    spec/BudgetInd.tla.template with Apalache for a grid of (w, budget)."""
    import shutil
    import subprocess
    from concurrent.futures import ThreadPoolExecutor

    grid = [(4, 1, 4)] if quick else [(w, bn, bd) for w in (2, 4, 8, 100)
                                                 for bn, bd in ((1, 10), (1, 4), (1, 2), (1, 1))]
    tpl = open(os.path.join(tlc.SPEC_DIR, "BudgetInd.tla.template")).read()
    jobs = [(w, bn, bd, False) for w, bn, bd in grid] + [(grid[0][0], grid[0][1], grid[0][2], True)]
    with tlc.Scratch() as scratch:
        def one(job):
            w, bn, bd, leq = job
            d = os.path.join(scratch, "apa-%d-%d-%d-%s" % (w, bn, bd, leq))
            os.makedirs(d)
            text = (tpl.replace("@W@", str(w)).replace("@BN@", str(bn)).replace("@BD@", str(bd))
                    .replace("@LEQ@", "TRUE" if leq else "FALSE"))
            with open(os.path.join(d, "BudgetInd.tla"), "w") as f:
                f.write(text)
            out = []
            env = dict(os.environ, JAVA_TOOL_OPTIONS="-Djava.io.tmpdir=%s" % d, TMPDIR=d)
            for init, inv, length in (("Init", "IndInv", "0"), ("IndInit", "Both", "1")):
                p = subprocess.run(["apalache-mc", "check", "--init=" + init, "--inv=" + inv, "--length=" + length,
                                    "--out-dir=" + os.path.join(d, "out"), "BudgetInd.tla"], cwd=d, env=env,
                                   stdout=subprocess.PIPE, stderr=subprocess.STDOUT, text=True, timeout=900)
                out.append("EXITCODE: OK" in p.stdout)
                if not out[-1] and "violat" not in p.stdout.lower() and "EXITCODE: ERROR (12)" not in p.stdout:
                    out[-1] = None  # apalache itself failed
                    out.append(p.stdout[-600:])
                    break
            shutil.rmtree(d, ignore_errors=True)
            return job, out

        with ThreadPoolExecutor(max_workers=6) as ex:
            results = list(ex.map(one, jobs))
    obligations = discharged = 0
    for (w, bn, bd, leq), out in results:
        if None in out:
            raise tlc.MachineryError("apalache failed on BudgetInd W=%d B=%d/%d: %s" % (w, bn, bd, out[-1]))
        if leq:
            if all(out):
                raise tlc.MachineryError("BudgetInd without the budget guard still satisfies the inductive step "
                                         "(the obligation is vacuous)")
            chk.notes.append("BudgetInd without the budget guard is rejected by Apalache (expected)")
            continue
        obligations += 2
        discharged += sum(1 for o in out if o)
        if not all(out):
            raise tlc.MachineryError("inductive invariant of BudgetInd not discharged for W=%d B=%d/%d" % (w, bn, bd))
    chk.extra["apalache_inductive_obligations"] = obligations
    chk.extra["apalache_discharged"] = discharged
    chk.extra["apalache_grid"] = ["w=%d budget=%d/%d" % g for g in grid]


# --------------------------------------------------------------------------
def _exact_job(arg):
    kind, prm, stream, cuts, twice, seed = arg[:6]
    thin = len(arg) > 6 and arg[6]
    return bc.record(kind, prm, stream, cuts, twice, seed, thin=thin)


def exact_jobs(chk, pid, quick, rng, cases):
    """scenarios x kinds x parameter grid for the exact regime"""
    jobs = []
    # budgets whose reciprocal is not an integer (3/4, 3/8, 5/8) are part of the grid: a manager that
    # rounds 1/budget is only exposed by them
    grid = [(2, (1, 2)), (4, (1, 4)), (2, (1, 4)), (2, (1, 1)), (2, (3, 4)), (4, (3, 8))] if quick else \
        [(2, (1, 2)), (4, (1, 4)), (2, (1, 4)), (2, (1, 1)), (4, (1, 2)), (8, (1, 8)), (8, (1, 2)), (2, (1, 8)),
         (2, (3, 4)), (4, (3, 8)), (2, (5, 8)), (4, (3, 4))]
    kinds = bc.KINDS
    per_kind = 250 if quick else 4000
    for kind in kinds:
        pool = [c for c in cases if not (kind == "BIQF" and -1 in c["stream"])]
        idx = rng.choice(len(pool), size=min(per_kind, len(pool)), replace=False)
        for n_, i in enumerate(idx):
            c = pool[int(i)]
            W, B = grid[n_ % len(grid)]
            prm = bc.default_params(kind, W, B, allow=(kind == "StreamRandom" and n_ % 3 == 0 and pid != "C04"))
            jobs.append((kind, prm, c["stream"], c["cuts"], bool(c["twice"]) or pid == "C03", int(n_ % 7),
                         kind in bc.THIN and n_ % 3 == 0))
        # longer random streams with every chunking pattern family
        for n_ in range(60 if quick else 1500):
            W, B = grid[int(rng.integers(len(grid)))]
            L = int(rng.integers(3, bc.max_len(kind, W) + 1))
            vals = [0, 4, 8, 12, 16] if kind == "BIQF" else [0, 4, 8, 12, 16, 16, 16, -1]
            mode = n_ % 4
            if mode == 0:
                stream = [16] * L                        # maximal utility throughout
            elif mode == 1:
                stream = [int(v) for v in rng.choice([0, 16], size=L)]
            else:
                stream = [int(v) for v in rng.choice(vals, size=L)]
            cuts = [c for c in range(1, L) if rng.random() < (0.0, 0.3, 0.6, 1.0)[n_ % 4]]
            prm = bc.default_params(kind, W, B, allow=False)
            jobs.append((kind, prm, stream, cuts, pid == "C03" or n_ % 5 == 0, int(rng.integers(0, 50)),
                         kind in bc.THIN and n_ % 3 == 1))
        # a burst of requests that exhausts the budget, then ONE long chunk with a request at its start and none
        # after it: the estimate at the end of that chunk is far below the limit although the request arrives
        # while nothing is left (a decision taken for the chunk as a whole differs from the per-instance one)
        n_ = 0
        for W, B in grid:
            L = bc.max_len(kind, W)
            for k in (1, 2, 3, 4):
                for req in (1, 2):
                    n_ += 1
                    stream = [16] * k + [16] * req + [0] * (L - k - req)
                    prm = bc.default_params(kind, W, B, allow=False)
                    jobs.append((kind, prm, stream, [k], pid == "C03" or n_ % 5 == 0, int(rng.integers(0, 50)),
                                 kind in bc.THIN and n_ % 3 == 1))
    return jobs


def chunkings_jobs(rng, quick):
    """C10: the same stream under every composition into chunks"""
    jobs = []
    for kind in ("Fixed", "Variable", "Split", "Random", "BIQF", "Periodic", "StreamRandom", "RandomVariable",
                 "DensitySplit"):
        for rep in range(2 if quick else 12):
            W, B = [(2, (1, 2)), (4, (1, 4)), (2, (1, 4))][rep % 3]
            L = 5 if quick else 7
            vals = [0, 4, 8, 12, 16] if kind == "BIQF" else [0, 8, 16, 16, -1]
            stream = [int(v) for v in rng.choice(vals, size=L)]
            seed = int(rng.integers(0, 50))
            for mask in range(2 ** (L - 1)):
                cuts = [i + 1 for i in range(L - 1) if mask >> i & 1]
                jobs.append((kind, bc.default_params(kind, W, B), stream, cuts, False, seed,
                             kind in bc.THIN and rep % 2 == 1))
    return jobs


# --------------------------------------------------------------------------
def _density_job(arg):
    return dc.record(*arg)


def density_jobs(pid, quick, rng):
    jobs = []
    for kind in dc.KINDS:
        for n_ in range(60 if quick else 1500):
            W, B = [(2, (1, 2)), (4, (1, 4)), (2, (1, 1)), (2, (1, 4))][n_ % 4]
            L = int(rng.integers(1, 10))
            xs = [int(x) for x in rng.integers(0, 5, size=L)]
            vs = [int(v) for v in rng.choice([0, 4, 8, 12, 16], size=L)]
            cuts = [c for c in range(1, L) if rng.random() < (0.0, 0.3, 0.6, 1.0)[n_ % 4]]
            jobs.append((kind, bc.default_params(kind, W, B), int(rng.integers(1, 5)), xs, vs, cuts,
                         pid == "C03" or n_ % 3 == 0, int(rng.integers(0, 50))))
    return jobs


def _cognitive_job(arg):
    return dc.record_cognitive(*arg)


def cognitive_jobs(pid, quick, rng):
    jobs = []
    for kind in ("Fixed", "Variable", "RandomVariable", "Random"):
        for n_ in range(90 if quick else 2200):
            W, B = [(2, (1, 2)), (4, (1, 4)), (2, (1, 1)), (2, (1, 4))][(n_ // 2) % 4]
            L = int(rng.integers(1, 11))
            xs = [int(x) for x in rng.integers(0, 5, size=L)]
            vs = [int(v) for v in rng.choice([0, 4, 8, 12, 16], size=L)]
            cuts = [c for c in range(1, L) if rng.random() < (0.0, 0.3, 0.6, 1.0)[n_ % 4]]
            # force_full_budget: TRUE / FALSE (the default) alternate
            jobs.append((kind, bc.default_params(kind, W, B), int(rng.integers(1, 4)), int(rng.integers(0, 3)), xs, vs,
                         cuts, pid == "C03" or n_ % 3 == 0, int(rng.integers(0, 50)), n_ % 2 == 0))
    return jobs


def _proto_job(arg):
    name, is_manager, budget, w, seed, n, chunk_mode, dseed = arg
    rng = np.random.RandomState(dseed)
    d = 1 + dseed % 3          # 1-3 features (code that counts array elements instead of instances shows with d > 1)
    if chunk_mode < 0:
        # C04: an object re-configured with set_params(budget=...) after n instances (chunk_mode = -chunk size);
        # the new budget is budget / 8
        if is_manager:
            fac = sc.manager_factories()[name]
            make_obj = lambda: fac(budget, w, seed)
        else:
            fac, _ = sc.strategy_factories()[name]
            make_obj = lambda: fac(budget, seed)
        return (sc.record_reconfigured(make_obj, is_manager, name, budget, budget / 8.0, n, 3 * n, -chunk_mode, d,
                                       seed, "b%.3f-w%d-seed%d-n%d-c%d" % (budget, w, seed, n, -chunk_mode)),)
    clf, X, y = sc.make_clf(seed, d)
    if is_manager:
        fac = sc.manager_factories()[name]
        make_obj = lambda: fac(budget, w, seed)
    else:
        fac, takes_mgr = sc.strategy_factories()[name]
        mgr_name = None
        if takes_mgr and rng.rand() < 0.4:
            names = sorted(sc.manager_factories())
            if name != "StreamProbabilisticAL":
                names = [m for m in names]
            mgr_name = names[rng.randint(len(names))]
        if mgr_name:
            mfac = sc.manager_factories()[mgr_name]
            make_obj = lambda: fac(None, seed, manager=mfac(budget, w, seed + 1))
            name = "%s+%s" % (name, mgr_name)
        else:
            make_obj = lambda: fac(budget, seed)
    # the stream: 1-D integer features (duplicates matter for the density windows)
    Xs = rng.randint(0, 8, size=(n, d)).astype(float)
    pat = rng.randint(4)
    if chunk_mode >= 100 or pat == 0:      # (chunk_mode 100 + k: greedy stream in chunks of k instances)
        us = np.ones(n)
    elif pat == 1:
        us = rng.choice([0.0, 1.0, np.nan], size=n, p=[0.3, 0.6, 0.1])
    else:
        us = rng.rand(n)
    sizes = []
    left = n
    while left > 0:
        if chunk_mode >= 100:
            k = chunk_mode - 100
        elif chunk_mode == 0:
            k = 1
        elif chunk_mode == 1:
            k = int(rng.randint(1, 5))
        elif chunk_mode == 2:
            k = int(rng.randint(1, 40))
        else:
            k = int(rng.randint(20, 90))
        k = min(k, left)
        sizes.append(k)
        left -= k
    edges = np.cumsum([0] + sizes)
    chunks = [Xs[a:b] for a, b in zip(edges[:-1], edges[1:])]
    uchunks = [us[a:b] for a, b in zip(edges[:-1], edges[1:])]
    extra = [[("same", "other")[rng.randint(2)] for _ in range(rng.randint(0, 3))] for _ in chunks]
    other = (rng.randint(0, 8, size=(3, d)).astype(float), rng.rand(3))
    prologue = bool(dseed % 3 == 0)       # one third of the histories start with an update
    concrete = {"object": name, "is_manager": is_manager, "budget": budget, "w": w, "seed": seed, "n": n,
                "chunk_sizes": sizes, "data_seed": dseed, "starts_with_update": prologue, "n_features": d}
    base = name.split("+")[0]
    return sc.record_pair(make_obj, is_manager, base if not is_manager else name, budget, chunks, uchunks, clf,
                          extra, other, "b%.3f-w%d-seed%d-n%d-c%d-d%d%s" % (budget, w, seed, n, chunk_mode, dseed,
                                                                         "-u1st" if prologue else ""),
                          concrete, prologue=prologue)


def proto_jobs(pid, quick, rng):
    jobs = []
    reps = 8 if quick else 40
    for name in sorted(sc.manager_factories()):
        for r in range(reps):
            budget = float(rng.choice([0.05, 0.1, 0.25, 0.5, 1.0, 0.3, 0.15, 0.07, 0.6, 0.9, rng.uniform(0.02, 1.0)]))
            w = int(rng.choice([1, 2, 5, 20, 100]))
            n = int(rng.choice([60, 200] if quick else [200, 600, 1500]))
            jobs.append((name, True, budget, w, int(rng.integers(0, 100)), n, r % 4, int(rng.integers(0, 10 ** 6))))
    for name in sorted(sc.strategy_factories()):
        for r in range(reps):
            budget = float(rng.choice([0.05, 0.1, 0.25, 0.5, 1.0, 0.3, 0.15, 0.07, 0.6, 0.9, rng.uniform(0.02, 1.0)]))
            w = int(rng.choice([2, 5, 20, 100]))
            n = int(rng.choice([60, 160] if quick else [160, 400]))
            jobs.append((name, False, budget, w, int(rng.integers(0, 100)), n, r % 4, int(rng.integers(0, 10 ** 6))))
    if pid == "C04":
        # greedy streams in chunks about as long as the window: the regime in which an estimate that is committed
        # too low lets the number of granted labels cross the counting bound within a few windows
        big = [(32, 0.125, 64, 140), (50, 0.125, 50, 120), (64, 0.125, 64, 140), (32, 0.25, 32, 200),
               (100, 0.125, 100, 220), (20, 0.25, 40, 140)]
        if not quick:
            big += [(64, 0.25, 64, 260), (100, 0.25, 100, 420), (50, 0.5, 50, 620), (64, 0.0625, 64, 150),
                    (32, 0.5, 64, 420), (50, 0.25, 25, 460)]
        for name in ("FixedUncertaintyBudgetManager", "VariableUncertaintyBudgetManager",
                     "RandomVariableUncertaintyBudgetManager", "RandomBudgetManager", "SplitBudgetManager"):
            for w, b, k, n in big:
                jobs.append((name, True, b, w, int(rng.integers(0, 100)), n, 100 + k, int(rng.integers(0, 10 ** 6))))
        # objects that are re-configured while in use: set_params(budget=budget / 8) after the first part of a
        # greedy stream (a budget resolved once and never again keeps granting at the old rate)
        for name, is_mgr in (("FixedUncertaintyBudgetManager", True), ("VariableUncertaintyBudgetManager", True),
                             ("RandomVariableUncertaintyBudgetManager", True), ("RandomBudgetManager", True),
                             ("SplitBudgetManager", True), ("DensityBasedSplitBudgetManager", True),
                             ("StreamRandomSampling", False), ("PeriodicSampling", False)):
            for b, w, k, n in ([(0.5, 16, 7, 120)] if quick else [(0.5, 16, 7, 120), (0.8, 100, 1, 300),
                                                                  (0.25, 8, 20, 200)]):
                jobs.append((name, is_mgr, b, w, int(rng.integers(0, 100)), n, -k, int(rng.integers(0, 10 ** 6))))
        # long greedy streams for the managers / baselines that count labels without a window: the counters pass
        # 255 / 256 granted labels (a narrow counter wraps there and the manager forgets what it has spent)
        for name, is_mgr in (("DensityBasedSplitBudgetManager", True), ("StreamRandomSampling", False),
                             ("PeriodicSampling", False)):
            for b, k, n in ([(0.5, 64, 640)] if quick else [(0.5, 64, 640), (0.25, 50, 1200), (0.9, 7, 400),
                                                            (0.5, 1, 640)]):
                jobs.append((name, is_mgr, b, 2, int(rng.integers(0, 100)), n, 100 + k, int(rng.integers(0, 10 ** 6))))
    return jobs


# --------------------------------------------------------------------------
def main_for(pid, tier="quick", seed=0):
    chk = Check(pid, tier, seed)
    import_repo()
    quick = tier == "quick"
    rng = np.random.default_rng(seed + {"C03": 3, "C04": 4, "C10": 10}[pid])
    own = OWN[pid]
    chk.rule = ("exact regime: stream scenarios enumerated by TLC (BudgetGen: all utility streams over "
                "{0,1/4,1/2,3/4,1,NaN} up to length 4 x all cuts x repeated queries) plus longer adversarial streams, "
                "each replayed on every manager kind / baseline strategy and (one third) on the uncertainty stream strategy "
                "around that manager with a stub classifier, over a (w, budget) grid; protocol regime: "
                "all stream strategies (default and explicit managers) and managers on long random streams with "
                "random chunkings and inserted extra queries. distinct = (kind, parameters, stream, cuts); "
                "non-trivial = at least 2 instances and at least one granted label or one budget refusal")
    run_mc(chk, pid, quick)
    if pid == "C04":
        run_apalache(chk, quick)
    cases = chk.generate("BudgetGen", "BudgetGen.cfg" if quick else "BudgetGen5.cfg")
    jobs = exact_jobs(chk, pid, quick, rng, cases)
    if pid == "C10":
        jobs += chunkings_jobs(rng, quick)
    traces = pmap(_exact_job, jobs)
    chk.count(len(traces))
    for tr in traces:
        evs = tr["events"]
        if len(tr["concrete"]["utilities_in_sixteenths"]) >= 2 and any(e.get("res") or e.get("q") for e in evs):
            chk.case((tr["P"]["kind"], tr["P"]["W"], tuple(tr["P"]["B"]), tuple(tr["concrete"]["utilities_in_sixteenths"]),
                      tuple(tr["concrete"]["cuts"]), tr["concrete"]["twice"]))
    chk.sample({"exact_trace": {k: traces[7][k] for k in ("id", "P", "events")}})

    def keep(rej_key_clauses):
        return bool(set(rej_key_clauses) & own) or (not rej_key_clauses and "unmatched" in own)

    def validate(module, trs, key_of, describe):
        rej, st = tlc.validate_traces(module, trs)
        chk.states += st["distinct"]
        chk.transitions += st["generated"]
        mine = [r for r in rej if keep(r["failed_clauses"])]
        chk.traces += st["validated"] - len(rej)
        chk.mc_runs.append({"module": module, "traces": st["validated"], "rejected_total": len(rej),
                            "rejected_owned_by_%s" % pid: len(mine), "distinct_states": st["distinct"],
                            "wall_s": round(st["wall"], 2)})
        for r in mine:
            tr = trs[r["index"]]
            what = "%s: rejected at event %d (%s): %s" % (
                tr["id"], r["matched_events"] + 1, (r["offending_event"] or {}).get("ev", "end"),
                ", ".join(r["failed_clauses"]) or "no action of the specification matches this event "
                + str((r["offending_event"] or {}).get("exc", "")))
            chk.violation(key_of(tr, r), what, {"module": module, "trace": tr, "rejection": r, "call": describe(tr)})

    validate("BudgetTrace", traces, bc.finding_key, bc.describe)
    if pid in ("C03", "C10"):
        # the density strategy layer, exact: window_, min_dist_ and the nested manager after every call
        chk.model_check("MC_DensityQS", "MC_DensityQS.cfg")
        code = tlc.run_tlc("MC_DensityQS", "MC_DensityQS_code.cfg", timeout=600)
        if not any("ChunkInvariant" in e or "NoOverspend" in e for e in code.errors):
            raise tlc.MachineryError("DensityQS with Advance=FALSE (the code) unexpectedly satisfies ChunkInvariant")
        chk.notes.append("DensityQS: per-instance reference (Advance=TRUE) satisfies ChunkInvariant/NoOverspend, the "
                         "code-shaped variant (manager not advanced inside a chunk) violates them - the C04 finding")
        dtraces = pmap(_density_job, density_jobs(pid, quick, rng))
        chk.count(len(dtraces))
        for t in dtraces:
            chk.case(("density", t["id"]))
        chk.sample({"density_trace": {k: dtraces[3][k] for k in ("id", "P", "ws", "events")}})
        validate("DensityTrace", dtraces, dc.finding_key, lambda t: t["concrete"])
        # the cognition window of CognitiveDualQueryStrategy (force_full_budget=True), exact
        chk.model_check("MC_CognitiveQS", "MC_CognitiveQS.cfg")
        ctraces = pmap(_cognitive_job, cognitive_jobs(pid, quick, rng))
        chk.count(len(ctraces))
        for t in ctraces:
            chk.case(("cognitive", t["id"]))
        chk.sample({"cognitive_trace": {k: ctraces[3][k] for k in ("id", "P", "cws", "thr", "events")}})
        validate("CognitiveTrace", ctraces, dc.finding_key, lambda t: t["concrete"])
    pj = proto_jobs(pid, quick, rng)
    pairs = pmap(_proto_job, pj, chunksize=1)
    ptraces = [t for pair in pairs for t in pair]
    chk.count(len(ptraces))
    for t in ptraces:
        chk.case(("proto", t["id"]))
    small = dict(ptraces[1])
    small["events"] = small["events"][:6]
    small["twin"] = small["twin"][:3]
    chk.sample({"protocol_trace_prefix": small})
    validate("StreamProto", ptraces, sc.finding_key,
             lambda t: {"how": "harness.drivers.stream_checks._proto_job rebuilds this history from 'concrete'",
                        **t["concrete"]})
    chk.assumptions = [
        "exact regime: w in {2,4,8}, budget/s/theta dyadic, utilities on a 1/16 grid - the float computation equals "
        "exact rational arithmetic (states outside the regime are logged as unmatched values, never discarded)",
        "uniform random numbers are abstracted to the Booleans the code can observe, computed from "
        "numpy.random.RandomState(seed); generator states are projected to stream positions by exact matching",
        "decisions that depend on normal deviates (RandomVariable, DensitySplit) are environment choices",
        "protocol regime: the committed state is the digest of all attributes with a trailing underscore "
        "(nested estimators and generator states included); budgets are rounded up to a 1/64 grid for the counting "
        "bound (sound)",
    ]
    return chk.finish()
