"""C05 - a pool query has no side effects on caller data, models or settings.

(M) MC_Frame: the frame condition as an action property of the abstract
    strategy object (Query / SetParams / CallerEdits).
(G) PoolGen scenarios choose pool, labeling, candidate mode and batch size of
    each call of a history of 1-3 consecutive queries on ONE strategy object.
(T) FrameTrace: ids of the digests of every caller-owned array, of the model
    argument (get_params(deep=True) + fitted attributes) and of the strategy's
    get_params(deep=True) before and after each call; pickling; a clone of
    the used strategy against a fresh strategy.  TLC compares.
"""

import inspect
import pickle
import warnings

import numpy as np
from sklearn.base import BaseEstimator, clone

from .. import abstraction as ab
from .. import tlc, zoo
from ..core import Check, import_repo, pmap
from . import pool_common as pc

ENTRIES = {}


def canon(v, depth=0):
    """canonical, content-based form of a parameter / attribute value"""
    if isinstance(v, BaseEstimator) and depth < 4:
        # an estimator handed over as a constructor parameter is the caller's model: its fitted attributes
        # (names; values where they are plain data) belong to its content - a query must not fit it
        # (a wrapped query strategy is exempt: calling its query - which is what a wrapper is for - sets its
        #  trailing-underscore attributes like any call by the user would)
        fitted = {}
        for k, x in sorted(vars(v).items()):
            if k.endswith("_") and not k.startswith("_") and not hasattr(v, "query"):
                fitted[k] = canon(x, depth + 1) if isinstance(x, (int, float, str, bool, np.ndarray, list, tuple,
                                                                  type(None), np.generic)) else type(x).__name__
        return ("est", type(v).__name__, canon(v.get_params(deep=False), depth + 1), fitted)
    if isinstance(v, dict):
        return {repr(k): canon(x, depth + 1) for k, x in v.items()}
    if isinstance(v, (list, tuple)):
        return [canon(x, depth + 1) for x in v]
    if isinstance(v, np.ndarray):
        return ("nd", ab.digest(v))
    if isinstance(v, np.random.RandomState):
        return ("rs", ab.digest(v))
    if isinstance(v, type) or callable(v):
        return ("callable", getattr(v, "__module__", ""), getattr(v, "__qualname__", type(v).__name__))
    if isinstance(v, float) and v != v:
        return "nan"
    if isinstance(v, np.generic):
        return canon(v.item(), depth)
    return v


def params_digest(est):
    return ab.digest(canon(est.get_params(deep=False)))


def model_digest(m):
    if m is None:
        return "none"
    if isinstance(m, (list, tuple)):
        return ab.digest([model_digest(x) for x in m])
    fitted = {}
    for k, v in sorted(vars(m).items()):
        try:
            fitted[k] = canon(v)
        except Exception:
            fitted[k] = repr(type(v))
    return ab.digest([type(m).__name__, canon(m.get_params(deep=False)), fitted])


class Ids:
    def __init__(self):
        self.m = {}

    def __call__(self, h):
        if h not in self.m:
            self.m[h] = len(self.m) + 1
        return self.m[h]


def result_digest(res):
    if isinstance(res, tuple):
        return ab.digest([np.asarray(r, dtype=float) for r in res])
    return ab.digest(np.asarray(res, dtype=float))


def run_history(entry, scs, seed, variant):
    ids = Ids()
    # one third of the strategies get their random_state as a RandomState instance: the caller's generator object
    # is a constructor parameter like any other and must not be advanced by query
    qs = entry.make(np.random.RandomState(seed) if seed % 3 == 2 else seed, np.nan, (0, 1))
    params0 = ids(params_digest(qs))
    sig = inspect.signature(qs.query).parameters
    events = []
    last_call = None
    for step, sc in enumerate(scs):
        conc = pc.concretise(sc, entry, seed + step)
        rng = np.random.RandomState(seed + 17 * step)
        X, y = conc["X"].copy(), conc["y"].copy()
        cand = conc["candidates"]
        cand_arr = None if cand is None else np.array(cand)
        kw = zoo.model_kwargs(entry, np.nan, (0, 1), seed=seed, variant=variant)
        model = next(iter(kw.values())) if kw else None
        sw = uw = None
        if "sample_weight" in sig and rng.rand() < 0.6:
            sw = rng.uniform(0.5, 2.0, size=len(X))
            kw["sample_weight"] = sw
        if "utility_weight" in sig and rng.rand() < 0.6:
            n_u = len(cand_arr) if (cand_arr is not None and cand_arr.ndim == 2) else len(X)
            uw = rng.uniform(0.5, 2.0, size=n_u)
            kw["utility_weight"] = uw

        def snap():
            return {"X": ids(ab.digest(X)), "y": ids(ab.digest(y)),
                    "cand": ids(ab.digest(cand_arr) if cand_arr is not None else "none"),
                    "sw": ids(ab.digest(sw) if sw is not None else "none"),
                    "uw": ids(ab.digest(uw) if uw is not None else "none"),
                    "model": ids(model_digest(model)), "params": ids(params_digest(qs))}

        pre = snap()
        events.append({"ev": "Args", "data": pre["X"], "model": pre["model"]})
        ret_u = bool(step % 2)
        try:
            with warnings.catch_warnings():
                warnings.simplefilter("ignore")
                with np.errstate(all="ignore"):
                    with pc.time_limit(120):
                        res = qs.query(X, y, candidates=cand_arr, batch_size=conc["batch_size"],
                                       return_utilities=ret_u, **kw)
            events.append({"ev": "Query", "pre": pre, "post": snap(), "res": ids(result_digest(res))})
            last_call = (conc, kw, ret_u)
        except Exception as ex:
            # failures of the call itself belong to C01; the frame is still checked
            events.append({"ev": "Query", "pre": pre, "post": snap(), "res": 0})
            events[-1]["raised"] = "%s: %s" % (type(ex).__name__, str(ex)[:120])
    # after the history: the strategy can still be pickled and cloned, and the
    # clone behaves like a freshly constructed strategy
    try:
        pickle.dumps(qs)
        events.append({"ev": "Pickle", "ok": True})
    except Exception as ex:
        events.append({"ev": "Pickle", "ok": False, "exc": "%s: %s" % (type(ex).__name__, str(ex)[:120])})
    if last_call is not None:
        conc, kw, ret_u = last_call
        ev = {"ev": "Clone", "ok": True, "clone_res": 0, "fresh_res": 0}
        try:
            c = clone(qs)
        except Exception as ex:
            ev["ok"] = False
            ev["exc"] = "%s: %s" % (type(ex).__name__, str(ex)[:120])
            c = None
        if c is not None:
            def call(s):
                # equal state of the process-global generator for both calls:
                # hidden use of np.random is C06's subject, not C05's
                np.random.seed(20260)
                cand = conc["candidates"]
                cand = None if cand is None else np.array(cand)
                with warnings.catch_warnings():
                    warnings.simplefilter("ignore")
                    with np.errstate(all="ignore"):
                        try:
                            return result_digest(s.query(conc["X"].copy(), conc["y"].copy(), candidates=cand,
                                                         batch_size=conc["batch_size"], return_utilities=ret_u, **kw))
                        except Exception as ex:
                            return "raised:" + type(ex).__name__
            ev["clone_res"] = ids(call(c))
            ev["fresh_res"] = ids(call(entry.make(seed, np.nan, (0, 1))))
        events.append(ev)
    return {"id": "%s/%s/seed%d/v%d" % (entry.name, "+".join(pc.scenario_tag(s) for s in scs), seed, variant),
            "params0": params0, "events": events,
            "concrete": {"strategy": entry.name, "scenarios": scs, "seed": seed, "variant": variant,
                         "how": "harness.drivers.c05.run_history(entry, scenarios, seed, variant)"}}


def run_ma_history(kind, inner_name, scs, seed):
    """multi-annotator strategies: the same frame events (caller arrays incl. the annotators / A_perf
    arguments, the model argument = wrapped strategy or classifier, own parameters)"""
    from skactiveml.pool.multiannotator import IntervalEstimationThreshold, SingleAnnotatorWrapper

    from . import c07

    ids = Ids()
    if kind == "wrapper":
        e = ENTRIES[inner_name]
        inner = e.make(seed, np.nan, (0, 1))
        qs = SingleAnnotatorWrapper(inner, random_state=seed)
    else:
        from skactiveml.classifier.multiannotator import AnnotatorLogisticRegression

        inner = AnnotatorLogisticRegression(classes=[0, 1], random_state=seed, max_iter=5)
        qs = IntervalEstimationThreshold(random_state=seed)
    params0 = ids(params_digest(qs))
    events = []
    for step, sc in enumerate(scs):
        conc = c07.concretise(sc, seed + step)
        rng = np.random.RandomState(seed + 31 * step)
        X, y = conc["X"].copy(), conc["y"].copy()
        cand = None if conc["candidates"] is None else np.array(conc["candidates"])
        ann = None if conc["annotators"] is None else np.array(conc["annotators"])
        kw = {}
        aperf = None
        if kind == "wrapper":
            kw.update(zoo.model_kwargs(ENTRIES[inner_name], np.nan, (0, 1), seed=seed))
            kw["n_annotators_per_sample"] = int(sc["pref"])
            kw["batch_size"] = int(sc["bs"])
            if step % 2:
                n_cand = len(cand) if cand is not None else sc["ns"]
                aperf = rng.rand(n_cand, conc["na"])
                kw["A_perf"] = aperf
            # the wrapped strategy is a constructor parameter of the wrapper (covered by get_params(deep=True));
            # the model argument is the classifier / ensemble handed through query
            model = [v for k, v in kw.items() if k in ("clf", "reg", "ensemble", "discriminator")]
        else:
            kw["clf"] = inner
            kw["batch_size"] = int(sc["bs"]) if sc["bs"] != 10 else "adaptive"
            model = inner

        def snap():
            return {"X": ids(ab.digest(X)), "y": ids(ab.digest(y)),
                    "cand": ids(ab.digest(cand) if cand is not None else "none"),
                    "sw": ids(ab.digest(ann) if ann is not None else "none"),      # annotators argument
                    "uw": ids(ab.digest(aperf) if aperf is not None else "none"),  # A_perf argument
                    "model": ids(model_digest(model)), "params": ids(params_digest(qs))}

        pre = snap()
        events.append({"ev": "Args", "data": pre["X"], "model": pre["model"]})
        try:
            with warnings.catch_warnings():
                warnings.simplefilter("ignore")
                with np.errstate(all="ignore"):
                    with pc.time_limit(6):
                        res = qs.query(X, y, candidates=cand, annotators=ann, return_utilities=bool(step % 2), **kw)
            events.append({"ev": "Query", "pre": pre, "post": snap(), "res": ids(result_digest(res))})
        except BaseException as ex:      # incl. the watchdog: the frame is checked anyway (C07 owns the failure)
            events.append({"ev": "Query", "pre": pre, "post": snap(), "res": 0,
                           "raised": "%s: %s" % (type(ex).__name__, str(ex)[:120])})
    try:
        pickle.dumps(qs)
        events.append({"ev": "Pickle", "ok": True})
    except Exception as ex:
        events.append({"ev": "Pickle", "ok": False, "exc": "%s: %s" % (type(ex).__name__, str(ex)[:120])})
    name = "SingleAnnotatorWrapper(%s)" % inner_name if kind == "wrapper" else "IntervalEstimationThreshold"
    return {"id": "%s/%s/seed%d/v0" % (name, "+".join("%s-%s-ns%d-na%d-bs%d" % (s["cmode"], s["amode"], s["ns"], s["na"], s["bs"])
                                                      for s in scs), seed),
            "params0": params0, "events": events,
            "concrete": {"strategy": name, "scenarios": scs, "seed": seed,
                         "how": "harness.drivers.c05.run_ma_history(kind, inner, scenarios, seed)"}}


def _job(arg):
    if arg[0] == "__ma__":
        return run_ma_history(*arg[1:])
    name, scs, seed, variant = arg
    return run_history(ENTRIES[name], scs, seed, variant)


def finding_key(tr, rej):
    name = tr["id"].split("/")[0]
    oe = rej["offending_event"] or {}
    return "%s|%s" % (name, ",".join(rej["failed_clauses"]) or oe.get("ev", "end"))


def extra_entries():
    """parameter settings with symbolic defaults that are resolved lazily"""
    import skactiveml.pool as P

    out = []

    def add(name, cls_name, kw, **meta):
        def make(seed, missing_label=np.nan, classes=(0, 1), _c=cls_name, _kw=kw):
            k = {a: (dict(b) if isinstance(b, dict) else (b.copy() if isinstance(b, np.ndarray) else b))
                 for a, b in _kw.items()}
            if "classes" in inspect.signature(getattr(P, _c)).parameters:
                k["classes"] = list(classes)
            return getattr(P, _c)(missing_label=missing_label, random_state=seed, **k)
        out.append(zoo.Entry(name, cls_name, make, **meta))

    add("ProbabilisticAL(metric=rbf)", "ProbabilisticAL", {"metric": "rbf"}, model="clf_freq", samplewise=True)
    add("ProbabilisticAL(metric=rbf,dict)", "ProbabilisticAL", {"metric": "rbf", "metric_dict": {"gamma": "mean"}},
        model="clf_freq", samplewise=True)
    add("Clue(dict)", "Clue", {"cluster_algo_dict": {"n_init": 2}}, model="clf_embed", rows=False, cost=2)
    add("TypiClust(dict)", "TypiClust", {"cluster_algo_dict": {"n_init": 2}}, model=None, rows=False, cost=2)
    add("ProbCover(dict)", "ProbCover", {"cluster_algo_dict": {"n_init": 2}}, model=None, rows=False, cost=2)
    add("DropQuery(dict)", "DropQuery", {"cluster_algo_dict": {"n_init": 2}}, model="clf_embed", rows=False, cost=2)
    add("GreedySamplingX(metric_dict)", "GreedySamplingX", {"metric": "euclidean", "metric_dict": {"squared": True}}, model=None)
    # further documented parameter values
    add("ValueOfInformationEER(subtract_current)", "ValueOfInformationEER", {"subtract_current": True}, model="clf",
        rows=False, cost=2)
    add("ValueOfInformationEER(normalize)", "ValueOfInformationEER", {"normalize": True, "consider_labeled": False},
        model="clf", rows=False, cost=2)
    add("MonteCarloEER(subtract_current)", "MonteCarloEER", {"subtract_current": True}, model="clf", cost=2)
    add("EpistemicUncertaintySampling(logreg)", "EpistemicUncertaintySampling", {}, model="clf_logreg", samplewise=True)
    add("UncertaintySampling(margin,cost_matrix)", "UncertaintySampling",
        {"method": "margin_sampling", "cost_matrix": np.array([[0.0, 2.0], [1.0, 0.0]])}, model="clf", samplewise=True)
    # caller-owned array / list / dict valued parameters (deliberately unsorted, float64, C-contiguous:
    # the form in which validation helpers hand back a view instead of a copy)
    cm = np.array([[0.0, 2.0], [1.0, 0.0]])
    add("ProbCover(deltas)", "ProbCover", {"deltas": np.array([1.0, 0.25, 2.0, 0.5, 1.5])}, model=None, rows=False, cost=2)
    add("ProbCover(deltas,n_classes)", "ProbCover", {"deltas": np.array([[1.0], [0.25], [0.5]]), "n_classes": 2},
        model=None, rows=False, cost=2)
    add("UncertaintySampling(cost_matrix)", "UncertaintySampling", {"method": "least_confident", "cost_matrix": cm},
        model="clf", samplewise=True)
    add("MonteCarloEER(cost_matrix)", "MonteCarloEER", {"cost_matrix": cm}, model="clf", cost=2)
    add("ValueOfInformationEER(cost_matrix)", "ValueOfInformationEER", {"cost_matrix": cm}, model="clf", rows=False,
        cost=2)
    add("CostEmbeddingAL(cost_matrix,params)", "CostEmbeddingAL",
        {"cost_matrix": cm, "mds_params": {"n_init": 1}, "nn_params": {"leaf_size": 20}},
        model=None, samplewise=True, cost=2)
    add("ContrastiveAL(nn_dict)", "ContrastiveAL", {"nearest_neighbors_dict": {"n_neighbors": 2}}, model="clf_embed",
        cost=2)
    add("ExpectedModelOutputChange(dict)", "ExpectedModelOutputChange",
        {"integration_dict": {"method": "assume_linear"}}, model="reg_prob", cost=2)
    add("KLDivergenceMaximization(dicts)", "KLDivergenceMaximization",
        {"integration_dict_target_val": {"method": "assume_linear"},
         "integration_dict_cross_entropy": {"method": "assume_linear"}}, model="reg_prob", cost=2)
    add("KLDivergenceMaximization(empty dicts)", "KLDivergenceMaximization",
        {"integration_dict_target_val": {}, "integration_dict_cross_entropy": {}}, model="reg_prob", cost=3)
    add("GreedySamplingTarget(dicts)", "GreedySamplingTarget",
        {"x_metric": "euclidean", "x_metric_dict": {"squared": True}, "y_metric": "euclidean",
         "y_metric_dict": {"squared": True}},
        model="reg")
    return out


def main(tier="quick", seed=0):
    chk = Check("C05", tier, seed)
    import_repo()
    quick = tier == "quick"
    rng = np.random.default_rng(seed + 5)
    missing = zoo.check_complete()
    if missing:
        raise tlc.MachineryError("pool strategies exported but not registered in harness/zoo.py: %s" % missing)
    ENTRIES.update({e.name: e for e in zoo.entries() + extra_entries()})
    chk.model_check("MC_Frame", "MC_Frame.cfg")
    scenarios = chk.generate("PoolGen", "PoolGen.cfg")
    scenarios = [s for s in scenarios if s["n"] >= 3]
    scenarios += pc.random_scenarios(rng, len(scenarios) // 3)
    per_cost = {1: 40, 2: 16, 3: 6} if quick else {1: 400, 2: 150, 3: 40}
    jobs = []
    for e in ENTRIES.values():
        pool = [s for s in scenarios if pc.applicable(e, s)]
        for n_ in range(per_cost[e.cost]):
            k = 1 + n_ % 3
            scs = [pool[int(i)] for i in rng.choice(len(pool), size=k, replace=False)]
            jobs.append((e.name, scs, int(rng.integers(0, 1000)), n_ % 3))
    # multi-annotator strategies on MultiAnnotGen scenarios
    from . import c07

    ma = chk.generate("MultiAnnotGen", "MultiAnnotGen.cfg", extra=("-seed", str(seed + 1)))
    ma = [s for s in ma if c07.n_avail(s) >= 1]
    for n_ in range(120 if quick else 1500):
        k = 1 + n_ % 3
        scs = [ma[int(i)] for i in rng.choice(len(ma), size=k, replace=False)]
        inner = c07.INNER[n_ % len(c07.INNER)]
        if any(s["cmode"] == "rows" for s in scs) and not ENTRIES[inner].rows:
            inner = "RandomSampling"
        jobs.append(("__ma__", "wrapper" if n_ % 4 else "iet", inner, scs, int(rng.integers(0, 1000))))
    traces = pmap(_job, jobs, chunksize=2)
    chk.count(sum(sum(1 for e in t["events"] if e["ev"] == "Query") for t in traces))
    for t in traces:
        chk.case((t["id"].split("/")[0], t["id"].split("/")[1]))
    chk.sample({"trace": {k: v for k, v in traces[2].items() if k != "concrete"}})
    chk.rule = ("one trace = a history of 1-3 consecutive queries on one strategy object (scenarios = PoolGen initial "
                "states: pools of 3-4 samples, all labeled sets, candidate modes, batch sizes, geometries) for each of "
                "%d configurations incl. lazily resolved None defaults and caller-owned dict parameters; evaluations = "
                "query calls; distinct = (configuration, scenario sequence)" % len(ENTRIES))
    chk.validate("FrameTrace", traces, key_of=finding_key, describe=lambda t: t["concrete"])
    chk.assumptions = ["digests are SHA-1 over dtype/shape/bytes of arrays and the canonical content of parameters "
                       "(dicts by content, nested estimators by class and parameters, callables by qualified name)",
                       "fitted state of the model argument = its instance dictionary",
                       "multi-annotator strategies: SingleAnnotatorWrapper (the model handed through query is the model "
                       "argument; the wrapped strategy is a constructor parameter) and IntervalEstimationThreshold on MultiAnnotGen scenarios; the annotators and A_perf "
                       "arguments take the sample_weight / utility_weight slots of the frame record"]
    return chk.finish()
