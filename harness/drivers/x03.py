"""X03 - beyond the listed properties: the farthest-first traversals of CoreSet
(k_greedy_center) and GreedySamplingX (_greedy_sampling, method "x") against
KCenter.tla, exactly, on points of the integer line.

Not registered in MANIFEST.json: it pins the present utility values of the two
strategies (a maintainer may legitimately rescale them), which is more than
C01 / C02 state.  (M) MC_KCenter model-checks distinctness, the NaN pattern and
the farthest-first contract for all configurations of <= 5 points and verifies
that a reset which forgets the marks of earlier picks violates distinctness;
(G) TLC enumerates the configurations; (T) every configuration is executed for
both strategies and all three candidate modes and KCenterTrace validates every
batch step (row = specified row, pick maximises it)."""

import warnings

import numpy as np

from .. import abstraction as ab
from ..core import Check, import_repo, pmap

NAN = ab.NAN


def _row(r):
    out = []
    for v in np.asarray(r, dtype=float).ravel():
        out.append(NAN if v != v else (int(v) if v == int(v) and abs(v) < 1e6 else -7))
    return out


def _job(arg):
    from skactiveml.pool import CoreSet, GreedySamplingX

    case, variant, mode, seed = arg
    U0 = [int(v) for v in case["U"]]
    lab = [int(i) for i in case["labeled"]]          # 1-based
    cands = [int(i) for i in case["cands"]]
    bs = int(case["bs"])
    n = len(U0)
    X = np.array([[float(v), 0.0] for v in U0])
    y = np.full(n, np.nan)
    for k, i in enumerate(lab):
        y[i - 1] = float(k % 2)
    unl = [i for i in range(1, n + 1) if i not in lab]
    if mode == "none" and cands != unl:
        return None
    qs = (CoreSet if variant == "coreset" else GreedySamplingX)(random_state=seed)
    if mode == "none":
        cand_arg = None
    elif mode == "idx":
        cand_arg = np.array([i - 1 for i in cands])
    else:
        cand_arg = X[[i - 1 for i in cands]].copy()
    tr = {"variant": variant, "bs": bs}
    if mode in ("none", "idx"):
        tr.update(U=U0, labeled=lab, cands=cands, sumset=list(range(1, n + 1)), full=True)
        to_u = lambda q: int(q) + 1                       # noqa: E731
        pad = lambda r: _row(r)                           # noqa: E731
    elif variant == "coreset":
        K = len(cands)
        tr.update(U=[U0[i - 1] for i in cands] + [U0[i - 1] for i in lab], labeled=list(range(K + 1, K + len(lab) + 1)),
                  cands=list(range(1, K + 1)), sumset=[], full=False)
        to_u = lambda q: int(q) + 1                       # noqa: E731
        pad = lambda r: _row(r) + [NAN] * len(lab)        # noqa: E731
    else:
        K = len(cands)
        tr.update(U=U0 + [U0[i - 1] for i in cands], labeled=lab, cands=list(range(n + 1, n + K + 1)),
                  sumset=list(range(1, n + 1)), full=False)
        to_u = lambda q: n + int(q) + 1                   # noqa: E731
        pad = lambda r: [NAN] * n + _row(r)               # noqa: E731
    events = []
    try:
        with warnings.catch_warnings():
            warnings.simplefilter("ignore")
            q, u = qs.query(X.copy(), y.copy(), candidates=cand_arg, batch_size=bs, return_utilities=True)
        q = np.asarray(q).ravel()
        u = np.asarray(u, dtype=float)
        for i in range(len(q)):
            events.append({"ev": "Step", "p": to_u(q[i]), "row": pad(u[i])})
        events.append({"ev": "Done", "n": int(len(q))})
    except Exception as ex:
        events = [{"ev": "Raised", "exc": "%s: %s" % (type(ex).__name__, str(ex)[:160])}]
    tr.update(id="%s/%s/U%s-L%s-C%s-bs%d/seed%d" % (variant, mode, U0, lab, cands, bs, seed), events=events,
              concrete={"strategy": "CoreSet" if variant == "coreset" else "GreedySamplingX", "X": X.tolist(),
                        "y": [None if v != v else v for v in y.tolist()],
                        "candidates": None if cand_arg is None else cand_arg.tolist(), "batch_size": bs, "seed": seed})
    return tr


def main(tier="quick", seed=0):
    chk = Check("X03", tier, seed)
    import_repo()
    from .c12 import expect_violation

    chk.model_check("MC_KCenter", "MC_KCenter.cfg")
    expect_violation(chk, "MC_KCenter_forget.cfg", "PicksDistinct", module="MC_KCenter")
    cases = chk.generate("MC_KCenter", "KCenter_gen.cfg")
    rng = np.random.default_rng(seed + 3)
    n = 2500 if tier == "quick" else 40000
    jobs = []
    for i in rng.choice(len(cases), size=min(n, len(cases)), replace=False):
        c = cases[int(i)]
        for variant in ("coreset", "gsx"):
            for mode in ("none", "idx", "rows"):
                jobs.append((c, variant, mode, int(rng.integers(0, 1000))))
    traces = [t for t in pmap(_job, jobs) if t is not None]
    chk.count(sum(len(t["events"]) for t in traces))
    for t in traces:
        chk.case(t["id"].rsplit("/", 1)[0])
    chk.sample({"trace": {k: v for k, v in traces[0].items() if k != "concrete"}})
    chk.rule = ("configurations (<= 5 points on {0,1,3}, labeled subset, candidate subset of the unlabeled samples, "
                "batch size <= 4) enumerated by TLC; a seeded sample executed for CoreSet and GreedySamplingX with "
                "candidates None / index array / feature rows; one event per batch step")
    chk.validate("KCenterTrace", traces, describe=lambda t: t["concrete"],
                 key_of=lambda t, r: "%s|%s|%s" % (t["variant"], t["id"].split("/")[1],
                                                   ",".join(r["failed_clauses"]) or "unmatched"))
    chk.assumptions = ["integer coordinates: every distance and every sum of distances is exact in floating point"]
    return chk.finish()
