"""C15 - regressor predictions are coherent with their predictive distribution.

(M) TLC checks spec/Regress.tla: the case table over (regressor kind, number of
    labeled samples 0/1/2+, prior class, return_std, return_entropy) is total,
    unambiguous, without dead rows and says what C15 says (ASSUMEs evaluated by
    TLC), and the call protocol Fit -> Dist -> Predict -> Sample -> SampleAgain
    keeps Coherent / StdFinite / Fallback / SampleShape / RaiseOnlyOutside for
    all small observation values.
(G) TLC enumerates the cases of the table.
(T) every case is realised with several small data sets; each public call of
    the real regressor is logged with band-encoded values (round(x * 2^20)
    capped to 32 bit, flags for nan / +-inf), shapes and sample digests, and
    RegressTrace.tla validates each trace against the row of the table.

The numerics of the posterior are out of scope; Python chooses inputs and
projects values, every verdict is TLC's.
"""

import threading
import warnings

import numpy as np

from .. import abstraction as ab
from .. import tlc as _tlc
from ..core import Check, import_repo, pmap

SCALE = 1 << 20
CAP = (1 << 31) - 2


def _band(x):
    """float -> [flag, v]: 0 finite, 1 nan, 2 +inf, 3 -inf"""
    try:
        x = float(x)
    except (TypeError, ValueError):
        return [1, 0]
    if x != x:
        return [1, 0]
    if x == float("inf"):
        return [2, 0]
    if x == float("-inf"):
        return [3, 0]
    return [0, int(max(-CAP, min(CAP, round(x * SCALE))))]


def _bands(a):
    return [_band(v) for v in np.asarray(a, dtype=float).ravel()]


def _unfittable():
    """a scikit-learn regressor whose fit always fails (predict then raises
    NotFittedError, which triggers the wrapper's documented fallback)"""
    from sklearn.linear_model import BayesianRidge

    class Unfittable(BayesianRidge):
        def fit(self, X, y, sample_weight=None):
            raise ValueError("this estimator cannot be fitted")

    return Unfittable()


def _make(case, rng):
    """regressor for the case + a description of its constructor"""
    from sklearn.gaussian_process import GaussianProcessRegressor
    from sklearn.linear_model import BayesianRidge, LinearRegression
    from skactiveml.regressor import (NadarayaWatsonRegressor, NICKernelRegressor, SklearnNormalRegressor,
                                      SklearnRegressor)

    kind = case["kind"]
    gamma = [None, 0.5, 2.0][int(rng.integers(3))]
    md = None if gamma is None else {"gamma": gamma}
    if kind == "NIC":
        if case["prior"] == "proper":
            # proper normal-inverse-chi-squared prior whose predictive t distribution has a variance
            p = {"kappa_0": [0.1, 1, 2.5][int(rng.integers(3))], "nu_0": [2.5, 3, 6][int(rng.integers(3))],
                 "mu_0": [-1.5, 0, 2][int(rng.integers(3))], "sigma_sq_0": [0.5, 1.0, 3][int(rng.integers(3))]}
        else:
            # no weight on the prior mean (the prior class of NadarayaWatsonRegressor)
            p = {"kappa_0": 0, "nu_0": [2.5, 3][int(rng.integers(2))], "mu_0": [0, 1.0][int(rng.integers(2))],
                 "sigma_sq_0": [0.5, 1.0][int(rng.integers(2))]}
        return NICKernelRegressor(metric="rbf", metric_dict=md, **p), "NICKernelRegressor(%r, metric_dict=%r)" % (p, md)
    if kind == "NW":
        return NadarayaWatsonRegressor(metric="rbf", metric_dict=md), "NadarayaWatsonRegressor(metric_dict=%r)" % (md,)
    if kind == "NormalGP":
        return (SklearnNormalRegressor(GaussianProcessRegressor(alpha=1e-6, random_state=0)),
                "SklearnNormalRegressor(GaussianProcessRegressor(alpha=1e-6))")
    if kind == "NormalBR":
        return SklearnNormalRegressor(BayesianRidge()), "SklearnNormalRegressor(BayesianRidge())"
    if kind == "NormalUnfit":
        return SklearnNormalRegressor(_unfittable()), "SklearnNormalRegressor(<estimator whose fit raises>)"
    if kind == "PlainLR":
        return SklearnRegressor(LinearRegression()), "SklearnRegressor(LinearRegression())"
    return SklearnRegressor(_unfittable()), "SklearnRegressor(<estimator whose fit raises>)"


def _dataset(case, rng, variant):
    """small training set with the requested number of labeled samples; the
    variants cover duplicated points, equal labels, weights and 2 features"""
    d = 2 if variant % 3 == 2 else 1
    n_lab = case["nLab"] if case["nLab"] < 2 else int(rng.integers(2, 5))
    n = n_lab + int(rng.integers(1, 4))
    X = rng.uniform(-2, 4, size=(n, d)).round(2)
    y = np.full(n, np.nan)
    idx = rng.permutation(n)[:n_lab]
    y[idx] = rng.uniform(-3, 5, size=n_lab).round(2)
    if variant % 4 == 1 and n_lab >= 2:       # duplicated points with equal labels
        X[idx[1]] = X[idx[0]]
        y[idx[1]] = y[idx[0]]
    if variant % 5 == 3 and n_lab >= 2:       # all labels equal
        y[idx] = y[idx[0]]
    # labels with a large common offset (time stamps, pressures): variance formulas of the E[y^2] - E[y]^2 kind
    # cancel catastrophically there; float32 labels already at 1e5
    if variant % 7 == 5 and n_lab >= 2:
        y[idx] = 1e9 + rng.integers(-3, 4, size=n_lab)
    if variant % 7 == 6 and n_lab >= 2:
        y = y.astype(np.float32)
        y[idx] = (101325 + rng.normal(size=n_lab)).astype(np.float32)
    w = None
    # (the wrapper mirrors the signature of the wrapped fit: GaussianProcessRegressor takes no sample_weight)
    if variant % 3 == 1 and case["kind"] != "NormalGP":
        w = rng.choice([1.0, 5.0, 0.5], size=n)
    if variant % 9 == 7 and case["kind"] in ("NIC", "NW") and n_lab >= 1:
        # every labeled sample has weight zero while unlabeled samples keep theirs: fit must reject this
        w = rng.choice([1.0, 5.0, 0.5], size=n)
        w[idx] = 0.0
    # query points inside the range of the data (kernel weights do not underflow)
    Xq = np.vstack([X[: min(2, n)], rng.uniform(-2, 4, size=(int(rng.integers(1, 3)), d)).round(2)])
    if variant % 4 == 2:
        # integer feature matrices (the wrappers validate X with dtype=None: the dtype of the query points must
        # not leak into the predictions)
        X, Xq = np.round(X).astype(int), np.round(Xq).astype(int)
    return X, y, w, Xq


def _realise(arg):
    case, cseed, variant = arg
    rng = np.random.default_rng(cseed)
    reg, ctor = _make(case, rng)
    X, y, w, Xq = _dataset(case, rng, variant)
    lab = y[~np.isnan(y)]
    label_mean = float(np.mean(lab)) if len(lab) else 0.0
    nq = len(Xq)
    ns = [1, 3, 4][int(rng.integers(3))]
    if ns == nq:
        ns += 1   # a transposed result must be visible in the shape
    # boundary seeds: 0 is a valid seed that "falsy" idioms (seed or default) silently replace
    rs = [0, 0, 1, int(rng.integers(0, 1000)), int(rng.integers(0, 2 ** 31 - 1))][int(rng.integers(5))]
    tr = {"id": "%s/nLab%d/%s/std%d-ent%d/v%d" % (case["kind"], case["nLab"], case["prior"], case["retStd"],
                                                  case["retEnt"], variant),
          "kind": case["kind"], "nLab": case["nLab"], "prior": case["prior"], "retStd": case["retStd"],
          "retEnt": case["retEnt"], "row": case["row"], "nq": nq, "labelMean": _band(label_mean), "events": [],
          "equal_labels": bool(len(lab) >= 2 and np.all(lab == lab[0])), "weights": w is not None,
          "concrete": {"regressor": ctor, "X": X.tolist(), "y": [None if v != v else v for v in y.tolist()],
                       "sample_weight": None if w is None else w.tolist(), "X_query": Xq.tolist(),
                       "return_std": case["retStd"], "return_entropy": case["retEnt"], "n_samples": ns,
                       "random_state": rs}}
    ev = tr["events"]
    n_calls = 0

    def call(where, fn):
        nonlocal n_calls
        n_calls += 1
        try:
            with warnings.catch_warnings():
                warnings.simplefilter("ignore")
                with np.errstate(all="ignore"):
                    return True, fn()
        except Exception as ex:  # noqa: BLE001 - the code under test raised
            return False, {"ev": "Raised", "where": where, "exc": type(ex).__name__, "msg": str(ex)[:160]}

    lab_mask = ~np.isnan(np.asarray(y, dtype=float))
    tr["zeroLabeledWeights"] = bool(w is not None and case["kind"] in ("NIC", "NW") and lab_mask.any()
                                    and np.all(np.asarray(w)[lab_mask] == 0))
    # how the missing labels are written: NaN (default) / a reserved number / None in an object array
    mlp = int(rng.integers(4))
    y_fit = y
    if mlp == 2:
        reg.set_params(missing_label=-999.0)
        y_fit = np.where(np.isnan(y), -999.0, y)
    elif mlp == 3:
        reg.set_params(missing_label=None)
        y_fit = np.array([None if v != v else float(v) for v in np.asarray(y, dtype=float)], dtype=object)
    tr["concrete"]["missing_label"] = ("nan", "nan", "-999.0", "None")[mlp]
    ok, r = call("fit", lambda: reg.fit(X, y_fit, sample_weight=w) if w is not None else reg.fit(X, y_fit))
    if not ok:
        if r["exc"] == "ValueError" and "must not be all zero" in r["msg"]:
            r = {"ev": "FitRejected", "msg": r["msg"]}
        ev.append(r)
        return tr, n_calls
    ev.append({"ev": "Fit"})
    if not hasattr(reg, "predict_target_distribution"):
        ok, r = call("predict", lambda: reg.predict(Xq))
        if not ok:
            ev.append(r)
            return tr, n_calls
        arity = len(r) if isinstance(r, tuple) else 1
        m = r[0] if isinstance(r, tuple) else r
        ev.append({"ev": "PredictPlain", "arity": arity, "bare": not isinstance(r, tuple), "mean": _bands(m)})
        return tr, n_calls

    def dist():
        rv = reg.predict_target_distribution(Xq)
        return rv.mean(), rv.std(), rv.entropy()

    ok, r = call("predict_target_distribution", dist)
    if not ok:
        ev.append({"ev": "DistRaised", "exc": r["exc"], "msg": r["msg"]})
        return tr, n_calls
    ev.append({"ev": "Dist", "mean": _bands(r[0]), "std": _bands(r[1]), "ent": _bands(r[2])})
    ok, r = call("predict", lambda: reg.predict(Xq, return_std=case["retStd"], return_entropy=case["retEnt"]))
    if not ok:
        ev.append(r)
        return tr, n_calls
    parts = list(r) if isinstance(r, tuple) else [r]
    arity = len(parts)
    pe = {"ev": "Predict", "arity": arity, "bare": not isinstance(r, tuple), "mean": _bands(parts[0]), "std": [],
          "ent": []}
    k = 1
    if case["retStd"] and k < arity:
        pe["std"] = _bands(parts[k])
        k += 1
    if case["retEnt"] and k < arity:
        pe["ent"] = _bands(parts[k])
    ev.append(pe)
    digs = {}

    def sample_event(name, seed):
        ok, s = call("sample_y", lambda: np.asarray(reg.sample_y(Xq, n_samples=ns, random_state=seed)))
        if not ok:
            ev.append(s)
            return False
        d = ab.digest(np.ascontiguousarray(s, dtype=float))
        e = {"ev": name, "shape": [int(v) for v in s.shape], "dig": digs.setdefault(d, len(digs) + 1)}
        if name == "Sample":
            e["ns"] = ns
        ev.append(e)
        return True

    if sample_event("Sample", rs):
        sample_event("SampleAgain", rs)
    return tr, n_calls


def _key_of(t, r):
    ev = r["offending_event"] or {}
    site = {"NIC": "NICKernelRegressor", "NW": "NadarayaWatsonRegressor", "NormalGP": "SklearnNormalRegressor",
            "NormalBR": "SklearnNormalRegressor", "NormalUnfit": "SklearnNormalRegressor",
            "PlainLR": "SklearnRegressor", "PlainUnfit": "SklearnRegressor"}[t["kind"]]
    meth = {"Dist": "predict_target_distribution", "DistRaised": "predict_target_distribution",
            "Predict": "predict", "PredictPlain": "predict", "Sample": "sample_y", "SampleAgain": "sample_y",
            "Fit": "fit"}.get(ev.get("ev"), ev.get("where", "?"))
    cfg = t["row"] + (",equal-labels" if t.get("equal_labels") else "")
    if ev.get("ev") == "Raised":
        if ev.get("where") == "fit":
            cfg = "nLabeled=%s,sample_weight=%s" % (["0", "1", "2+"][t["nLab"]], "given" if t.get("weights") else "None")
        return "%s.%s|%s|raised %s" % (site, meth, cfg, ev.get("exc"))
    return "%s.%s|%s|%s" % (site, meth, cfg, ",".join(r["failed_clauses"]) or "unmatched-" + str(ev.get("ev", "end")))


def main(tier="quick", seed=0):
    chk = Check("C15", tier, seed)
    import_repo()
    quick = tier == "quick"
    rng = np.random.default_rng(seed)
    mc = {}

    def run_mc():
        try:
            mc["res"] = _tlc.model_check("MC_Regress", "MC_Regress.cfg", workers=8)
        except BaseException as ex:  # noqa: BLE001 - re-raised in the main thread
            mc["err"] = ex

    th = threading.Thread(target=run_mc)
    th.start()
    cases = chk.generate("MC_Regress", "Regress_gen.cfg")
    if len(cases) < 10:
        raise _tlc.MachineryError("the generator produced %d cases" % len(cases))
    n_data = 10 if quick else 150
    items = []
    for c in cases:
        for v in range(n_data):
            items.append((c, int(rng.integers(0, 2 ** 31)), v + seed))
    out = pmap(_realise, items)
    traces = []
    for tr, n in out:
        traces.append(tr)
        chk.count(n)
        if tr["nLab"] >= 1 or tr["kind"] in ("NIC", "NormalGP"):
            chk.case((tr["kind"], tr["nLab"], tr["prior"], tr["retStd"], tr["retEnt"], tr["id"].split("/")[-1],
                      tr["equal_labels"]))
    chk.sample({"trace": traces[len(traces) // 3]})
    chk.sample({"trace": traces[(2 * len(traces)) // 3]})
    chk.validate("RegressTrace", traces, describe=lambda t: t["concrete"], key_of=_key_of)
    th.join()
    if "err" in mc:
        raise mc["err"]
    res = mc["res"]
    chk.states += res.distinct
    chk.transitions += res.generated
    chk.mc_runs.append({"module": "MC_Regress", "cfg": "MC_Regress.cfg", "distinct_states": res.distinct,
                        "states_generated": res.generated, "depth": res.depth, "wall_s": round(res.wall, 2)})
    chk.extra["cases_of_the_table"] = len(cases)
    chk.exhaustive = False
    chk.rule = ("cases = all %d cases of the Regress table enumerated by TLC, each realised with %d random small data "
                "sets (1-2 features, 0/1/2-4 labeled samples, duplicated points, equal labels, sample weights); an "
                "evaluation = one public call of a regressor (fit, predict_target_distribution, predict, sample_y); "
                "non-trivial = at least one label or a proper prior; distinct by (case, data-set variant)"
                % (len(cases), n_data))
    chk.assumptions = [
        "TLC evaluates the modules correctly",
        "values are compared as round(x * 2^20) within one unit (capped to 32 bit), nan / +-inf as flags",
        "proper prior of NICKernelRegressor: kappa_0 > 0, nu_0 > 2, sigma_sq_0 > 0 (the predictive t distribution has "
        "a variance); improper: kappa_0 = 0 with nu_0 > 2 (the prior of NadarayaWatsonRegressor)",
        "query points lie inside the range of the training data, so that rbf kernel weights do not underflow",
        "an improper kernel prior without any label is outside the envelope (the distribution may be undefined)",
        "'cannot be fitted' is realised by zero labeled samples and by a wrapped estimator whose fit raises",
        "sample digests are compared for equality only (same random_state => same samples)",
    ]
    return chk.finish()
