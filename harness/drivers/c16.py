"""C16 - label encoding round-trips and missing-label predicates agree.

(M) TLC checks Labels exhaustively (1-D arrays, 2-D arrays, empty arrays, with
    and without an explicit class list): complement, index order, sortedness
    of classes_, encoding, round trip.
(G) TLC enumerates the initial states of Labels as abstract cases.  Every case
    is concretised under a grid of label dtypes (float, int, str, object) x
    missing-label sentinels (np.nan, None, -1, a reserved number, '', 'nan',
    'bb') x order-preserving class renamings (0,1,2 / 10,20,30 / 'a','b','c')
    x input forms (ndarray, nested python list) and executed on is_unlabeled,
    is_labeled, unlabeled_indices, labeled_indices and ExtLabelEncoder.fit /
    transform / inverse_transform / fit_transform.
(T) what the code returned is projected back into the abstract domain
    (class -> its index, sentinel -> -1, anything else -> -99) and written as
    one trace per (case, dtype kind, sentinel kind, form); LabelsTrace.tla
    validates every event (value, shape, or the TypeError the accept/reject
    table of check_missing_label demands).  Direct calls of
    check_missing_label are validated against the same table.

Nothing is judged in this file: it chooses inputs, calls, projects and logs.
"""

import json

import numpy as np

from ..core import Check, import_repo, pmap

UNMATCHED = -99

RENAMINGS = {"012": [0, 1, 2], "102030": [10, 20, 30], "abc": ["a", "b", "c"]}
RESERVED_NUMBER = {"012": 99, "102030": 15, "abc": 99}   # 15 lies between the classes 10 and 20

# (name, python type, renamings that can be stored in that dtype)
DTYPES = [("float", float, ["012", "102030"]),
          ("int", int, ["012", "102030"]),
          # narrow and unsigned integer label arrays (an image data set's uint8 labels)
          ("uint8", np.uint8, ["012", "102030"]),
          ("int32", np.int32, ["012", "102030"]),
          ("str", str, ["abc"]),
          ("object", object, ["012", "abc"])]

# (name, kind in the specification, value or None=per renaming)
# (the numpy scalar forms are what a sentinel read from an array / a pandas column is: np.float64 is a subclass
#  of float, np.int64 and np.str_ are not subclasses of int / are subclasses of str)
SENTINELS = [("nan", "nan"), ("None", "none"), ("-1", "num"), ("reserved-number", "num"),
             ("''", "str"), ("'nan'", "str"), ("'bb'", "str"),
             ("np.float64(nan)", "nan"), ("np.int64(-1)", "num"), ("np.str_('bb')", "str"),
             # (an infinite float is a number sentinel like any other for check_missing_label)
             ("inf", "num")]


def sentinel_value(name, ren):
    return {"nan": np.nan, "None": None, "-1": -1, "reserved-number": RESERVED_NUMBER[ren],
            "''": "", "'nan'": "nan", "'bb'": "bb", "np.float64(nan)": np.float64("nan"),
            "np.int64(-1)": np.int64(-1), "np.str_('bb')": np.str_("bb"), "inf": np.inf}[name]


def storable(dname, skind):
    """can an array of that dtype hold an entry equal to the sentinel?"""
    if dname == "float":
        return skind in ("nan", "num")
    if dname in ("int", "int32"):
        return skind == "num"
    if dname == "uint8":
        return False          # (handled by name in configs_for: only a non-negative finite number can be stored)
    if dname == "str":
        return skind == "str"
    return True


def dtype_kind(dt):
    k = np.dtype(dt).kind
    return {"f": "num", "i": "num", "u": "num", "U": "str", "O": "obj"}.get(k, "other:" + k)


def concretise(case_y, dtype, ren, sent):
    vals = [sent if v == -1 else RENAMINGS[ren][v] for v in case_y["flat"]]
    if dtype is object:
        arr = np.empty(len(vals), dtype=object)
        for i, v in enumerate(vals):
            arr[i] = v
    else:
        arr = np.array(vals, dtype=dtype)
    if case_y["ndim"] == 2:
        arr = arr.reshape(case_y["rows"], case_y["cols"])
    return arr


def _is_number(v):
    return isinstance(v, (int, float, np.integer, np.floating)) and not isinstance(v, (bool, np.bool_))


def _is_sentinel(v, sent):
    if sent is None:
        return v is None
    if isinstance(sent, float) and sent != sent:
        return isinstance(v, (float, np.floating)) and v != v
    if isinstance(sent, str):
        return isinstance(v, str) and v == sent
    return _is_number(v) and v == sent


def project(v, ren, sent):
    """concrete label -> abstract label (class index, -1 = sentinel, -99 = neither)"""
    if _is_sentinel(v, sent):
        return -1
    for i, c in enumerate(RENAMINGS[ren]):
        if isinstance(c, str):
            if isinstance(v, str) and v == c:
                return i
        elif _is_number(v) and v == c:
            return i
    return UNMATCHED


def _try(fn, *a, **k):
    try:
        return True, fn(*a, **k)
    except Exception as ex:  # the specification decides whether raising was right
        return False, type(ex).__name__


def _mask_event(ev, fn, ok, out):
    if not ok:
        return {"ev": "Raised", "fn": fn, "exc": out}
    if not isinstance(out, np.ndarray) or out.dtype != bool:
        return {"ev": "Malformed", "fn": fn, "type": type(out).__name__, "dtype": str(getattr(out, "dtype", ""))}
    return {"ev": ev, "shape": [int(s) for s in out.shape], "res": [bool(v) for v in out.ravel()]}


def _index_event(ev, fn, ok, out, ndim):
    if not ok:
        return {"ev": "Raised", "fn": fn, "exc": out}
    good = isinstance(out, np.ndarray) and out.dtype.kind in "iu" and (
        (ndim == 1 and out.ndim == 1) or (ndim == 2 and out.ndim == 2 and out.shape[1] == 2))
    if not good:
        return {"ev": "Malformed", "fn": fn, "type": type(out).__name__, "shape": list(np.shape(out)),
                "dtype": str(getattr(out, "dtype", ""))}
    res = [int(v) for v in out] if ndim == 1 else [[int(a), int(b)] for a, b in out]
    return {"ev": ev, "res": res}


def _int_or_unmatched(v):
    if _is_number(v) and float(v) == int(v):
        return int(v)
    return UNMATCHED


def run_config(case, dname, dtype, ren, sname, form):
    """one (case, configuration): call everything, return (trace, n_calls) or None"""
    from skactiveml.utils import (ExtLabelEncoder, is_labeled, is_unlabeled, labeled_indices,
                                  unlabeled_indices)

    skind = dict(SENTINELS)[sname]
    sent = sentinel_value(sname, ren)
    cy = case["y"]
    arr = concretise(cy, dtype, ren, sent)
    if form == "list":
        y_in = arr.tolist()
        dk = dtype_kind(np.asarray(y_in).dtype)
    else:
        y_in = arr
        dk = dtype_kind(arr.dtype)
    classes = list(RENAMINGS[ren][:case["K"]]) if case["explicit"] else None
    ndim = cy["ndim"]
    fortran = False
    if form == "ndarray" and ndim == 2 and min(arr.shape) > 1 and (sum(cy["flat"]) + len(sname)) % 2 == 1:
        # a label matrix stored annotator-major / handed over as a transposed view (Fortran order)
        y_in = np.asfortranarray(arr)
        fortran = True
    events = []
    n = 0
    for ev, fn in (("IsUnlabeled", is_unlabeled), ("IsLabeled", is_labeled)):
        ok, out = _try(fn, y_in, missing_label=sent)
        n += 1
        events.append(_mask_event(ev, fn.__name__, ok, out))
    for ev, fn in (("UnlabeledIndices", unlabeled_indices), ("LabeledIndices", labeled_indices)):
        ok, out = _try(fn, y_in, missing_label=sent)
        n += 1
        events.append(_index_event(ev, fn.__name__, ok, out, ndim))

    def values_event(ev, fn, ok, out, proj):
        if not ok:
            return {"ev": "Raised", "fn": fn, "exc": out}
        if not isinstance(out, np.ndarray):
            return {"ev": "Malformed", "fn": fn, "type": type(out).__name__}
        return {"ev": ev, "shape": [int(s) for s in out.shape], "res": [proj(v) for v in out.ravel().tolist()]}

    le = ExtLabelEncoder(classes=classes, missing_label=sent)
    ok, out = _try(le.fit, y_in)
    n += 1
    if not ok:
        events.append({"ev": "Raised", "fn": "fit", "exc": out})
    elif out is not le or not isinstance(getattr(le, "classes_", None), np.ndarray):
        events.append({"ev": "Malformed", "fn": "fit"})
    else:
        events.append({"ev": "Fit", "classes": [project(v, ren, sent) for v in le.classes_.tolist()]})
        ok, enc = _try(le.transform, y_in)
        n += 1
        events.append(values_event("Transform", "transform", ok, enc, _int_or_unmatched))
        if ok and isinstance(enc, np.ndarray):
            ok, dec = _try(le.inverse_transform, enc)
            n += 1
            events.append(values_event("Inverse", "inverse_transform", ok, dec,
                                       lambda v: project(v, ren, sent)))
    # half of the configurations: the encoder used for fit_transform has a past - it was constructed for another
    # class list (one class more, else one less, of the same renaming), used once, and then re-configured with
    # set_params; nothing fitted for the old configuration may survive
    le2 = ExtLabelEncoder(classes=classes, missing_label=sent)
    past = None
    if (sum(cy["flat"]) + case["K"] + len(dname) + len(sname)) % 2 == 0:
        names = list(RENAMINGS[ren])
        other = names[:case["K"] + 1] if len(names) > case["K"] else names[:max(1, case["K"] - 1)]
        if other != classes:
            try:
                old = ExtLabelEncoder(classes=other, missing_label=sent)
                old.fit_transform(np.asarray(other, dtype=np.asarray(arr).dtype if dname != "object" else object))
                old.set_params(classes=classes, missing_label=sent)
                le2, past = old, other
            except Exception:
                pass
    ok, out = _try(le2.fit_transform, y_in)
    n += 1
    events.append(values_event("FitTransform", "fit_transform", ok, out, _int_or_unmatched))
    trace = {"id": "labels/%s/K%d/%s/%s/%s/%s/%s" % (
                 "x".join(map(str, ([cy["rows"]] if ndim == 1 else [cy["rows"], cy["cols"]]))) + ":" +
                 ",".join(map(str, cy["flat"])), case["K"], "classes" if case["explicit"] else "inferred",
                 dname, ren, sname, form),
             "y": cy, "K": case["K"], "explicit": case["explicit"],
             "sent": skind, "dtype": dk, "form": "ndarray" if form == "ndarray" else "list",
             "events": events,
             "concrete": {"y": repr(y_in), "missing_label": repr(sent), "classes": repr(classes),
                          "dtype": dname, "input_as": form + (" (Fortran order)" if fortran else ""),
                          "fit_transform_encoder_configured_before_for_classes": repr(past)}}
    return trace, n


def configs_for(case):
    """the concrete grid of one abstract case (inputs only: what can be stored)"""
    has_missing = -1 in case["y"]["flat"]
    out = []
    for dname, dtype, rens in DTYPES:
        for ren in rens:
            for sname, skind in SENTINELS:
                if has_missing and not (storable(dname, skind) or (dname == "uint8" and sname == "reserved-number")):
                    continue     # the array cannot hold that sentinel
                if sname == "inf" and dname != "float":
                    continue     # (only a float array can hold / be compared with an infinite sentinel)
                out.append((dname, dtype, ren, sname, "ndarray"))
                # a python list carries no dtype when it is empty; object
                # arrays are given as lists only in their supported form
                # (None as the sentinel), otherwise the list is heterogeneous
                if case["y"]["rows"] > 0 and (dname != "object" or skind == "none"):
                    out.append((dname, dtype, ren, sname, "list"))
    return out


def _case_worker(arg):
    case, n_cfg, cseed = arg
    cfgs = configs_for(case)
    if n_cfg and len(cfgs) > n_cfg:
        rng = np.random.default_rng(cseed)
        keep = rng.choice(len(cfgs), size=n_cfg, replace=False)
        cfgs = [cfgs[i] for i in sorted(keep)]
    seen = {}
    n_calls = 0
    n_exec = 0
    for dname, dtype, ren, sname, form in cfgs:
        trace, n = run_config(case, dname, dtype, ren, sname, form)
        n_calls += n
        n_exec += 1
        key = json.dumps([trace["sent"], trace["dtype"], trace["form"], trace["events"]], sort_keys=True)
        if key not in seen:                # identical abstract traces are validated once
            seen[key] = trace
            trace["executions"] = 1
        else:
            seen[key]["executions"] += 1
    return list(seen.values()), n_calls, n_exec


def table_traces():
    """direct calls check_missing_label(sentinel, target_type=...)"""
    from skactiveml.utils import check_missing_label

    class Thing:
        pass

    sentinels = {"nan": [np.nan, float("nan"), np.float64("nan")],
                 "none": [None],
                 "num": [-1, 0, 99, 1.5, np.int64(3), np.float32(2.0)],
                 "str": ["", "nan", "bb", np.str_("x")],
                 "other": [[2], (1, 2), Thing(), {"a": 1}]}
    targets = {"num": [int, float, np.int64, np.float64, np.dtype("float32"), np.dtype("int32")],
               "str": [str, np.str_, np.dtype("U3")],
               "obj": [object, np.dtype(object)],
               "any": [None]}
    dummy = {"ndim": 1, "rows": 0, "cols": 1, "flat": []}
    traces, n = [], 0
    for sk, svals in sentinels.items():
        for dk, tvals in targets.items():
            events, conc = [], []
            for s in svals:
                for t in tvals:
                    kw = {} if t is None else {"target_type": t}
                    ok, out = _try(check_missing_label, s, **kw)
                    n += 1
                    events.append({"ev": "CheckMissing", "sent": sk, "dtype": dk, "raised": not ok,
                                   "exc": "" if ok else out})
                    conc.append("check_missing_label(%r, target_type=%r)" % (s, t))
            traces.append({"id": "check_missing_label/%s/%s" % (sk, dk), "y": dummy, "K": 1, "explicit": False,
                           "sent": sk, "dtype": dk, "form": "ndarray", "events": events,
                           "concrete": {"calls": conc}})
    return traces, n


def _fn_of(rej):
    ev = rej["offending_event"] or {}
    names = {"IsUnlabeled": "is_unlabeled", "IsLabeled": "is_labeled", "UnlabeledIndices": "unlabeled_indices",
             "LabeledIndices": "labeled_indices", "Fit": "ExtLabelEncoder.fit",
             "Transform": "ExtLabelEncoder.transform", "Inverse": "ExtLabelEncoder.inverse_transform",
             "FitTransform": "ExtLabelEncoder.fit_transform", "CheckMissing": "check_missing_label"}
    if ev.get("ev") in ("Raised", "Malformed"):
        fn = ev.get("fn", "?")
        return ("ExtLabelEncoder." + fn) if fn in ("fit", "transform", "inverse_transform", "fit_transform") else fn
    return names.get(ev.get("ev"), ev.get("ev", "end-of-trace"))


def key_of(trace, rej):
    ev = rej["offending_event"] or {}
    what = ",".join(rej["failed_clauses"]) or (
        "raised-" + str(ev.get("exc")) if ev.get("ev") == "Raised" else str(ev.get("ev", "unmatched")).lower())
    shape = "2d" if trace["y"]["ndim"] == 2 else "1d"
    return "%s|sentinel=%s,labels=%s,%s,%s,%s|%s" % (
        _fn_of(rej), trace["sent"], trace["dtype"], trace["form"], shape,
        "classes" if trace["explicit"] else "inferred", what)


def main(tier="quick", seed=0):
    chk = Check("C16", tier, seed)
    import_repo()
    rng = np.random.default_rng(seed)
    quick = tier == "quick"
    # (M)
    chk.model_check("MC_Labels", "MC_Labels.cfg" if quick else "MC_Labels_thorough.cfg")
    # (G)
    cases = chk.generate("MC_Labels", "Labels_gen.cfg" if quick else "Labels_gen_thorough.cfg")
    one_d = [c for c in cases if c["y"]["ndim"] == 1]
    two_d = [c for c in cases if c["y"]["ndim"] == 2]
    if quick:
        # the empty 2-D arrays (0 rows, k columns) are few and a corner of their own: always kept
        empty_2d = [c for c in two_d if c["y"]["rows"] == 0]
        rest = [c for c in two_d if c["y"]["rows"] > 0]
        pick = rng.choice(len(rest), size=min(len(rest), 500), replace=False)
        two_d = empty_2d + [rest[i] for i in sorted(pick)]
    used = one_d + two_d
    n_cfg = 28 if quick else 48     # a seeded subset of the (up to 86) grid configurations per case
    seeds = rng.integers(0, 2 ** 31, size=len(used)).tolist()
    out = pmap(_case_worker, [(c, n_cfg, s) for c, s in zip(used, seeds)])
    traces = []
    n_exec = 0
    for tr, n_calls, n_e in out:
        traces.extend(tr)
        chk.count(n_calls)
        n_exec += n_e
    ttraces, n = table_traces()
    chk.count(n)
    traces.extend(ttraces)
    for t in traces:
        f = t["y"]["flat"]
        if len(f) >= 2 and -1 in f and any(v >= 0 for v in f):
            chk.case((tuple(f), t["y"]["ndim"], t["y"]["cols"], t["K"], t["explicit"], t["sent"], t["dtype"],
                      t["form"]))
    mixed = [t for t in traces if -1 in t["y"]["flat"] and any(v >= 0 for v in t["y"]["flat"])]
    for pool in ([t for t in mixed if t["events"][0]["ev"] != "Raised" and t["y"]["ndim"] == 2],
                 [t for t in mixed if t["events"][0]["ev"] == "Raised"], ttraces):
        if pool:
            chk.sample({"trace": pool[len(pool) // 2]})
    chk.extra["concrete_executions"] = n_exec
    chk.extra["abstract_cases"] = len(used)
    chk.rule = ("cases = initial states of Labels enumerated by TLC (1-D arrays of length <= %d incl. the empty one, "
                "2-D arrays up to 2x3 incl. 0 rows, classes 0..K-1 with K <= 3 and the missing marker, with and "
                "without an explicit class list; quick tier: all 1-D and %d seeded 2-D cases, %s grid "
                "configurations per case); each case is concretised under label dtype x sentinel x class renaming "
                "x input form; traces with identical abstract content are validated once; evaluations = calls of "
                "the library; non-trivial = array with at least one missing and one present label, distinct by "
                "(array, shape, K, class mode, sentinel kind, dtype kind, input form)"
                % (4 if quick else 5, len(two_d), "28 seeded" if quick else "48 seeded"))
    chk.validate("LabelsTrace", traces,
                 describe=lambda t: dict(t["concrete"], functions="skactiveml.utils.is_unlabeled / is_labeled / "
                                         "unlabeled_indices / labeled_indices / ExtLabelEncoder"),
                 key_of=key_of)
    chk.exhaustive = False
    chk.assumptions = [
        "TLC 1.8 evaluates the modules correctly",
        "the projection (class value -> index by ==, sentinel -> -1, anything else -> -99) keeps what the property "
        "speaks about; 'reproduces y' is read as equality of values, not of dtypes",
        "the accept/reject table is the one written in check_missing_label (_label.py:121-160) and asserted by "
        "utils/tests/test_label.py; two corners are deliberately unspecified (any outcome accepted): empty arrays "
        "combined with an incompatible sentinel, and number ndarrays combined with a string sentinel in the "
        "predicates (numpy's common type hides the mismatch, see the Todo in _label.py:58-60)",
        "arrays that cannot store the sentinel (e.g. int arrays and np.nan) are only generated without missing "
        "entries; 2-D arrays have at least one column (documented precondition)",
    ]
    return chk.finish()
