"""C06 - results are reproducible for a fixed random_state.

(M) MC_Determinism: all interleavings of calls on two twin objects with
    reseeding / advancing of numpy's global generator; Reproducible holds for
    the reference and fails for the UsesGlobal deviation.
(G) DetGen: TLC enumerates the schedules (calls on twin A / twin B, reseed
    np.random with one of two seeds, draw from np.random).
(T) every schedule sampled for a subject (pool strategy configuration, stream
    strategy, budget manager, classifier, regressor) is executed on two
    freshly constructed objects with equal parameters; each call logs its key
    (argument id, own history index) and the id of the digest of its complete
    result; DetTrace applies the memo clause.
"""

import warnings

import numpy as np

from .. import abstraction as ab
from .. import tlc, zoo
from ..core import Check, import_repo, pmap
from . import c05, pool_common as pc
from . import stream_common as sc_

ENTRIES = {}


class Ids:
    def __init__(self):
        self.m = {}

    def __call__(self, h):
        if h not in self.m:
            self.m[h] = len(self.m) + 1
        return self.m[h]


def _res_digest(res):
    if isinstance(res, tuple):
        return ab.digest([np.asarray(r, dtype=float) for r in res])
    return ab.digest(np.asarray(res, dtype=float))


def run_schedule(subject, sched, seed, scen):
    """execute one schedule; returns the trace"""
    kind, name = subject
    ids = Ids()
    if kind == "stream-shared":
        # both twins are constructed with the SAME budget manager object, which has already been used through
        # its public API: a strategy works on its own copy, so the twins must still agree
        mgr = sc_.manager_factories()[scen["mgr"]](scen["budget"], 4, seed + 1)
        wr = np.random.RandomState(scen["dseed"] + 5)
        for _ in range(4):
            wu = wr.rand(3)
            wq = mgr.query_by_utility(wu)
            sc_._call_update(mgr, True, np.zeros((3, 1)), wq, wu)
        scen = dict(scen, shared_manager=mgr)
    twins = {"A": _make(kind, name, seed, scen), "B": _make(kind, name, seed, scen)}
    hist = {"A": 0, "B": 0}
    events = []
    for act in sched:
        if act == "seed1":
            np.random.seed(1)
            events.append({"ev": "Global", "what": "np.random.seed(1)"})
        elif act == "seed2":
            np.random.seed(987654)
            events.append({"ev": "Global", "what": "np.random.seed(987654)"})
        elif act == "draw":
            np.random.random(7)
            events.append({"ev": "Global", "what": "np.random.random(7)"})
        else:
            t = twins[act]
            try:
                with warnings.catch_warnings():
                    warnings.simplefilter("ignore")
                    with np.errstate(all="ignore"):
                        with pc.time_limit(120):
                            key, res = t(hist[act])
                events.append({"ev": "Call", "twin": act, "key": key, "res": ids(res)})
            except Exception as ex:
                # failures of the call itself belong to other properties; an exception is a
                # result like any other (it must be reproducible too)
                events.append({"ev": "Call", "twin": act, "key": [0, hist[act] if kind in STATEFUL else 0],
                               "res": ids("raised:" + type(ex).__name__)})
            hist[act] += 1
    return {"id": "%s:%s/%s/seed%d/%s" % (kind, name, "".join(a[0] if a in "AB" else {"seed1": "1", "seed2": "2",
                                                                                       "draw": "d"}[a] for a in sched),
                                           seed, scen.get("tag", "-")),
            "events": events,
            "concrete": {"subject": list(subject), "schedule": sched, "seed": seed,
                         "scenario": {k: v for k, v in scen.items() if k != "shared_manager"},
                         "how": "harness.drivers.c06.run_schedule(subject, schedule, seed, scenario)"}}


STATEFUL = {"stream", "manager", "stream-shared"}


def _make(kind, name, seed, scen):
    """returns call(history_index) -> (key, result digest) for a fresh object"""
    if kind == "pool":
        entry = ENTRIES[name]
        conc = pc.concretise(scen["sc"], entry, scen["dseed"])
        # random_state as an integer or as a RandomState instance (each twin gets its own instance in the
        # same state; the strategy must work on a copy and leave the caller's instance alone)
        qs = entry.make(np.random.RandomState(seed) if scen.get("rs_instance") else seed, np.nan, (0, 1))

        # committees handed over FITTED (fit_ensemble=False): the caller's member objects serve every call of the
        # history; what a query does with them (predictions that break ties with the members' own generators) must
        # not make the next identical call differ
        shared_kw = None
        if scen.get("prefit") and entry.model == "ensemble" and len(conc["X"]) and \
                not np.all(np.isnan(conc["y"])):
            shared_kw = zoo.model_kwargs(entry, np.nan, (0, 1), seed=seed, variant=0)      # (variant 0: a list)
            with warnings.catch_warnings():
                warnings.simplefilter("ignore")
                for m_ in shared_kw["ensemble"]:
                    m_.fit(conc["X"], conc["y"])
            shared_kw["fit_ensemble"] = False

        def call(h):
            kw = shared_kw if shared_kw is not None else \
                zoo.model_kwargs(entry, np.nan, (0, 1), seed=seed, variant=scen["variant"])
            cand = conc["candidates"]
            res = qs.query(conc["X"].copy(), conc["y"].copy(), candidates=None if cand is None else np.array(cand),
                           batch_size=conc["batch_size"], return_utilities=True, **kw)
            return [1, 0], _res_digest(res)
        return call
    if kind in ("stream", "manager", "stream-shared"):
        rng = np.random.RandomState(scen["dseed"])
        n_steps, width = 4, 5
        Xs = rng.randint(0, 6, size=(n_steps * width, 1)).astype(float)
        us = rng.rand(n_steps * width)
        clf, _, _ = sc_.make_clf(scen["dseed"])
        if kind == "manager":
            obj = sc_.manager_factories()[name](scen["budget"], 4, seed)
        elif kind == "stream-shared":
            fac, _ = sc_.strategy_factories()[name]
            obj = fac(None, seed, manager=scen["shared_manager"])
        else:
            fac, _ = sc_.strategy_factories()[name]
            obj = fac(scen["budget"], seed)

        def call(h):
            h = h % n_steps
            cand = Xs[h * width:(h + 1) * width]
            u = us[h * width:(h + 1) * width]
            q, ut = sc_._call_query(obj, kind == "manager", cand, u, clf, name)
            sc_._call_update(obj, kind == "manager", cand.copy(), q, ut)
            return [1, h], ab.digest([np.asarray(q, dtype=float), np.asarray(ut, dtype=float)])
        return call
    if kind == "clf":
        rng = np.random.RandomState(scen["dseed"])
        X = pc.make_X(6, scen["geom"], rng)
        y = np.full(6, np.nan)
        y[:scen["nlab"]] = np.arange(scen["nlab"]) % 2
        Xt = np.vstack([X, X.mean(axis=0, keepdims=True)])
        clf = CLFS[name](seed)
        if scen.get("sampler") is not None:
            # a classifier fitted ONCE and asked several times for probability vectors sampled with an explicit seed
            # (0 is a seed like any other): every answer must be the same, on this object and on its twin
            fitted = clf.fit(X, y)

            def call(h):
                return [1, 0], ab.digest([np.asarray(fitted.sample_proba(Xt, n_samples=2, random_state=scen["sampler"]),
                                                     dtype=float)])
            return call

        def call(h):
            c = clf.fit(X, y) if not name.startswith("Annotator") else clf.fit(X, np.tile(y[:, None], (1, 2)))
            out = [np.asarray(c.predict(Xt), dtype=float), np.asarray(c.predict_proba(Xt), dtype=float)]
            return [1, 0], ab.digest(out)
        return call
    if kind == "reg":
        rng = np.random.RandomState(scen["dseed"])
        X = pc.make_X(6, scen["geom"], rng)
        y = np.full(6, np.nan)
        y[:scen["nlab"]] = rng.normal(size=scen["nlab"]).round(2)
        reg = REGS[name](seed)

        def call(h):
            r = reg.fit(X, y)
            out = [np.asarray(r.predict(X), dtype=float)]
            if hasattr(r, "sample_y"):
                out.append(np.asarray(r.sample_y(X, n_samples=3, random_state=seed), dtype=float))
            return [1, 0], ab.digest(out)
        return call
    raise ValueError(kind)


def _clfs():
    from sklearn.linear_model import LogisticRegression
    from sklearn.mixture import BayesianGaussianMixture
    from sklearn.naive_bayes import GaussianNB
    from sklearn.tree import DecisionTreeClassifier

    from skactiveml.classifier import (MixtureModelClassifier, ParzenWindowClassifier, SklearnClassifier,
                                       SlidingWindowClassifier)
    from skactiveml.classifier.multiannotator import AnnotatorEnsembleClassifier, AnnotatorLogisticRegression

    return {
        "ParzenWindowClassifier": lambda s: ParzenWindowClassifier(classes=[0, 1], random_state=s),
        "ParzenWindowClassifier(cost)": lambda s: ParzenWindowClassifier(classes=[0, 1], random_state=s,
                                                                        cost_matrix=1 - np.eye(2)),
        "ParzenWindowClassifier(class_prior=1)": lambda s: ParzenWindowClassifier(classes=[0, 1], class_prior=1.0,
                                                                                 random_state=s),
        "MixtureModelClassifier(class_prior=1)": lambda s: MixtureModelClassifier(classes=[0, 1], class_prior=1.0,
                                                                                 random_state=s),
        "MixtureModelClassifier": lambda s: MixtureModelClassifier(classes=[0, 1], random_state=s),
        "MixtureModelClassifier(bgm)": lambda s: MixtureModelClassifier(
            mixture_model=BayesianGaussianMixture(n_components=2, random_state=s), classes=[0, 1], random_state=s),
        "SklearnClassifier(GaussianNB)": lambda s: SklearnClassifier(GaussianNB(), classes=[0, 1], random_state=s),
        "SklearnClassifier(DecisionTree)": lambda s: SklearnClassifier(DecisionTreeClassifier(max_features=1, random_state=s),
                                                                       classes=[0, 1], random_state=s),
        "SklearnClassifier(LogisticRegression)": lambda s: SklearnClassifier(LogisticRegression(), classes=[0, 1],
                                                                             random_state=s),
        "SlidingWindowClassifier": lambda s: SlidingWindowClassifier(
            ParzenWindowClassifier(classes=[0, 1], random_state=s), classes=[0, 1], random_state=s),
        "AnnotatorEnsembleClassifier": lambda s: AnnotatorEnsembleClassifier(
            estimators=[("a", ParzenWindowClassifier(classes=[0, 1], random_state=s)),
                        ("b", ParzenWindowClassifier(classes=[0, 1], random_state=s))], classes=[0, 1], random_state=s),
        "AnnotatorLogisticRegression": lambda s: AnnotatorLogisticRegression(classes=[0, 1], random_state=s, max_iter=5),
    }


def _regs():
    from sklearn.gaussian_process import GaussianProcessRegressor
    from sklearn.tree import DecisionTreeRegressor

    from skactiveml.regressor import (NadarayaWatsonRegressor, NICKernelRegressor, SklearnNormalRegressor,
                                      SklearnRegressor)

    return {
        "NICKernelRegressor": lambda s: NICKernelRegressor(random_state=s),
        "NadarayaWatsonRegressor": lambda s: NadarayaWatsonRegressor(random_state=s),
        "SklearnRegressor(DecisionTree)": lambda s: SklearnRegressor(DecisionTreeRegressor(max_features=1, random_state=s),
                                                                     random_state=s),
        "SklearnNormalRegressor(GP)": lambda s: SklearnNormalRegressor(GaussianProcessRegressor(random_state=s), random_state=s),
    }


CLFS, REGS = {}, {}


def _job(arg):
    subject, sched, seed, scen = arg
    return run_schedule(tuple(subject), sched, seed, scen)


def finding_key(tr, rej):
    return "%s|%s" % (tr["id"].split("/")[0], ",".join(rej["failed_clauses"]) or "unmatched")


def main(tier="quick", seed=0):
    chk = Check("C06", tier, seed)
    import_repo()
    quick = tier == "quick"
    rng = np.random.default_rng(seed + 6)
    ENTRIES.update({e.name: e for e in zoo.entries() + c05.extra_entries()})
    ENTRIES.update({e.name: e for e in zoo.wrapper_entries(mcs=(0.5,)) if "exclude_non_subsample=False" in e.name})
    CLFS.update(_clfs())
    REGS.update(_regs())
    chk.model_check("Determinism", "MC_Determinism.cfg")
    chk.model_check("Determinism", "MC_Determinism_stateless.cfg")
    dev = tlc.run_tlc("Determinism", "MC_Determinism_dev.cfg", timeout=600)
    if not any("Reproducible" in e for e in dev.errors):
        raise tlc.MachineryError("the UsesGlobal deviation of Determinism.tla does not violate Reproducible")
    scheds = [s["sched"] for s in chk.generate("DetGen", "DetGen.cfg")]
    scheds = [s for s in scheds if any(a not in "AB" for a in s)]          # at least one global action
    scens = [s for s in chk.generate("PoolGen", "PoolGen.cfg") if s["n"] >= 3]
    scens += pc.random_scenarios(rng, len(scens) // 2, 6, 12)
    subjects = []
    per = {1: 30, 2: 12, 3: 4} if quick else {1: 300, 2: 100, 3: 25}
    for e in ENTRIES.values():
        pool = [s for s in scens if pc.applicable(e, s)]
        for n_ in range(per[e.cost]):
            sc = pool[int(rng.integers(len(pool)))]
            subjects.append((("pool", e.name), {"sc": sc, "dseed": int(rng.integers(1000)), "variant": n_ % 2,
                                                "rs_instance": bool(n_ % 3 == 2), "prefit": bool(n_ % 2 == 1),
                                                "tag": pc.scenario_tag(sc) + ("-rsinst" if n_ % 3 == 2 else "")}))
    # larger pools (20-40 samples, batches of 4-8) for the strategies that cluster or sample: with a handful of
    # points a clustering is the same for every initialisation and an unseeded estimator goes unnoticed
    big = [x for x in pc.random_scenarios(rng, 400, 20, 40) if x["mode"] in ("none", "idx") and len(x["labeled"]) >= 2]
    for x in big:
        x["bs"] = int(rng.integers(4, 9))
    for e in ENTRIES.values():
        if e.cls_name in ("TypiClust", "ProbCover", "Clue", "DropQuery", "RegressionTreeBasedAL", "Badge", "Falcun",
                          "CoreSet", "ContrastiveAL", "FourDs", "DiscriminativeAL"):
            pool = [s for s in big if pc.applicable(e, s)]
            for n_ in range(3 if quick else 20):
                sc = pool[int(rng.integers(len(pool)))]
                subjects.append((("pool", e.name), {"sc": sc, "dseed": int(rng.integers(1000)), "variant": n_ % 2,
                                                    "rs_instance": False, "tag": pc.scenario_tag(sc) + "-big"}))
    reps = 10 if quick else 60
    for name in sorted(sc_.strategy_factories()):
        for _ in range(reps):
            subjects.append((("stream", name), {"dseed": int(rng.integers(1000)), "budget": float(rng.choice([0.25, 0.5, 1.0]))}))
    mgr_names = sorted(sc_.manager_factories())
    for name in sorted(n_ for n_, (f_, takes) in sc_.strategy_factories().items() if takes):
        for r_ in range(max(2, reps // 3)):
            subjects.append((("stream-shared", name), {"dseed": int(rng.integers(1000)),
                                                       "budget": float(rng.choice([0.25, 0.5, 1.0])),
                                                       "mgr": mgr_names[int(rng.integers(len(mgr_names)))]}))
    for name in sorted(sc_.manager_factories()):
        for _ in range(reps):
            subjects.append((("manager", name), {"dseed": int(rng.integers(1000)), "budget": float(rng.choice([0.25, 0.5, 1.0]))}))
    geoms = ["distinct", "duplicates", "all-equal"]
    for name in sorted(CLFS):
        for n_ in range(reps):
            subjects.append((("clf", name), {"dseed": int(rng.integers(1000)), "geom": geoms[n_ % 3], "nlab": [0, 1, 4][n_ % 3]}))
    for name in ("ParzenWindowClassifier(class_prior=1)", "MixtureModelClassifier(class_prior=1)"):
        for n_ in range(reps):
            subjects.append((("clf", name), {"dseed": int(rng.integers(1000)), "geom": geoms[n_ % 3],
                                             "nlab": [0, 1, 4][n_ % 3], "sampler": [0, 3][n_ % 2]}))
    for name in sorted(REGS):
        for n_ in range(reps):
            subjects.append((("reg", name), {"dseed": int(rng.integers(1000)), "geom": geoms[n_ % 3], "nlab": [1, 2, 4][n_ % 3]}))
    jobs = []
    for subject, scen in subjects:
        sched = scheds[int(rng.integers(len(scheds)))]
        jobs.append((list(subject), sched, int(rng.integers(0, 50)), scen))
    traces = pmap(_job, jobs, chunksize=2)
    chk.count(sum(sum(1 for e in t["events"] if e["ev"] == "Call") for t in traces))
    for t in traces:
        chk.case((t["id"].split("/")[0], t["id"].split("/")[1], t["id"].split("/")[-1]))
    chk.sample({"trace": {k: v for k, v in traces[0].items() if k != "concrete"}})
    chk.rule = ("one trace = one TLC-enumerated schedule (2-5 steps over call-on-twin-A, call-on-twin-B, np.random.seed "
                "with two seeds, np.random.random) executed for one subject: %d pool strategy configurations on "
                "PoolGen scenarios, %d stream strategies and %d budget managers (each call = query+update of the next "
                "chunk), %d classifiers (fit/predict/predict_proba incl. cold start ties), %d regressors (fit/predict/"
                "sample_y); evaluations = calls" % (len(ENTRIES), len(sc_.strategy_factories()),
                                                    len(sc_.manager_factories()), len(CLFS), len(REGS)))
    chk.validate("DetTrace", traces, key_of=finding_key, describe=lambda t: t["concrete"])
    chk.assumptions = ["a result is the digest of all returned arrays (indices and utilities / predictions) - bitwise "
                       "equality", "np.random.get_state() is not a verdict (third-party estimators draw unused seeds)",
                       "estimator arguments without their own random_state parameter set by the harness are seeded "
                       "by the harness (zoo models use random_state=seed); wrapped scikit-learn estimators get "
                       "their own random_state (the wrappers do not propagate theirs - the nested parameter is part of "
                       "the constructor parameters)"]
    return chk.finish()
