"""X05 - beyond the listed properties: the stream active-learning cycle
(query -> update -> partial_fit, one instance at a time, as in the
documentation's stream examples) against StreamLoop.tla, which composes the
budget layer (Budget.tla) with the training window of SlidingWindowClassifier.

Not registered in MANIFEST.json.  (M) MC_StreamLoop model-checks the budget
bound, "labels only where acquired", "window = latest instances" and "model
fitted on the window" for PeriodicSampling / StreamRandomSampling and verifies
that a cycle that leaks unacquired labels violates OnlyAcquiredLabels; (T)
seeded streams are run through the real strategy + SlidingWindowClassifier loop
and StreamLoopTrace validates every cycle."""

import warnings
from fractions import Fraction

import numpy as np

from .. import abstraction as ab
from ..core import Check, import_repo, pmap
from . import budget_common as bc

M = -1
PROBES = np.array([[0.5, 0.5], [2.0, 1.0], [4.5, -1.0], [7.0, 2.0]])


def feat(i):
    return [float(i % 9), float((i * i) % 5) - 1.5]


def _digest(obj):
    with warnings.catch_warnings():
        warnings.simplefilter("ignore")
        return ab.digest(np.round(np.asarray(obj.predict_proba(PROBES), dtype=float), 9))


def _job(arg):
    from sklearn.base import clone

    from skactiveml.classifier import ParzenWindowClassifier, SlidingWindowClassifier

    kind, B, wsize, n, seed = arg
    prm = bc.default_params(kind, 2, B, allow=False)
    b = float(Fraction(*B))
    ref = bc.RefStream(seed, n + 4, b, prm["v"]) if kind in bc.RNG_OBJ_KINDS else None
    qs = bc.make(kind, prm, seed)
    est = ParzenWindowClassifier(classes=[0, 1], metric_dict={"gamma": 0.2}, random_state=0)
    clf = SlidingWindowClassifier(est, classes=[0, 1], window_size=None if wsize == 0 else wsize, random_state=0)
    rng = np.random.RandomState(seed + 11)
    ids = {}
    events = []
    P = {k: prm[k] for k in ("kind", "W", "B", "S", "Theta0", "K", "WTol", "Allow", "Stale", "Sharp")}
    for t in range(1, n + 1):
        x = np.array([feat(t)])
        lab = int(rng.randint(2))
        try:
            with warnings.catch_warnings():
                warnings.simplefilter("ignore")
                sampled, _ = qs.query(candidates=x.copy(), return_utilities=True)
                qs.update(candidates=x.copy(), queried_indices=np.asarray(sampled, dtype=int))
                q = len(np.asarray(sampled)) > 0
                clf.partial_fit(x, np.array([float(lab) if q else np.nan]))
            Xw = [np.asarray(r, dtype=float).ravel() for r in clf.X_train_]
            yw = [float(v) for v in clf.y_train_]
            # window ids: the harness numbers the instances; feat is not injective, so the position in the stream
            # is recovered from the window length (the window holds consecutive instances) and checked row by row
            k = len(Xw)
            cand_ids = list(range(t - k + 1, t + 1))
            ok_rows = all(list(r) == feat(i) for r, i in zip(Xw, cand_ids))
            ref_m = clone(est)
            with warnings.catch_warnings():
                warnings.simplefilter("ignore")
                ref_m.fit(np.array(Xw).reshape(k, 2), np.array(yw))
            ev = {"ev": "Cycle", "lab": lab, "q": bool(q), "win": cand_ids if ok_rows else [-7],
                  "wlabs": [M if v != v else int(v) for v in yw], "st": bc.project(qs, kind, prm, ref),
                  "pred": ids.setdefault(_digest(clf), len(ids) + 1), "ref": ids.setdefault(_digest(ref_m), len(ids) + 1)}
        except Exception as ex:
            ev = {"ev": "Raised", "exc": "%s: %s" % (type(ex).__name__, str(ex)[:160])}
        events.append(ev)
        if ev["ev"] != "Cycle":
            break
    return {"id": "%s/B%d_%d/window%s/n%d/seed%d" % (kind, B[0], B[1], wsize or None, n, seed), "P": P, "wsize": wsize,
            "rnd": ref.rnd if (ref is not None and kind in bc.RND_KINDS) else [], "events": events,
            "concrete": {"strategy": kind, "budget": b, "window_size": wsize or None, "n": n, "seed": seed,
                         "how": "harness.drivers.x05._job((kind, B, window_size, n, seed))"}}


def main(tier="quick", seed=0):
    chk = Check("X05", tier, seed)
    import_repo()
    from .c12 import expect_violation

    chk.model_check("MC_StreamLoop", "MC_StreamLoop_Periodic.cfg")
    chk.model_check("MC_StreamLoop", "MC_StreamLoop_StreamRandom.cfg")
    expect_violation(chk, "MC_StreamLoop_leak.cfg", "OnlyAcquiredLabels", module="MC_StreamLoop")
    rng = np.random.default_rng(seed + 5)
    jobs = []
    for kind in ("Periodic", "StreamRandom"):
        for _ in range(60 if tier == "quick" else 1500):
            B = [(1, 2), (1, 4), (3, 4), (1, 8), (3, 8), (1, 1)][int(rng.integers(6))]
            jobs.append((kind, B, int(rng.choice([0, 1, 3, 5])), int(rng.integers(4, 14)), int(rng.integers(0, 1000))))
    traces = pmap(_job, jobs)
    chk.count(sum(len(t["events"]) for t in traces))
    for t in traces:
        chk.case(t["id"])
    chk.sample({"trace": {k: v for k, v in traces[0].items() if k != "concrete"}})
    chk.rule = ("seeded streams of 4-13 instances with random true labels, dyadic budgets, window sizes None/1/3/5, run "
                "through PeriodicSampling / StreamRandomSampling(allow_exceeding_budget=False) + "
                "SlidingWindowClassifier(ParzenWindowClassifier); one event per cycle")
    chk.validate("StreamLoopTrace", traces, describe=lambda t: t["concrete"],
                 key_of=lambda t, r: "%s|%s" % (t["id"].split("/")[0], ",".join(r["failed_clauses"]) or "unmatched"))
    chk.assumptions = ["exact regime of Budget.tla (dyadic budgets); the reference model is fitted by the harness on the "
                       "observed window, which the window clauses tie to the specification"]
    return chk.finish()
