"""X06 - beyond the listed properties: AnnotatorEnsembleClassifier (one member
classifier per annotator, hard / soft voting) against Ensemble.tla.

Not registered in MANIFEST.json.  C09 / C11 / C13 check the ensemble's outputs
for encoding invariance, validity and history-freeness, but none of them says
WHICH distribution it is: an ensemble whose members are all trained on the
first annotator's column passes all three.  (M) MC_Ensemble model-checks the
design (rows are distributions, every member answers its own annotator's
labels, unanimous points are predicted as labeled, the decision has maximal
share) and verifies that the shared-column deviation violates OwnColumn; (T)
seeded label matrices (4 training points x 3 annotators x 3 classes, missing
entries, sample weights, three label encodings, both voting schemes, members
with declared or inferred classes) are run through the real ensemble built
from memorising members (narrow-kernel ParzenWindowClassifier with a vanishing
prior on the first class); EnsembleTrace PREDICTS the probability matrix and
the decisions from the label matrix alone."""

import warnings

import numpy as np

from ..core import Check, import_repo, pmap

M = -1
NPTS, NMEM, NCLS = 4, 3, 3
ENCODINGS = {"int": ([0, 1, 2], np.nan, float), "offset": ([10, 20, 30], -1, int),
             "str": (["aa", "b", "cc"], "unlabeled", object)}
POINTS = np.array([[0.0, 0.0], [3.0, 1.0], [-2.0, 4.0], [5.0, -3.0]])


def _member(classes, ml):
    from skactiveml.classifier import ParzenWindowClassifier

    # class 0 is the answer where the annotator gave no label; 1e-6 is far above the kernel mass of the other
    # training points (exp(-50 * 10) at the closest pair) and far below one label
    return ParzenWindowClassifier(classes=classes, missing_label=ml, metric_dict={"gamma": 50.0},
                                  class_prior=[1e-6, 0.0, 0.0], random_state=0)


def _encode(Y, enc):
    classes, ml, dt = ENCODINGS[enc]
    rows = [[ml if v == M else classes[int(v)] for v in r] for r in Y.tolist()]
    return np.array(rows, dtype=float) if dt is float else np.array(rows)    # (strings: a '<U9' array)


def _job(arg):
    from skactiveml.classifier.multiannotator import AnnotatorEnsembleClassifier

    seed, enc, voting, declared, weighted, perm = arg
    rng = np.random.RandomState(seed)
    classes, ml, _ = ENCODINGS[enc]
    order = rng.permutation(NPTS) if perm else np.arange(NPTS)
    X = POINTS[order] + (rng.randint(-1, 2, size=(NPTS, 2)) / 8.0)
    events = []
    hist = []
    n_fits = 1 + int(rng.randint(2))
    try:
        ests = [("m%d" % i, _member(classes if declared else None, ml)) for i in range(NMEM)]
        clf = AnnotatorEnsembleClassifier(ests, voting=voting, classes=classes, missing_label=ml, random_state=seed)
        for _ in range(n_fits):       # (a second fit on another label matrix: the members are rebuilt)
            Y = rng.randint(0, NCLS, size=(NPTS, NMEM))
            Y[rng.rand(NPTS, NMEM) < 0.3] = M
            if rng.rand() < 0.3:
                Y[int(rng.randint(NPTS)), :] = int(rng.randint(NCLS))      # a unanimous point
            W = rng.randint(1, 3, size=(NPTS, NMEM)).astype(float) if weighted else None
            y = _encode(Y, enc)
            hist.append({"y": y.tolist(), "sample_weight": None if W is None else W.tolist()})
            with warnings.catch_warnings():
                warnings.simplefilter("ignore")
                clf.fit(X.copy(), y.copy(), None if W is None else W.copy())
                # fresh members fitted by the harness, each on its own annotator column
                ref = []
                for i in range(NMEM):
                    m = _member(classes, ml).fit(X.copy(), y[:, i].copy(), None if W is None else W[:, i].copy())
                    ref.append([classes.index(v) if v in classes else -7 for v in m.predict(X).tolist()])
                P = np.asarray(clf.predict_proba(X), dtype=float)
                pred = clf.predict(X).tolist()
            events.append({"ev": "Fit", "y": Y.tolist(), "ref": ref})
            if P.shape != (NPTS, NCLS) or not np.isfinite(P).all():
                events.append({"ev": "Malformed", "shape": list(P.shape)})
                break
            cnt = P * NMEM
            events.append({"ev": "Proba", "cnt": [[int(round(v)) if abs(v - round(v)) < 1e-4 else -7 for v in r]
                                                   for r in cnt.tolist()]})
            events.append({"ev": "Predict", "pred": [classes.index(v) if v in classes else -7 for v in pred]})
    except Exception as ex:
        events.append({"ev": "Raised", "exc": "%s: %s" % (type(ex).__name__, str(ex)[:160])})
    return {"id": "AnnotatorEnsembleClassifier(%s,members=%s)/%s/%s/seed%d" % (
                voting, "declared" if declared else "inferred", enc, "weights" if weighted else "no-weights", seed),
            "voting": voting, "events": events,
            "concrete": {"voting": voting, "classes": classes, "missing_label": repr(ml), "X": X.tolist(),
                         "fits": hist, "members": "ParzenWindowClassifier(gamma=50, class_prior=[1e-6,0,0], "
                                                   "classes=%s)" % ("declared" if declared else "None"),
                         "queried": "predict_proba(X), predict(X) on the training points",
                         "how": "harness.drivers.x06._job((seed, encoding, voting, declared, weighted, permuted))"}}


def _key(t, r):
    ev = r["offending_event"] or {}
    return "AnnotatorEnsembleClassifier|%s|%s" % (t["voting"], ",".join(r["failed_clauses"]) or
                                                 "unmatched:%s %s" % (ev.get("ev", "end"), str(ev.get("exc", ""))[:60]))


def main(tier="quick", seed=0):
    chk = Check("X06", tier, seed)
    import_repo()
    from .c12 import expect_violation

    chk.model_check("MC_Ensemble", "MC_Ensemble.cfg")
    expect_violation(chk, "MC_Ensemble_shared.cfg", "OwnColumn", module="MC_Ensemble")
    rng = np.random.default_rng(seed + 6)
    jobs = []
    for _ in range(600 if tier == "quick" else 20000):
        jobs.append((int(rng.integers(0, 10 ** 6)), ["int", "offset", "str"][int(rng.integers(3))],
                     ["hard", "soft"][int(rng.integers(2))], bool(rng.integers(2)), bool(rng.integers(2)),
                     bool(rng.integers(2))))
    traces = pmap(_job, jobs)
    chk.count(sum(len(t["events"]) for t in traces))
    for t in traces:
        chk.case(t["id"])
    chk.sample({"trace": {k: v for k, v in traces[0].items() if k != "concrete"}})
    chk.rule = ("seeded label matrices (4 points x 3 annotators x 3 classes, 30 % missing entries, optional unanimous "
                "point, optional sample weights), 3 label encodings, hard / soft voting, members with declared or "
                "inferred classes, one or two fits per object; ensemble of memorising ParzenWindowClassifier members "
                "queried on its training points")
    chk.validate("EnsembleTrace", traces, describe=lambda t: t["concrete"], key_of=_key)
    chk.assumptions = ["members are memorising classifiers (narrow kernel, vanishing prior on the first class), so "
                       "that the specification can predict every output from the label matrix; the clause "
                       "members-answer-their-own-annotators-labels ties this abstraction to fresh members fitted by "
                       "the harness"]
    return chk.finish()
