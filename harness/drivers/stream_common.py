"""Recording query/update histories of every stream strategy and budget manager
for validation against StreamProto.tla (abstract committed state = digest of
all fitted attributes, nested budget manager and generator states included).

Run A issues extra queries (repeated and with other candidates) between the
real query and update of every step; its twin B does not.  Nothing is judged
here; TLC compares."""

import math
import re
import warnings
from collections import deque

import numpy as np

from .. import abstraction as ab


# --------------------------------------------------------------------------
def _state_of(obj, depth=0):
    out = {}
    for k, v in sorted(vars(obj).items()):
        if not k.endswith("_"):
            continue
        out[k] = _canon(v, depth)
    return out


def _canon(v, depth=0):
    from sklearn.base import BaseEstimator

    if isinstance(v, np.random.RandomState):
        st = v.get_state()
        return ("rs", st[1].tobytes(), int(st[2]), int(st[3]), float(st[4]))
    if isinstance(v, deque):
        return ("deque", v.maxlen, [_canon(x, depth) for x in v])
    if isinstance(v, (list, tuple)):
        return [_canon(x, depth) for x in v]
    if isinstance(v, dict):
        return {k: _canon(x, depth) for k, x in v.items()}
    if isinstance(v, BaseEstimator) and depth < 3:
        return ("est", type(v).__name__, _canon(v.get_params(deep=False), depth + 1), _state_of(v, depth + 1))
    if isinstance(v, np.ndarray):
        return v
    if isinstance(v, (np.generic,)):
        return v.item()
    if callable(v):
        return ("callable", getattr(v, "__name__", type(v).__name__))
    return v


def state_digest(obj):
    return ab.digest(_state_of(obj))


def flat_state(obj, prefix="", depth=0):
    """attribute path -> digest, nested estimators flattened (budget_manager_.u_t_ ...)"""
    from sklearn.base import BaseEstimator

    out = {}
    for k, v in sorted(vars(obj).items()):
        if not k.endswith("_"):
            continue
        if k == "n_features_in_":
            # input bookkeeping: every validating call re-derives it from its own argument (reset=True; the
            # baselines' update validates a dummy candidate with one feature) - no decision reads it
            continue
        if isinstance(v, BaseEstimator) and depth < 3:
            out[prefix + k + "#params"] = ab.digest(_canon(v.get_params(deep=False), depth + 1))
            out.update(flat_state(v, prefix + k + ".", depth + 1))
        else:
            out[prefix + k] = ab.digest(_canon(v, depth))
    return out


def restricted_digest(state, keys):
    """digest of `state` restricted to `keys` (attributes that existed at the previous event): an attribute
    that a call creates lazily with its initial value is not a change of state, a vanished one is"""
    return ab.digest({k: state.get(k, "MISSING") for k in sorted(keys)})


class Ids:
    """hex digests -> small integers (0 is reserved for 'not initialised')"""

    def __init__(self):
        self.m = {}

    def __call__(self, h):
        if h not in self.m:
            self.m[h] = len(self.m) + 1
        return self.m[h]


# --------------------------------------------------------------------------
# registry of stream strategies and budget managers
def _bm():
    from skactiveml.stream import budgetmanager as bm

    return bm


def manager_factories():
    bm = _bm()
    return {
        "FixedUncertaintyBudgetManager": lambda b, w, seed: bm.FixedUncertaintyBudgetManager(classes=[0, 1], w=w, budget=b),
        "VariableUncertaintyBudgetManager": lambda b, w, seed: bm.VariableUncertaintyBudgetManager(w=w, budget=b, s=0.05),
        "RandomVariableUncertaintyBudgetManager": lambda b, w, seed: bm.RandomVariableUncertaintyBudgetManager(
            w=w, budget=b, s=0.05, delta=0.5, random_state=seed),
        "SplitBudgetManager": lambda b, w, seed: bm.SplitBudgetManager(w=w, budget=b, v=0.3, s=0.05, random_state=seed),
        "RandomBudgetManager": lambda b, w, seed: bm.RandomBudgetManager(w=w, budget=b, random_state=seed),
        "DensityBasedSplitBudgetManager": lambda b, w, seed: bm.DensityBasedSplitBudgetManager(
            budget=b, s=0.05, delta=0.5, random_state=seed),
        "BalancedIncrementalQuantileFilter": lambda b, w, seed: bm.BalancedIncrementalQuantileFilter(
            w=w, w_tol=max(2, w // 2), budget=b),
        "VariableUncertaintyBudgetManager(theta=0.7)": lambda b, w, seed: bm.VariableUncertaintyBudgetManager(
            w=w, budget=b, s=0.05, theta=0.7),
        "SplitBudgetManager(theta=0.7)": lambda b, w, seed: bm.SplitBudgetManager(w=w, budget=b, v=0.3, s=0.05,
                                                                                    theta=0.7, random_state=seed),
        "DensityBasedSplitBudgetManager(theta=0.7)": lambda b, w, seed: bm.DensityBasedSplitBudgetManager(
            budget=b, s=0.05, delta=0.5, theta=0.7, random_state=seed),
    }


def bound_of(manager):
    """(bound kind, w) of C04 for a budget manager / baseline strategy object"""
    name = type(manager).__name__
    if name in ("FixedUncertaintyBudgetManager", "VariableUncertaintyBudgetManager",
                "RandomVariableUncertaintyBudgetManager", "SplitBudgetManager", "RandomBudgetManager"):
        return "window", int(manager.w)
    if name == "DensityBasedSplitBudgetManager":
        return "density", 1
    if name == "PeriodicSampling":
        return "strict", 1
    if name == "StreamRandomSampling" and not manager.allow_exceeding_budget:
        return "strict", 1
    return "none", 1


def strategy_factories():
    from skactiveml import stream as st

    def mk(cls, **fixed):
        def f(budget, seed, manager=None):
            kw = dict(fixed)
            if manager is not None:
                # (documented: with an explicit manager the manager is used as is; a strategy budget that differs
                #  from the manager's only triggers a warning - half of the objects are built that way)
                kw["budget_manager"] = manager
                other = None if seed % 2 else (0.9 if (manager.budget or 0.1) < 0.5 else 0.05)
                return cls(budget=other, random_state=seed, **kw)
            return cls(budget=budget, random_state=seed, **kw)
        return f

    def mk_nomgr(cls, **fixed):
        def f(budget, seed, manager=None):
            return cls(budget=budget, random_state=seed, **fixed)
        return f

    return {
        "StreamRandomSampling": (mk_nomgr(st.StreamRandomSampling, allow_exceeding_budget=False), False),
        "StreamRandomSampling(exceed)": (mk_nomgr(st.StreamRandomSampling, allow_exceeding_budget=True), False),
        "PeriodicSampling": (mk_nomgr(st.PeriodicSampling), False),
        "FixedUncertainty": (mk(st.FixedUncertainty, classes=[0, 1]), True),
        "VariableUncertainty": (mk(st.VariableUncertainty), True),
        "RandomVariableUncertainty": (mk(st.RandomVariableUncertainty), True),
        "Split": (mk(st.Split), True),
        "StreamProbabilisticAL": (mk(st.StreamProbabilisticAL), True),
        "StreamDensityBasedAL": (mk(st.StreamDensityBasedAL, window_size=6), True),
        "CognitiveDualQueryStrategy": (mk(st.CognitiveDualQueryStrategy, cognition_window_size=4), True),
        "CognitiveDualQueryStrategy(full)": (mk(st.CognitiveDualQueryStrategy, cognition_window_size=4,
                                                force_full_budget=True), True),
        # parameter sweep: documented non-default values of the parameters the entries above leave alone
        "StreamProbabilisticAL(prior=0.5,m_max=2)": (mk(st.StreamProbabilisticAL, prior=0.5, m_max=2), True),
        "StreamProbabilisticAL(rbf)": (mk(st.StreamProbabilisticAL, metric="rbf"), True),
        "StreamDensityBasedAL(manhattan)": (mk(st.StreamDensityBasedAL, window_size=6,
                                               dist_func_dict={"metric": "manhattan"}), True),
        "CognitiveDualQueryStrategy(density_threshold=2,manhattan)": (
            mk(st.CognitiveDualQueryStrategy, cognition_window_size=4, density_threshold=2,
               dist_func_dict={"metric": "manhattan"}), True),
        "CognitiveDualQueryStrategyRan": (mk_nomgr(st.CognitiveDualQueryStrategyRan, cognition_window_size=4), False),
        "CognitiveDualQueryStrategyRanVarUn": (mk_nomgr(st.CognitiveDualQueryStrategyRanVarUn,
                                                        cognition_window_size=4, force_full_budget=True), False),
        "CognitiveDualQueryStrategyVarUn": (mk_nomgr(st.CognitiveDualQueryStrategyVarUn, cognition_window_size=4), False),
        "CognitiveDualQueryStrategyFixUn": (mk_nomgr(st.CognitiveDualQueryStrategyFixUn, classes=[0, 1],
                                                     cognition_window_size=4, force_full_budget=True), False),
    }


BASELINES = ("StreamRandomSampling", "StreamRandomSampling(exceed)", "PeriodicSampling")
# strategies whose query hands the utilities to the budget manager in one query_by_utility call
ONE_MANAGER_CALL = ("FixedUncertainty", "VariableUncertainty", "RandomVariableUncertainty", "Split", "StreamProbabilisticAL")


def make_clf(seed, d=1):
    from skactiveml.classifier import ParzenWindowClassifier

    rng = np.random.RandomState(seed)
    X = rng.randint(0, 8, size=(12, d)).astype(float)
    y = (X[:, 0] + rng.randint(0, 3, size=12) > 5).astype(float)
    y[rng.rand(12) < 0.25] = np.nan
    clf = ParzenWindowClassifier(classes=[0, 1], random_state=0, metric_dict={"gamma": 0.3})
    clf.fit(X, y)
    return clf, X, y


# --------------------------------------------------------------------------
def _call_query(obj, is_manager, cand, utils, clf, name):
    if is_manager:
        res = obj.query_by_utility(utils.copy())
        return res, utils
    if name in BASELINES:
        return obj.query(cand.copy(), return_utilities=True)
    if name.split("+")[0].startswith("StreamProbabilisticAL") and "(rbf)" not in name and len(cand) and \
            int(np.asarray(cand, dtype=float)[0, 0]) % 2 == 1:
        # the documented optional density weights of the candidates (a function of the candidate, so that the same
        # candidates carry the same weights in every run); the returned utilities must be the weighted ones
        uw = 0.5 + (np.asarray(cand, dtype=float)[:, 0] % 3) / 2.0
        return obj.query(cand.copy(), clf=clf, utility_weight=uw, return_utilities=True)
    if "(rbf)" in name:
        # with a metric the strategy fits its own kernel model on (X, y) given to query: training data of a fixed
        # size whose last row is the first candidate of the call (same size, different content from call to call)
        Xtr = np.vstack([np.asarray(clf.X_, dtype=float), np.asarray(cand, dtype=float)[:1]])
        ytr = np.array([float(i % 2) for i in range(len(Xtr) - 1)] + [np.nan])
        return obj.query(cand.copy(), clf=clf, X=Xtr, y=ytr, return_utilities=True)
    return obj.query(cand.copy(), clf=clf, return_utilities=True)


def _call_update(obj, is_manager, cand, res, utilities):
    if is_manager:
        if type(obj).__name__ == "BalancedIncrementalQuantileFilter":
            return obj.update(cand, res, np.asarray(utilities))
        return obj.update(cand, res)
    name = type(obj).__name__
    if name in ("StreamRandomSampling", "PeriodicSampling"):
        return obj.update(cand, res)
    return obj.update(cand, res, budget_manager_param_dict={"utilities": np.asarray(utilities)})


def run(make_obj, is_manager, name, chunks, util_chunks, clf, extra, ids, other, prologue=False, twin_keys=None):
    """One history on a fresh object.  extra[s] = list of 'same'/'other' extra
    queries issued before the real query of step s.  Returns (events, steps,
    obj) where steps are the twin records of the real queries/updates.
    prologue: the history starts with an update (nothing queried) on the `other` candidates - in the run with
    extra queries preceded by one query on the fresh object (lazily created parts, e.g. a default budget manager
    and its seed, must not depend on whether query or update comes first)."""
    obj = make_obj()
    events, steps = [], []
    prev = {}
    if prologue:
        try:
            with warnings.catch_warnings():
                warnings.simplefilter("ignore")
                if extra is not None:
                    r, utl = _call_query(obj, is_manager, other[0], other[1], clf, name)
                    st = flat_state(obj)
                    ua = np.asarray(utl)
                    events.append({"ev": "Query", "len": int(len(other[0])), "cid": 999,
                                   "res": [int(i) + 1 for i in np.asarray(r)],
                                   "nutil": int(ua.shape[0]) if ua.ndim == 1 else -1,
                                   "udig": ids(ab.digest(np.asarray(ua, dtype=float))),
                                   "dig": ids(restricted_digest(st, st.keys())),
                                   "digr": ids(restricted_digest(st, prev.keys()))})
                _call_update(obj, is_manager, other[0].copy(), np.array([], dtype=int), other[1])
            prev = flat_state(obj)
            # tdig: the state restricted to the attributes the twin has at this point (the extra query creates
            # n_features_in_, budget_, ... lazily - that is not a difference of committed state)
            keys = prev.keys() if twin_keys is None else twin_keys
            events.append({"ev": "Update", "len": int(len(other[0])), "q": [],
                           "dig": ids(restricted_digest(prev, prev.keys())),
                           "tdig": ids(restricted_digest(prev, keys))})
            steps.append({"cid": 0, "res": [], "udig": 0, "dig": events[-1]["tdig"], "keys": sorted(prev.keys())})
        except Exception as ex:
            events.append({"ev": "UpdateRaised", "exc": "%s: %s" % (type(ex).__name__, str(ex)[:200]), "q": [],
                           "len": int(len(other[0]))})
            return events, steps, obj
    for s, cand in enumerate(chunks):
        utils = util_chunks[s]
        plan = [("same", s + 1)] * 0
        for kind in extra[s] if extra else []:
            plan.append((kind, s + 1 if kind == "same" else 1000 + s))
        plan.append(("real", s + 1))
        res = ut = None
        failed = False
        for kind, cid in plan:
            c, u = (other[0], other[1]) if kind == "other" else (cand, utils)
            try:
                with warnings.catch_warnings():
                    warnings.simplefilter("ignore")
                    r, utl = _call_query(obj, is_manager, c, u, clf, name)
                ra = np.asarray(r)
                ua = np.asarray(utl)
                if ra.ndim != 1 or (ra.size and ra.dtype.kind not in "iu"):
                    events.append({"ev": "QueryMalformed", "shape": list(ra.shape), "dtype": str(ra.dtype)})
                    failed = True
                    break
                st = flat_state(obj)
                ev = {"ev": "Query", "len": int(len(c)), "cid": cid, "res": [int(i) + 1 for i in ra],
                      "nutil": int(ua.shape[0]) if ua.ndim == 1 else -1,
                      "udig": ids(ab.digest(np.asarray(ua, dtype=float))),
                      "dig": ids(restricted_digest(st, st.keys())),
                      "digr": ids(restricted_digest(st, prev.keys()))}
                if (not is_manager) and name.split("+")[0].split("(")[0] in ONE_MANAGER_CALL \
                        and hasattr(obj, "budget_manager_"):
                    # the strategy's decision is ONE call of its manager on the utilities: asking the (unchanged)
                    # manager about the RETURNED utilities must give the returned decision - update will be handed
                    # exactly these utilities
                    with warnings.catch_warnings():
                        warnings.simplefilter("ignore")
                        ev["mres"] = [int(i) + 1 for i in np.asarray(obj.budget_manager_.query_by_utility(ua.copy()))]
                prev = st
                events.append(ev)
                if kind == "real":
                    res, ut = r, utl
            except Exception as ex:
                events.append({"ev": "QueryRaised", "exc": "%s: %s" % (type(ex).__name__, str(ex)[:200])})
                failed = True
                break
        if failed:
            break
        try:
            with warnings.catch_warnings():
                warnings.simplefilter("ignore")
                _call_update(obj, is_manager, cand.copy(), res, ut)
            prev = flat_state(obj)
            events.append({"ev": "Update", "len": int(len(cand)), "q": [int(i) + 1 for i in np.asarray(res)],
                           "dig": ids(restricted_digest(prev, prev.keys()))})
            steps.append({"cid": s + 1, "res": events[-2]["res"] if events[-2]["ev"] == "Query" else [],
                          "udig": events[-2].get("udig", 0), "dig": events[-1]["dig"]})
        except Exception as ex:
            events.append({"ev": "UpdateRaised", "exc": "%s: %s" % (type(ex).__name__, str(ex)[:200]),
                           "q": [int(i) + 1 for i in np.asarray(res)], "len": int(len(cand))})
            break
    return events, steps, obj


def record_pair(make_obj, is_manager, name, budget, chunks, util_chunks, clf, extra, other, tag, concrete,
                prologue=False):
    """Run twin B (plain) and run A (with extra queries); returns two traces."""
    ids = Ids()
    ev_b, steps_b, obj_b = run(make_obj, is_manager, name, chunks, util_chunks, clf, None, ids, other, prologue)
    tkeys = steps_b[0].pop("keys", None) if (prologue and steps_b) else None
    ev_a, steps_a, obj_a = run(make_obj, is_manager, name, chunks, util_chunks, clf, extra, ids, other, prologue,
                               twin_keys=tkeys)
    for st_ in steps_a:
        st_.pop("keys", None)
    mgr = obj_b if (is_manager or name in BASELINES) else getattr(obj_b, "budget_manager_", None)
    bound, w = bound_of(mgr) if mgr is not None else ("none", 1)
    B = [min(64, int(math.ceil(budget * 64 - 1e-12))), 64]
    base = {"B": B, "W": w, "bound": bound}
    # the same stream one instance at a time (for the subjects whose decisions are a function of the instances seen
    # so far, not of the chunking: every manager, the baselines, the strategies that decide with one manager call)
    single = []
    base_name = name.split("+")[0].split("(")[0]
    # (not claimed for the managers that decide with normal deviates - their generator is advanced per chunk - and
    #  for the quantile filter, whose simulated history inside a chunk is an approximation of the committed one)
    full = str(concrete.get("object", name))          # (strategy+manager when an explicit manager is used)
    mgr_name = full.split("+")[1].split("(")[0] if "+" in full else None
    # (and only for decisions without random draws, plus the random baseline, whose draws are one per instance; the
    #  chunk invariance of the randomised managers is checked in the exact regime, where the draws are aligned)
    chunk_free = ("FixedUncertaintyBudgetManager", "VariableUncertaintyBudgetManager")
    if (not prologue) and "(rbf)" not in name and (
            (is_manager and base_name in chunk_free)
            or base_name in ("StreamRandomSampling", "PeriodicSampling")
            or (base_name in ("FixedUncertainty", "VariableUncertainty")
                and (mgr_name is None or mgr_name in chunk_free))):
        one_c = [c[i:i + 1] for c in chunks for i in range(len(c))]
        one_u = [u[i:i + 1] for u in util_chunks for i in range(len(u))]
        ev_s, _, _ = run(make_obj, is_manager, name, one_c, one_u, clf, None, Ids(), other, False)
        ups = [e for e in ev_s if e["ev"] == "Update"]
        if len(ups) == len(one_c):
            single = [1 if e["q"] else 0 for e in ups]
    t_b = dict(base, id="%s/%s/plain" % (name, tag), twin=[], events=ev_b, single=single,
               concrete=dict(concrete, extra_queries=None))
    t_a = dict(base, id="%s/%s/extra-queries" % (name, tag), twin=steps_b, events=ev_a, single=[],
               concrete=dict(concrete, extra_queries=extra))
    return t_b, t_a


def record_reconfigured(make_obj, is_manager, name, b1, b2, n1, n2, k, d, seed, tag):
    """C04: one object used on a greedy stream with budget b1, re-configured with set_params(budget=b2) and used
    on - the configured budget is the one in force from then on (event SetBudget).  Only updates are logged."""
    rng = np.random.RandomState(seed)
    obj = make_obj()
    clf = None if (is_manager or name in BASELINES) else make_clf(seed, d)[0]
    mgr = None
    events = []

    def phase(n):
        nonlocal mgr
        left = n
        while left > 0:
            m = min(k, left)
            left -= m
            cand = rng.randint(0, 8, size=(m, d)).astype(float)
            utils = np.ones(m)
            with warnings.catch_warnings():
                warnings.simplefilter("ignore")
                res, utl = _call_query(obj, is_manager, cand, utils, clf, name)
                _call_update(obj, is_manager, cand, res, utl)
            events.append({"ev": "Update", "len": int(m), "q": [int(i) + 1 for i in np.asarray(res)], "dig": 0})

    try:
        phase(n1)
        obj.set_params(budget=b2)
        events.append({"ev": "SetBudget", "B": [min(64, int(math.ceil(b2 * 64 - 1e-12))), 64]})
        phase(n2)
    except Exception as ex:
        events.append({"ev": "Raised", "exc": "%s: %s" % (type(ex).__name__, str(ex)[:200])})
    mgr = obj if (is_manager or name in BASELINES) else getattr(obj, "budget_manager_", None)
    bound, w = bound_of(mgr) if mgr is not None else ("none", 1)
    return dict(B=[min(64, int(math.ceil(b1 * 64 - 1e-12))), 64], W=w, bound=bound, twin=[], single=[], events=events,
                id="%s/%s/reconfigured" % (name, tag),
                concrete={"object": name, "is_manager": is_manager, "budget": b1, "then_set_params_budget": b2,
                          "instances_before": n1, "instances_after": n2, "chunk_size": k, "n_features": d,
                          "seed": seed, "utilities": "all 1.0 (greedy stream)", "extra_queries": None})


def finding_key(tr, rej):
    oe = rej["offending_event"] or {}
    ev = oe.get("ev", "end")
    name = tr["id"].split("/")[0]
    # (the parameter-sweep configurations share the findings of their strategy)
    name = re.sub(r"\((?=[^)]*(manhattan|prior=|theta=|rbf))[^)]*\)", "", name)
    why = ",".join(rej["failed_clauses"]) or str(oe.get("exc", "unmatched")).split(":")[0]
    key = "%s|%s|%s" % (name, ev, why)
    if why == "no-overspend-at-every-prefix":
        multi = any(e.get("len", 1) > 1 for e in tr["events"] if e["ev"] == "Update")
        key += "|chunks>1" if multi else "|chunks=1"
    return key
