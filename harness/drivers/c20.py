"""C20 - wrapper strategies are transparent to the strategy they wrap.

(M) MC_Wrappers: index-space algebra of the sub-sampling wrapper (sub-sample,
    reduce to the inner index space, inner query, retranslate) for all pools
    up to 4 samples; the code-shaped deviation Unsorted must violate
    Transparent.
(T) (a) ParallelUtilityEstimationWrapper vs. the wrapped strategy: paired
        observations validated by EquivTrace;
    (b) SubSamplingWrapper: the call the wrapper makes to the wrapped
        strategy is recorded (arguments and result, translated to the
        caller's index space by matching feature rows) and validated together
        with the wrapper's result by WrappersTrace;
    (c) SingleAnnotatorWrapper: order of first appearance of the samples vs.
        the wrapped strategy's ranking (WrappersTrace).
"""

import functools
import warnings
from fractions import Fraction

import numpy as np

from .. import abstraction as ab
from .. import tlc, zoo
from ..core import Check, import_repo, pmap
from . import pool_common as pc
from .c08 import _enc, BAND

ENTRIES = {}
NEG_INF = -999999


class Spy:
    """records the calls made to strategy.query (arguments and result)"""

    def __init__(self, strategy):
        self.calls = []
        orig = strategy.query

        @functools.wraps(orig)
        def spy(*a, **kw):
            res = orig(*a, **kw)
            self.calls.append((kw, res))
            return res

        strategy.query = spy


def row_index(X):
    return {tuple(np.round(r, 9)): i for i, r in enumerate(np.asarray(X))}


def ranks_with_inf(arrays):
    """joint signed ranks; -inf gets the sentinel NEG_INF"""
    flat = [np.asarray(a, dtype=float) for a in arrays]
    masked = [np.where(np.isneginf(a), np.nan, a) for a in flat]
    r = ab.signed_ranks(*masked)
    out = []
    for a, rr in zip(flat, r):
        out.append([NEG_INF if np.isneginf(v) else q for v, q in zip(a.ravel(), rr)])
    return out


def sub_case(name, sc, seed, maxc, exclude, variant):
    from skactiveml.pool import SubSamplingWrapper

    entry = ENTRIES[name]
    sc = dict(sc, geom="distinct")
    conc = pc.concretise(sc, entry, seed)
    X, y, cand = conc["X"], conc["y"], conc["candidates"]
    inner = entry.make(seed, np.nan, (0, 1))
    spy = Spy(inner)
    wr = SubSamplingWrapper(inner, max_candidates=maxc, exclude_non_subsample=exclude, random_state=seed)
    swapped = False
    if seed % 3 == 0:
        # one wrapper object whose wrapped strategy is exchanged through set_params (the wrapper reads its
        # query_strategy parameter at call time): built around RandomSampling, its query signature inspected once,
        # then re-configured with the strategy under test - it must behave like a wrapper built around that strategy
        import inspect

        from skactiveml.pool import RandomSampling

        wr = SubSamplingWrapper(RandomSampling(random_state=seed), max_candidates=maxc, exclude_non_subsample=exclude,
                                random_state=seed)
        inspect.signature(wr.query)
        wr.set_params(query_strategy=inner)
        swapped = True
    kw = zoo.model_kwargs(entry, np.nan, (0, 1), seed=seed, variant=variant)
    rows_mode = isinstance(cand, np.ndarray) and cand.ndim == 2
    n = len(cand) if rows_mode else len(X)
    # non-constant sample weights handed through the wrapper (half of the cases, where the wrapped query takes them):
    # the weight of a sample must reach the wrapped strategy together with that sample
    import inspect as _inspect

    w_caller = None
    if seed % 2 == 1 and "sample_weight" in _inspect.signature(inner.query).parameters and "reg" not in kw:
        w_caller = 1.0 + np.arange(len(X), dtype=float)
        kw["sample_weight"] = w_caller.copy()
    if cand is None:
        cands = [i + 1 for i in range(len(X)) if np.isnan(y[i])]
    elif rows_mode:
        cands = list(range(1, n + 1))
    else:
        cands = [int(i) + 1 for i in cand]
    frac = isinstance(maxc, float)
    mc = Fraction(maxc).limit_denominator(64) if frac else Fraction(int(maxc))
    base = {"id": "SubSamplingWrapper(%s)/%s/maxc=%s/exclude=%s/seed%d/v%d" % (name, pc.scenario_tag(sc), maxc, exclude,
                                                                              seed, variant),
            "n": n, "cands": cands, "frac": frac, "maxc": [mc.numerator, mc.denominator],
            "concrete": {"wrapper": "SubSamplingWrapper", "inner": name, "scenario": sc, "seed": seed,
                         "max_candidates": maxc, "exclude_non_subsample": exclude, "variant": variant,
                         "wrapped_strategy_exchanged_by_set_params": swapped,
                         "X": X.tolist(), "y": ["nan" if v != v else v for v in y.tolist()],
                         "candidates": cand.tolist() if isinstance(cand, np.ndarray) else cand,
                         "batch_size": conc["batch_size"]}}
    try:
        with warnings.catch_warnings():
            warnings.simplefilter("ignore")
            with np.errstate(all="ignore"):
                q, u = wr.query(X.copy(), y.copy(), candidates=None if cand is None else np.array(cand),
                                batch_size=conc["batch_size"], return_utilities=True, **kw)
        q, u = np.asarray(q), np.asarray(u, dtype=float)
        wok = True
        # the same call without utilities (the default of query) on a fresh wrapper / wrapped strategy of the same
        # seed: the returned indices must be the same ones, in the caller's index space
        wr0 = SubSamplingWrapper(entry.make(seed, np.nan, (0, 1)), max_candidates=maxc, exclude_non_subsample=exclude,
                                 random_state=seed)
        with warnings.catch_warnings():
            warnings.simplefilter("ignore")
            with np.errstate(all="ignore"):
                q0 = wr0.query(X.copy(), y.copy(), candidates=None if cand is None else np.array(cand),
                               batch_size=conc["batch_size"], return_utilities=False,
                               **dict(zoo.model_kwargs(entry, np.nan, (0, 1), seed=seed, variant=variant),
                                      **({} if w_caller is None else {"sample_weight": w_caller.copy()})))
        q0 = [int(j) + 1 for j in np.asarray(q0).ravel()]
        ikw, ires = spy.calls[-1]
        iq, iu = np.asarray(ires[0]), np.asarray(ires[1], dtype=float)
        iX, icand = np.asarray(ikw["X"]), ikw["candidates"]
        icand = None if icand is None else np.asarray(icand)
        # inner positions -> caller ids
        if rows_mode:
            pos_of = row_index(cand)            # caller space = positions of the given candidate rows
            inner_ids = [pos_of[tuple(np.round(r, 9))] for r in icand]          # per inner candidate row
            S = [i + 1 for i in inner_ids]
            iq_c = [inner_ids[int(j)] + 1 for j in iq]
            irows = []
            for r in iu:
                full = np.full(n, np.nan)
                full[inner_ids] = r
                irows.append(full)
        else:
            pos_of = row_index(X)
            to_caller = [pos_of[tuple(np.round(r, 9))] for r in iX]             # per inner sample
            S = [to_caller[int(j)] + 1 for j in (icand if icand is not None else
                                                 [i for i in range(len(iX)) if np.isnan(np.asarray(ikw["y"])[i])])]
            iq_c = [to_caller[int(j)] + 1 for j in iq]
            irows = []
            for r in iu:
                full = np.full(n, np.nan)
                full[to_caller] = r
                irows.append(full)
            if w_caller is not None and ikw.get("sample_weight") is not None:
                iw = np.asarray(ikw["sample_weight"], dtype=float)
                wok = bool(len(iw) == len(to_caller) and all(iw[j] == w_caller[to_caller[j]] for j in range(len(iw))))
        if u.ndim != 2 or u.shape[1] != n:
            events = [{"ev": "Malformed", "shape": list(u.shape)}]
        else:
            allr = ranks_with_inf(list(irows) + [r for r in u])
            k = len(irows)
            events = [{"ev": "Inner", "S": sorted(S), "q": iq_c, "rows": allr[:k], "rank": [], "wok": wok},
                      {"ev": "OuterSub", "q": [int(j) + 1 for j in q], "rows": allr[k:], "qplain": q0}]
    except Exception as ex:
        events = [{"ev": "Raised", "exc": "%s: %s" % (type(ex).__name__, str(ex)[:160])}]
    return dict(base, events=events)


# inner strategies that draw from their generator BEFORE the final tie-break (embedding, bootstrap): the wrapper
# cannot reproduce their tie-break, "same selection for equal seeds" is claimed for the others
DRAWS_BEFORE_SELECTION = ("CostEmbeddingAL", "ExpectedModelChangeMaximization")


def par_case(name, sc, seed, n_jobs, backend, variant):
    from skactiveml.pool import ParallelUtilityEstimationWrapper

    entry = ENTRIES[name]
    sc = dict(sc, bs=1)
    conc = pc.concretise(sc, entry, seed)
    X, y, cand = conc["X"], conc["y"], conc["candidates"]
    rows_mode = isinstance(cand, np.ndarray) and cand.ndim == 2
    kw = zoo.model_kwargs(entry, np.nan, (0, 1), seed=seed, variant=variant)
    pd = None if backend is None else {"backend": backend}
    events = []
    try:
        obs = []
        for which in ("inner", "wrapper"):
            np.random.seed(99)
            qs = entry.make(seed, np.nan, (0, 1))
            if which == "wrapper":
                qs = ParallelUtilityEstimationWrapper(qs, n_jobs=n_jobs, parallel_dict=pd, random_state=seed)
            with warnings.catch_warnings():
                warnings.simplefilter("ignore")
                with np.errstate(all="ignore"):
                    q, u = qs.query(X.copy(), y.copy(), candidates=None if cand is None else np.array(cand),
                                    batch_size=1, return_utilities=True, **kw)
            u = np.asarray(u, dtype=float)
            obs.append((which, u[0], int(np.asarray(q)[0])))
        finite = [abs(v) for o in obs for v in o[1] if np.isfinite(v)]
        scale = max(max(finite), 1e-6) if finite else 1.0
        # equal seeds give equal selections when both sides break the tie over bitwise identical rows
        bitwise = bool(np.array_equal(obs[0][1], obs[1][1], equal_nan=True))
        for which, row, sel in obs:
            events.append({"ev": "Obs", "name": which, "vals": [[j + 1, _enc(v, scale)] for j, v in enumerate(row)],
                           "sel": sel + 1, "samekeys": True, "cmpsel": True,
                           "eqseed": which == "wrapper" and bitwise and not name.startswith(DRAWS_BEFORE_SELECTION)})
    except Exception as ex:
        events = [{"ev": "Raised", "exc": "%s: %s" % (type(ex).__name__, str(ex)[:160])}]
    return {"id": "ParallelUtilityEstimationWrapper(%s)/%s/n_jobs=%s/%s/seed%d/v%d" % (
        name, pc.scenario_tag(sc), n_jobs, backend, seed, variant), "band": BAND, "events": events,
        "concrete": {"wrapper": "ParallelUtilityEstimationWrapper", "inner": name, "scenario": sc, "seed": seed,
                     "n_jobs": n_jobs, "backend": backend, "variant": variant, "X": X.tolist(),
                     "y": ["nan" if v != v else v for v in y.tolist()],
                     "candidates": cand.tolist() if isinstance(cand, np.ndarray) else cand}}


def saw_case(name, seed, ns, na, bs, pref, variant):
    from skactiveml.pool.multiannotator import SingleAnnotatorWrapper

    entry = ENTRIES[name]
    rng = np.random.RandomState(seed)
    X = rng.normal(size=(ns, 2)).round(3)
    y = np.full((ns, na), np.nan)
    n_lab = rng.randint(0, ns - 1)
    for i in rng.permutation(ns)[:n_lab]:
        y[i, :] = float(rng.randint(2))       # fully labeled samples; the others are fully available
    cands = [i for i in range(ns) if np.isnan(y[i]).all()]
    inner = entry.make(seed, np.nan, (0, 1))
    spy = Spy(inner)
    wr = SingleAnnotatorWrapper(inner, random_state=seed)
    kw = zoo.model_kwargs(entry, np.nan, (0, 1), seed=seed, variant=variant)
    # how candidates x annotators are addressed: both None / index candidates with a Boolean availability
    # matrix in which some candidate has no annotator at all (such rows are not ranked; the rows behind them
    # must still be the ones the wrapped strategy chose)
    amode = "none"
    if len(cands) >= 2 and rng.rand() < 0.5:
        amode = "idx-mask"
        A = rng.rand(len(cands), na) < 0.6
        A[rng.randint(len(cands))] = False
        if not A.any():
            A[-1, 0] = True
        kw["candidates"] = np.array(cands)
        kw["annotators"] = A
        bs = max(1, min(bs, int(A.sum())))
    # annotator performances (they order the annotators of a sample and must never reorder the samples): none /
    # accuracies in [0, 1) / negative scores such as log-likelihoods (maximum below 1, spread above 1) / large scores
    apm = ("none", "unit", "negative", "large")[seed % 4]
    if apm != "none":
        shape = (na,) if (amode == "none" or seed % 8 < 4) else (len(cands), na)
        ap = rng.rand(*shape)
        kw["A_perf"] = ap if apm == "unit" else (-3.0 * ap - 0.05 if apm == "negative" else 1.0 + 7.0 * ap)
    try:
        with warnings.catch_warnings():
            warnings.simplefilter("ignore")
            with np.errstate(all="ignore"):
                with pc.time_limit(10):
                    q = wr.query(X.copy(), y.copy(), batch_size=bs, n_annotators_per_sample=pref, **kw)
        ikw, ires = spy.calls[-1]
        events = [{"ev": "Inner", "S": [], "q": [], "rows": [], "rank": [int(i) + 1 for i in np.asarray(ires[0])]},
                  {"ev": "OuterSaw", "samples": [int(i) + 1 for i in np.asarray(q)[:, 0]]}]
    except Exception as ex:
        events = [{"ev": "Raised", "exc": "%s: %s" % (type(ex).__name__, str(ex)[:160])}]
    return {"id": "SingleAnnotatorWrapper(%s)/ns%d-na%d-bs%d-pref%d-%s-aperf:%s/seed%d/v%d" % (
                name, ns, na, bs, pref, amode, apm, seed, variant),
            "n": ns, "cands": [c + 1 for c in cands], "frac": False, "maxc": [1, 1], "events": events,
            "concrete": {"wrapper": "SingleAnnotatorWrapper", "inner": name, "seed": seed, "X": X.tolist(),
                         "y": [["nan" if v != v else v for v in r] for r in y.tolist()], "batch_size": bs,
                         "n_annotators_per_sample": pref, "variant": variant,
                         "candidates": None if amode == "none" else cands,
                         "annotators": None if amode == "none" else kw["annotators"].tolist(),
                         "A_perf": kw["A_perf"].tolist() if "A_perf" in kw else None}}


def _job(arg):
    kind = arg[0]
    return {"sub": sub_case, "par": par_case, "saw": saw_case}[kind](*arg[1:])


def finding_key(tr, rej):
    oe = rej["offending_event"] or {}
    name = tr["id"].split("(")[0]
    why = ",".join(rej["failed_clauses"]) or ("%s:%s" % (oe.get("ev", "end"), str(oe.get("exc", "")).split(":")[0]))
    extra = ""
    if name == "ParallelUtilityEstimationWrapper":
        extra = "|n_jobs=%s" % tr["concrete"]["n_jobs"]
    return "%s%s|%s" % (name, extra, why)


SUB_INNER = ["UncertaintySampling(entropy)", "ProbabilisticAL", "RandomSampling", "CoreSet", "GreedySamplingX",
             "QueryByCommittee(KL_divergence)", "MonteCarloEER(misclassification_loss)", "EpistemicUncertaintySampling",
             "ExpectedModelChangeMaximization", "Quire", "DiscriminativeAL", "GreedySamplingTarget(GSy)"]
SAW_INNER = ["RandomSampling", "UncertaintySampling(entropy)", "ProbabilisticAL", "QueryByCommittee(vote_entropy)",
             "EpistemicUncertaintySampling",
             # wrapped strategies whose picks are NOT the maximisers of the utilities they report (proportional
             # sampling, batch loops of their own): the wrapper must follow the picks, not the utilities
             "Falcun", "Badge", "CoreSet"]


def main(tier="quick", seed=0):
    chk = Check("C20", tier, seed)
    import_repo()
    quick = tier == "quick"
    rng = np.random.default_rng(seed + 20)
    ENTRIES.update({e.name: e for e in zoo.entries()})
    chk.model_check("MC_Wrappers", "MC_Wrappers.cfg")
    dev = tlc.run_tlc("MC_Wrappers", "MC_Wrappers_dev.cfg", timeout=900)
    if not any("Transparent" in e for e in dev.errors):
        raise tlc.MachineryError("the Unsorted deviation of Wrappers.tla does not violate Transparent")
    scenarios = chk.generate("PoolGen", "PoolGen.cfg") + (chk.generate("PoolGen", "PoolGen5.cfg") if not quick else [])
    scenarios = [s for s in scenarios if s["mode"] != "idx-any" and s["n"] >= 3]
    jobs = []
    n_sub = 60 if quick else 600
    for name in SUB_INNER:
        e = ENTRIES[name]
        pool = [s for s in scenarios if pc.applicable(e, s)]
        for n_, i in enumerate(rng.choice(len(pool), size=min(n_sub, len(pool)), replace=False)):
            maxc = [1, 2, 3, 0.25, 0.5, 0.75, 1.0][n_ % 7]
            jobs.append(("sub", name, pool[int(i)], int(rng.integers(0, 1000)), maxc, bool((n_ // 7) % 2), n_ % 2))
    par_inner = [e.name for e in ENTRIES.values() if e.samplewise and e.rows and e.cost <= 2]
    n_par = 12 if quick else 100
    for name in par_inner:
        e = ENTRIES[name]
        pool = [s for s in scenarios if pc.applicable(e, s)]
        for n_, i in enumerate(rng.choice(len(pool), size=min(n_par, len(pool)), replace=False)):
            n_jobs = [1, 2, 3, -1][n_ % 4]
            # default (process-based) backend: with the threading backend the chunks share one
            # strategy object and race on its random_state_, which is joblib usage, not C20
            backend = None
            jobs.append(("par", name, pool[int(i)], int(rng.integers(0, 1000)), n_jobs, backend, 0))
    n_saw = 60 if quick else 600
    for name in SAW_INNER:
        for n_ in range(n_saw):
            ns, na = int(rng.integers(3, 7)), int(rng.integers(2, 4))
            jobs.append(("saw", name, int(rng.integers(0, 1000)), ns, na, int(rng.integers(1, ns * na + 2)),
                         int(rng.integers(1, na + 1)), 0))
    traces = pmap(_job, jobs, chunksize=4)
    chk.count(len(traces))
    for t in traces:
        chk.case(t["id"].rsplit("/", 2)[0])
    sub = [t for t in traces if t["id"].startswith(("SubSamplingWrapper", "SingleAnnotatorWrapper"))]
    par = [t for t in traces if t["id"].startswith("ParallelUtilityEstimationWrapper")]
    chk.sample({"subsampling_trace": {k: v for k, v in sub[0].items() if k != "concrete"}})
    chk.sample({"parallel_trace": {k: v for k, v in par[0].items() if k != "concrete"}})
    chk.rule = ("SubSamplingWrapper around %d inner strategies x PoolGen scenarios (None / index / feature-row "
                "candidates) x max_candidates in {1,2,3,0.25,0.5,0.75,1.0} x both exclude_non_subsample settings; "
                "ParallelUtilityEstimationWrapper around %d sample-wise strategies x n_jobs {1,2,3,-1} x backends; "
                "SingleAnnotatorWrapper around %d strategies on fully available candidate rows; distinct = (wrapper, "
                "inner, scenario, setting)" % (len(SUB_INNER), len(par_inner), len(SAW_INNER)))
    chk.validate("WrappersTrace", sub, key_of=finding_key, describe=lambda t: t["concrete"])
    chk.validate("EquivTrace", par, key_of=finding_key, describe=lambda t: t["concrete"])
    chk.assumptions = ["inner calls are observed by wrapping the inner strategy's query (arguments as passed by the "
                       "wrapper); inner indices are translated to the caller's space by matching feature rows (pools "
                       "with distinct rows)", "fractional max_candidates are dyadic so that ceil(len*fraction) is exact",
                       "the parallel wrapper's utilities are compared in fixed point (band 2^-19 relative), selections "
                       "only when the best utility is unique", "(c) is checked on candidate rows whose annotators are "
                       "all available (rows without annotators are the C07 finding)"]
    return chk.finish()
