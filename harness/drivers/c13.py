"""C13 - fit is history-free and never rewrites constructor parameters.

(M) TLC checks FitModel exhaustively (MC_FitModel.cfg: every history of depth
    <= 4 over Fit / PartialFit / Predict / Query / Update / SetParams / Fresh,
    4 data sets, symbolic and fixed parameter, plain / sliding-window /
    strategy objects): ParamsFrame, HistoryFree, Window, WindowRestart hold;
    the code-shaped deviations WriteBack (resolved default stored in the
    parameter / the caller's dict) and StaleWindow must violate them.
(G) TLC enumerates call histories (FitModel_gen_hist*.cfg) and, after every
    call, the calls a fresh clone must be given to reach the same model (for a
    sliding window: one fit on the window the specification computed).
(T) every history is replayed on every classifier, regressor, budget manager
    and stream strategy of the package (symbolic defaults included, caller-owned
    dicts / estimators handed to the constructors).  After each call the
    recorder logs ids of the digests of every get_params(deep=True) entry and
    of the caller-owned objects, after each training call band-encoded
    predictions of the object and of a fresh clone of the unfitted prototype
    on which exactly the prescribed calls were made.  FitModelTrace validates
    the traces; nothing is compared in Python.
"""

import inspect
import json
import warnings

import numpy as np

from .. import tlc
from ..core import Check, import_repo, jsonable, pmap
from . import c12 as h
from . import stream_common as sc

_HISTS = {}      # (kind, wsize, onlyLab) -> list of histories (set before the fork)
_CFGS = None
_SCFGS = None


# --------------------------------------------------------------------------
# registry: every classifier and regressor of the package
def estimator_configs():
    from sklearn.gaussian_process import GaussianProcessRegressor
    from sklearn.linear_model import (BayesianRidge, LinearRegression, LogisticRegression, SGDClassifier,
                                      SGDRegressor)
    from sklearn.mixture import GaussianMixture
    from sklearn.naive_bayes import GaussianNB
    from sklearn.tree import DecisionTreeClassifier, DecisionTreeRegressor

    from skactiveml.classifier import (MixtureModelClassifier, ParzenWindowClassifier, SklearnClassifier,
                                       SlidingWindowClassifier)
    from skactiveml.classifier.multiannotator import AnnotatorEnsembleClassifier, AnnotatorLogisticRegression
    from skactiveml.regressor import (NadarayaWatsonRegressor, NICKernelRegressor, SklearnNormalRegressor,
                                      SklearnRegressor)

    PWC = ParzenWindowClassifier
    out = []

    def add(cls, label, make, task, kind="plain", wsize=0, only=False, partial=False, sym=False, weights=True,
            alt=None, multi=False, pretrained=False):
        out.append(dict(name="%s(%s)" % (cls, label), cls=cls, label=label, make=make, task=task, kind=kind,
                        wsize=wsize, onlyLab=only, partial=partial, sym=sym, weights=weights, alt=alt,
                        multi=multi, pretrained=pretrained))

    # --- ParzenWindowClassifier: symbolic bandwidth, default, fixed
    def pwc_mean():
        d = {"gamma": "mean"}
        return PWC(classes=[0, 1], metric_dict=d, random_state=0), [("metric_dict", d)]

    def pwc_none():
        return PWC(classes=[0, 1], metric_dict=None, random_state=0), []

    def pwc_fixed():
        d = {"gamma": 0.5}
        return PWC(classes=[0, 1], metric_dict=d, n_neighbors=2, random_state=0), [("metric_dict", d)]

    add("ParzenWindowClassifier", "metric_dict={'gamma':'mean'}", pwc_mean, "clf", sym=True,
        alt=(lambda: {"metric_dict": {"gamma": 0.25}}, False))
    add("ParzenWindowClassifier", "metric_dict=None", pwc_none, "clf", alt=(lambda: {"class_prior": 1.0}, False))
    # with a neighbour limit unlabeled rows compete for the neighbourhood: the model depends on all rows
    add("ParzenWindowClassifier", "metric_dict={'gamma':0.5},n_neighbors=2", pwc_fixed, "clf", sym=True)

    # --- MixtureModelClassifier (semi-supervised: the mixture depends on all rows -> sym)
    def mmc_none():
        return MixtureModelClassifier(mixture_model=None, classes=[0, 1], random_state=0), []

    def mmc_gmm():
        g = GaussianMixture(n_components=2, random_state=0, reg_covar=1e-3)
        return (MixtureModelClassifier(mixture_model=g, classes=[0, 1], weight_mode="similarities",
                                       random_state=0), [("mixture_model", g)])

    add("MixtureModelClassifier", "mixture_model=None", mmc_none, "clf", sym=True)
    add("MixtureModelClassifier", "mixture_model=GaussianMixture", mmc_gmm, "clf", sym=True)

    # --- SklearnClassifier
    def skc(est_factory, **kw):
        def make():
            e = est_factory()
            return SklearnClassifier(e, classes=[0, 1], random_state=0, **kw), [("estimator", e)]
        return make

    add("SklearnClassifier", "GaussianNB", skc(GaussianNB), "clf", partial=True,
        alt=(lambda: {"estimator__var_smoothing": 1e-3}, False))
    add("SklearnClassifier", "LogisticRegression", skc(LogisticRegression), "clf")
    add("SklearnClassifier", "DecisionTreeClassifier", skc(lambda: DecisionTreeClassifier(random_state=0)), "clf")
    add("SklearnClassifier", "SGDClassifier", skc(lambda: SGDClassifier(loss="log_loss", random_state=0)), "clf",
        partial=True, sym=True)  # row order is an input of SGD
    # warm_start learners continue from their previous solution unless the wrapper starts from a fresh copy
    add("SklearnClassifier", "LogisticRegression(warm_start=True,max_iter=3)",
        skc(lambda: LogisticRegression(warm_start=True, max_iter=3)), "clf")
    add("SklearnClassifier", "GaussianNB,cost_matrix", skc(GaussianNB, cost_matrix=[[0, 1], [2, 0]]), "clf",
        partial=True)

    # wrappers around an estimator the caller has fitted already ("pretrained": partial_fit continues from it, fit
    # starts again; the caller's estimator object is never trained by the wrapper)
    PRE_X = np.array([[0.0, 1.0], [1.0, 0.0], [3.0, 3.5], [5.0, 1.0], [6.5, -1.0]])

    def skc_pre():
        e = GaussianNB().fit(PRE_X, np.array([0, 0, 1, 1, 0]))
        return SklearnClassifier(e, classes=[0, 1], random_state=0), [("estimator", e)]

    add("SklearnClassifier", "GaussianNB,pretrained", skc_pre, "clf", partial=True, pretrained=True)

    # --- SlidingWindowClassifier around those
    def swc(inner_make, wsize, only):
        def make():
            inner, owned = inner_make()
            o = SlidingWindowClassifier(inner, classes=[0, 1], window_size=wsize or None, only_labeled=only,
                                        random_state=0)
            return o, [("estimator", inner)] + [("estimator__" + k, v) for k, v in owned]
        return make

    add("SlidingWindowClassifier", "ParzenWindowClassifier(gamma='mean'),window_size=3", swc(pwc_mean, 3, False),
        "clf", kind="window", wsize=3, partial=True, sym=True)
    add("SlidingWindowClassifier", "ParzenWindowClassifier(gamma='mean'),window_size=3,only_labeled",
        swc(pwc_mean, 3, True), "clf", kind="window", wsize=3, only=True, partial=True, sym=True)
    add("SlidingWindowClassifier", "ParzenWindowClassifier(metric_dict=None),window_size=None",
        swc(pwc_none, 0, False), "clf", kind="window", wsize=0, partial=True)
    add("SlidingWindowClassifier", "MixtureModelClassifier(None),window_size=None,only_labeled",
        swc(mmc_none, 0, True), "clf", kind="window", wsize=0, only=True, partial=True, sym=True)
    add("SlidingWindowClassifier", "SklearnClassifier(GaussianNB),window_size=3", swc(skc(GaussianNB), 3, False),
        "clf", kind="window", wsize=3, partial=True, alt=(lambda: {"estimator__estimator__var_smoothing": 1e-3}, False))

    # nested parameters changed through set_params: a refit must be built from the *current* nested estimator
    def pwc_g():
        d = {"gamma": 0.5}
        return PWC(classes=[0, 1], metric_dict=d, random_state=0), [("metric_dict", d)]

    add("SlidingWindowClassifier", "ParzenWindowClassifier(gamma=0.5),window_size=3", swc(pwc_g, 3, False),
        "clf", kind="window", wsize=3, partial=True, alt=(lambda: {"estimator__metric_dict": {"gamma": 8.0}}, False))
    add("SlidingWindowClassifier", "ParzenWindowClassifier(gamma=0.5),window_size=None", swc(pwc_g, 0, False),
        "clf", kind="window", wsize=0, partial=True, alt=(lambda: {"estimator__metric_dict": {"gamma": 8.0}}, False))

    # --- multi-annotator classifiers
    def alr():
        return AnnotatorLogisticRegression(classes=[0, 1], n_annotators=2, random_state=0), []

    def alr_dict():
        d = {"maxiter": 50}
        return (AnnotatorLogisticRegression(classes=[0, 1], n_annotators=2, solver_dict=d, random_state=0),
                [("solver_dict", d)])

    def aec():
        d = {"gamma": "mean"}
        a, b = PWC(classes=[0, 1], metric_dict={"gamma": 0.5}), PWC(classes=[0, 1], metric_dict=d)
        o = AnnotatorEnsembleClassifier(estimators=[("a", a), ("b", b)], voting="soft", classes=[0, 1],
                                        random_state=0)
        return o, [("a", a), ("b", b), ("b__metric_dict", d)]

    add("AnnotatorLogisticRegression", "default", alr, "multi", multi=True)
    add("AnnotatorLogisticRegression", "solver_dict={'maxiter':50},no sample_weight", alr_dict, "multi", multi=True,
        weights=False)
    # dictionary-valued parameters that leave out keys the estimator has defaults for (a default filled in with
    # setdefault / update lands in the caller's dict) and empty dictionaries
    def alr_partial():
        d = {"gtol": 1e-6}
        return (AnnotatorLogisticRegression(classes=[0, 1], n_annotators=2, solver_dict=d, random_state=0),
                [("solver_dict", d)])

    def pwc_empty():
        d = {}
        return PWC(classes=[0, 1], metric_dict=d, random_state=0), [("metric_dict", d)]

    add("AnnotatorLogisticRegression", "solver_dict={'gtol':1e-6}", alr_partial, "multi", multi=True)
    add("ParzenWindowClassifier", "metric_dict={}", pwc_empty, "clf")
    add("AnnotatorEnsembleClassifier", "PWC,PWC(gamma='mean')", aec, "multi", multi=True, sym=True)

    # --- regressors
    def nic_none():
        return NICKernelRegressor(metric_dict=None), []

    def nic_dict():
        d = {"gamma": 0.5}
        return NICKernelRegressor(metric_dict=d, random_state=0), [("metric_dict", d)]

    def nw_none():
        return NadarayaWatsonRegressor(metric_dict=None), []

    def skr(cls, est_factory):
        def make():
            e = est_factory()
            return cls(e, random_state=0), [("estimator", e)]
        return make

    add("NICKernelRegressor", "metric_dict=None", nic_none, "reg", alt=(lambda: {"kappa_0": 0.5}, False))
    add("NICKernelRegressor", "metric_dict={'gamma':0.5}", nic_dict, "reg")
    add("NadarayaWatsonRegressor", "metric_dict=None", nw_none, "reg")

    def nic_empty():
        d = {}
        return NICKernelRegressor(metric_dict=d, random_state=0), [("metric_dict", d)]

    def nw_empty():
        d = {}
        return NadarayaWatsonRegressor(metric_dict=d), [("metric_dict", d)]

    add("NICKernelRegressor", "metric_dict={}", nic_empty, "reg")
    add("NadarayaWatsonRegressor", "metric_dict={}", nw_empty, "reg")
    add("SklearnRegressor", "LinearRegression", skr(SklearnRegressor, LinearRegression), "reg")
    add("SklearnRegressor", "DecisionTreeRegressor",
        skr(SklearnRegressor, lambda: DecisionTreeRegressor(random_state=0)), "reg")
    add("SklearnRegressor", "SGDRegressor", skr(SklearnRegressor, lambda: SGDRegressor(random_state=0)), "reg",
        partial=True, sym=True)
    add("SklearnRegressor", "SGDRegressor(warm_start=True)",
        skr(SklearnRegressor, lambda: SGDRegressor(random_state=0, warm_start=True, max_iter=5, tol=None)), "reg",
        partial=True, sym=True)
    def skr_pre():
        e = SGDRegressor(random_state=0).fit(np.array([[0.0, 1.0], [1.0, 0.0], [3.0, 3.5], [5.0, 1.0]]),
                                             np.array([1.0, -2.0, 3.0, 0.5]))
        return SklearnRegressor(e, random_state=0), [("estimator", e)]

    add("SklearnRegressor", "SGDRegressor,pretrained", skr_pre, "reg", partial=True, sym=True, pretrained=True)
    add("SklearnNormalRegressor", "GaussianProcessRegressor",
        skr(SklearnNormalRegressor, GaussianProcessRegressor), "reg", weights=False)
    add("SklearnNormalRegressor", "BayesianRidge", skr(SklearnNormalRegressor, BayesianRidge), "reg")
    return out


def required_classes():
    """every exported classifier / regressor must have a configuration"""
    import skactiveml.classifier as c
    import skactiveml.classifier.multiannotator as m
    import skactiveml.regressor as r

    return ([n for n in c.__all__ if n != "multiannotator"] + list(m.__all__) + list(r.__all__))


# --------------------------------------------------------------------------
# registry: every budget manager and stream strategy
def strategy_configs():
    from skactiveml import stream as st
    from skactiveml.stream import budgetmanager as bm

    out = []

    def add(cls, label, make, manager=False):
        out.append(dict(name="%s(%s)" % (cls, label), cls=cls, label=label, make=make, manager=manager))

    for name, f in sorted(sc.manager_factories().items()):
        add(name, "w=4,budget=0.5", (lambda f=f: (f(0.5, 4, 3), [])), manager=True)
        add(name, "w=4,budget=None", (lambda f=f: (f(None, 4, 3), [])), manager=True)   # default resolved to budget_
    facts = sc.strategy_factories()
    for name, (f, uses_mgr) in sorted(facts.items()):
        cls = name.split("(")[0]
        add(cls, name.partition("(")[2].rstrip(")") or "budget=0.5", (lambda f=f: (f(0.5, 3), [])))
        add(cls, (name.partition("(")[2].rstrip(")") + ",budget=None").lstrip(","), (lambda f=f: (f(None, 3), [])))
        if uses_mgr:  # a caller-owned budget manager object handed to the constructor
            def make(f=f):
                mgr = bm.VariableUncertaintyBudgetManager(w=4, budget=0.5, s=0.05)
                return f(0.5, 3, manager=mgr), [("budget_manager", mgr)]
            add(cls, (name.partition("(")[2].rstrip(")") + ",budget_manager=VariableUncertaintyBudgetManager").lstrip(","),
                make)

    # symbolic defaults that are resolved while querying
    def spal(metric, md_factory, **kw):
        def make():
            d = md_factory()
            o = st.StreamProbabilisticAL(metric=metric, metric_dict=d, budget=0.5, random_state=3, **kw)
            return o, ([("metric_dict", d)] if d is not None else [])
        return make

    add("StreamProbabilisticAL", "metric='rbf',metric_dict=None", spal("rbf", lambda: None))
    add("StreamProbabilisticAL", "metric='rbf',metric_dict={'gamma':'mean'}", spal("rbf", lambda: {"gamma": "mean"}))
    add("StreamProbabilisticAL", "metric='rbf',metric_dict={'gamma':0.5}", spal("rbf", lambda: {"gamma": 0.5}))

    def dens(cls, **kw):
        def make():
            d = {}
            return cls(dist_func_dict=d, budget=0.5, random_state=3, **kw), [("dist_func_dict", d)]
        return make

    add("StreamDensityBasedAL", "dist_func_dict={},window_size=4", dens(st.StreamDensityBasedAL, window_size=4))
    add("CognitiveDualQueryStrategyVarUn", "dist_func_dict={},cognition_window_size=4",
        dens(st.CognitiveDualQueryStrategyVarUn, cognition_window_size=4))
    return out


def required_strategies():
    import inspect as ins

    import skactiveml.stream as st
    import skactiveml.stream.budgetmanager as bm

    req = [n for n in st.__all__ if n != "budgetmanager"]
    req += [n for n in bm.__all__ if not ins.isabstract(getattr(bm, n))]
    return req


# --------------------------------------------------------------------------
def second_annotator(D):
    """single-annotator abstract data set -> two annotators: the second one
    repeats the label on odd sample ids and is silent otherwise (unlabeled
    samples stay unlabeled)"""
    return [[s[0], [s[1][0], s[1][0] if s[0] % 2 else h.MISSING], [s[2][0], s[2][0]]] for s in D]


FAR = np.array([[1e4, 1e4], [-1e4, 3e3], [2e4, -1e4], [5e3, 5e3], [-7e3, -7e3], [9e3, 1e3], [1e4, -2e4], [3e4, 3e4]])


def full_pred(obj, task):
    """h.predictions plus - for classifiers constructed with an integer random_state - the hard predictions on
    far-away probe points (tied decisions are broken with the classifier's own generator: a fit that does not
    re-derive the generator from the parameter makes the history visible here)"""
    out = h.predictions(obj, task)
    if task in ("clf", "multi") and isinstance(obj.get_params().get("random_state"), (int, np.integer)):
        with warnings.catch_warnings():
            warnings.simplefilter("ignore")
            lab = np.asarray(obj.predict(FAR))
        cls = list(getattr(obj, "classes_", [0, 1]))
        out = out + [(cls.index(v) if v in cls else -7) * 1000 for v in lab.tolist()]
    return out


def _est_job(arg):
    ci, key, hi, tabseed = arg
    from sklearn.base import clone

    cfg = _CFGS[ci]
    hist = _HISTS[key][hi]
    tab = h.Table(tabseed)
    ids = h.Ids()
    task, n_annot = cfg["task"], (2 if cfg["multi"] else 1)
    mapd = second_annotator if cfg["multi"] else (lambda D: D)
    obj, owned = cfg["make"]()
    import copy as _copy

    # the prototype, never used for anything but cloning (a deep copy when the wrapped estimator comes fitted)
    proto = _copy.deepcopy(obj) if cfg.get("pretrained") else clone(obj)
    # the wrappers around scikit-learn estimators: the wrapped estimator driven directly on the labeled rows
    bare = None
    if cfg["kind"] == "plain" and cfg["cls"] in ("SklearnClassifier", "SklearnRegressor", "SklearnNormalRegressor"):
        bare = h.Bare(dict(owned)["estimator"], task, pretrained=bool(cfg.get("pretrained")))
    pids0, dids0 = h.observe(obj, owned, ids)
    pnames = [k for k, _ in h.param_digests(obj)]
    events, calls, n_eval = [], [], 0
    if cfg.get("pretrained") and tabseed % 2 == 0:
        # a wrapper around a fitted estimator predicts before its own first fit / partial_fit (whatever that call
        # binds must not let a later partial_fit train the caller's estimator)
        with warnings.catch_warnings():
            warnings.simplefilter("ignore")
            obj.predict(h.PROBES)
        calls.append({"call": "predict on the probe points (before the first training call)"})
    # one quarter of the plain histories that start with fit: the object has a PAST with another number of features
    # (it was fitted before on the first data set plus a constant feature column); the first fit of the history
    # must forget that, like everything else
    first_train = next((st_ for st_ in hist["steps"] if st_["op"] in ("Fit", "PartialFit")), None)
    if (cfg["kind"] == "plain" and not cfg.get("pretrained") and tabseed % 4 == 3 and first_train is not None
            and first_train["op"] == "Fit" and len(first_train["d"])):
        pX, py, pw = tab.data(mapd(first_train["d"]), task, n_annot)
        try:
            h.train(obj, "Fit", np.hstack([pX, np.ones((len(pX), 1))]), py, pw, False)
            calls.append({"call": "fit (before the history) on the first data set with an additional constant feature"})
        except Exception:
            pass

    for si, step in enumerate(hist["steps"]):
        op = step["op"]
        # plain estimators: the data sets that contain sample 4 are always passed WITHOUT sample weights although
        # the estimator takes them (an optional fitted attribute of an earlier, weighted fit must not survive);
        # whether weights are passed is a function of the data set, so "same data set, same model" still holds and
        # the reference calls use the flag of their own data set
        def use_w_of(D_):
            return bool(cfg["weights"] and not (cfg["kind"] == "plain" and any(s_[0] == 4 for s_ in D_)))
        if op in ("Fit", "PartialFit"):
            D = mapd(step["d"])
            refcalls = [[c[0], mapd(c[1])] for c in step["ref"]]
            X, y, w = tab.data(D, task, n_annot)
            calls.append({"call": "fit" if op == "Fit" else "partial_fit", "X": X.tolist(), "y": y.tolist(),
                          "sample_weight": w.tolist() if use_w_of(D) else None})
            raised = None
            try:
                h.train(obj, op, X, y, w, use_w_of(D))
                pred = full_pred(obj, task)
            except Exception as ex:
                pred, raised = h.raised_outcome(ex, ids), h.exc_text(ex)
            if bare is not None:
                bare.step(op, X, y, w, use_w_of(D))
            n_eval += 1
            try:
                ref = _copy.deepcopy(proto) if cfg.get("pretrained") else clone(proto)
                for rop, rD in refcalls:
                    rX, ry, rw = tab.data(rD, task, n_annot)
                    h.train(ref, rop, rX, ry, rw, use_w_of(rD))
                    n_eval += 1
                refpred = full_pred(ref, task)
            except Exception as ex:
                refpred = h.raised_outcome(ex, ids)
            p, dd = h.observe(obj, owned, ids)
            ev = {"ev": op, "d": D, "pids": p, "dids": dd, "pred": pred, "ref": refpred, "refcalls": refcalls,
                  "match": 0, "base": bare.pred() if (bare is not None and not raised) else []}
            if raised:
                ev["raised"] = raised
            events.append(ev)
            if raised:
                break   # the state of an object whose fit raised is not specified
        elif op == "Predict":
            calls.append({"call": "predict_proba / predict on the probe points"})
            try:
                # the hard predictions on the far probes are made (they advance the classifier's generator, which
                # is what a later fit must not see) but not compared here: breaking a tie twice may legitimately
                # give two answers; the event carries the tie part of the last fit
                tie = full_pred(obj, task)[len(h.predictions(obj, task)):]
                last = [e for e in events if e["ev"] in ("Fit", "PartialFit")]
                pred = h.predictions(obj, task) + (last[-1]["pred"][-len(tie):] if tie and last else tie)
            except Exception as ex:
                events.append({"ev": "Raised", "call": "predict", "exc": h.exc_text(ex)})
                break
            p, dd = h.observe(obj, owned, ids)
            events.append({"ev": "Predict", "pids": p, "dids": dd, "pred": pred})
        elif op == "SetParams":
            new = cfg["alt"][0]()
            calls.append({"call": "set_params", "params": jsonable(new)})
            obj.set_params(**new)
            proto.set_params(**json_copy(new))
            if bare is not None:
                bare.proto.set_params(**{k[len("estimator__"):]: v for k, v in json_copy(new).items()
                                         if k.startswith("estimator__")})
            owned = [(k, new[k]) if k in new else (k, o) for k, o in owned]
            p, dd = h.observe(obj, owned, ids)
            events.append({"ev": "SetParams", "pids": p, "dids": dd, "sym": bool(cfg["alt"][1])})
        else:
            raise tlc.MachineryError("unexpected operation %r in an estimator history" % (op,))
    ops = "/".join("%s%s" % (s["op"][0] if s["op"] != "PartialFit" else "pf",
                             "".join(str(x[0]) for x in s["d"])) for s in hist["steps"])
    return ({"id": "%s/%s" % (cfg["name"], ops), "cls": cfg["cls"], "cfg": cfg["name"], "label": cfg["label"],
             "kind": cfg["kind"], "wsize": cfg["wsize"], "onlyLab": cfg["onlyLab"], "sym": cfg["sym"],
             "band": h.BAND, "params0": pids0, "dicts0": dids0, "events": events,
             "concrete": {"object": cfg["name"], "param_names": pnames, "owned_names": [k for k, _ in owned],
                          "calls": calls, "probe_points": h.PROBES.tolist(),
                          "reference": "sklearn.base.clone(unfitted prototype) given the calls in 'refcalls'"}},
            n_eval)


def json_copy(params):
    """an independent copy of set_params values for the reference prototype"""
    import copy

    return copy.deepcopy(params)


def _env(tab):
    """the environment of a stream strategy: a fitted classifier"""
    from skactiveml.classifier import ParzenWindowClassifier

    X = np.array([tab.X[i] for i in sorted(tab.X)])
    y = np.array([0, 1, np.nan, 1, 0, np.nan])[:len(X)]
    clf = ParzenWindowClassifier(classes=[0, 1], random_state=0, metric_dict={"gamma": 0.3})
    return clf.fit(X, y)


def _strat_job(arg):
    ci, hi, tabseed = arg
    cfg = _SCFGS[ci]
    hist = _HISTS[("strategy", 0, False)][hi]
    tab = h.Table(tabseed)
    ids = h.Ids()
    obj, owned = cfg["make"]()
    clf = None if cfg["manager"] else _env(tab)
    pids0, dids0 = h.observe(obj, owned, ids)
    pnames = [k for k, _ in h.param_digests(obj)]
    events, calls, n_eval = [], [], 0
    last = None
    for step in hist["steps"]:
        raised = None
        if step["op"] == "Query":
            D = step["d"]
            X, y, _ = tab.data(D, "clf")
            utils = np.array([((3 * s[0]) % 8) / 8.0 for s in D])
            try:
                with warnings.catch_warnings():
                    warnings.simplefilter("ignore")
                    if cfg["manager"]:
                        calls.append({"call": "query_by_utility", "utilities": utils.tolist()})
                        res, ut = obj.query_by_utility(utils.copy()), utils
                    else:
                        sig = inspect.signature(obj.query).parameters
                        kw = {"return_utilities": True}
                        if "clf" in sig:
                            kw["clf"] = clf
                        if "X" in sig:
                            kw["X"], kw["y"] = X.copy(), y.copy()
                        calls.append({"call": "query", "candidates": X.tolist(), "X": X.tolist(), "y": y.tolist()})
                        res, ut = obj.query(X.copy(), **kw)
                last = (X, res, ut)
            except Exception as ex:
                raised = h.exc_text(ex)
            n_eval += 1
            p, dd = h.observe(obj, owned, ids)
            events.append({"ev": "Query", "d": D, "pids": p, "dids": dd})
        elif step["op"] == "Update":
            if last is None:
                break
            calls.append({"call": "update", "queried_indices": np.asarray(last[1]).tolist()})
            try:
                with warnings.catch_warnings():
                    warnings.simplefilter("ignore")
                    sc._call_update(obj, cfg["manager"], last[0].copy(), last[1], last[2])
            except Exception as ex:
                raised = h.exc_text(ex)
            n_eval += 1
            p, dd = h.observe(obj, owned, ids)
            events.append({"ev": "Update", "pids": p, "dids": dd})
        elif step["op"] == "SetParams":
            calls.append({"call": "set_params", "params": {"budget": 0.25}})
            obj.set_params(budget=0.25)
            p, dd = h.observe(obj, owned, ids)
            events.append({"ev": "SetParams", "pids": p, "dids": dd, "sym": False})
        else:
            raise tlc.MachineryError("unexpected operation %r in a strategy history" % (step["op"],))
        if raised:   # the parameter frame is checked for a failing call too; then the history ends
            events[-1]["raised"] = raised
            break
    ops = "/".join(s["op"][0] + "".join(str(x[0]) for x in s["d"]) for s in hist["steps"])
    return ({"id": "%s/%s" % (cfg["name"], ops), "cls": cfg["cls"], "cfg": cfg["name"], "label": cfg["label"],
             "manager": cfg["manager"], "kind": "strategy", "wsize": 0, "onlyLab": False, "sym": False, "band": 0,
             "params0": pids0, "dicts0": dids0, "events": events,
             "concrete": {"object": cfg["name"], "param_names": pnames, "owned_names": [k for k, _ in owned],
                          "calls": calls}},
            n_eval)


METHOD = {"Fit": "fit", "PartialFit": "partial_fit", "Predict": "predict", "Query": "query", "Update": "update",
          "SetParams": "set_params", "Fresh": "clone"}


def key_of(tr, rej):
    """<Class.method>|<parameter(s) that changed, else the configuration>|<failed clause(s)>"""
    oe = rej["offending_event"] or {}
    k = rej["matched_events"]
    method = METHOD.get(oe.get("ev"), oe.get("call", "end-of-trace"))
    if tr.get("manager") and method == "query":
        method = "query_by_utility"
    prev_p = tr["events"][k - 1]["pids"] if k > 0 and "pids" in tr["events"][k - 1] else tr["params0"]
    prev_d = tr["events"][k - 1]["dids"] if k > 0 and "dids" in tr["events"][k - 1] else tr["dicts0"]
    pn, dn = tr["concrete"]["param_names"], tr["concrete"]["owned_names"]
    changed = [pn[i] for i in range(min(len(pn), len(oe.get("pids", [])))) if oe["pids"][i] != prev_p[i]]
    changed_d = ["caller's " + dn[i] for i in range(min(len(dn), len(oe.get("dids", [])))) if oe["dids"][i] != prev_d[i]]
    clauses = list(rej["failed_clauses"])
    names = []
    if "params-unchanged" in clauses:
        names += changed
    if "caller-objects-unchanged" in clauses:
        names += changed_d
    if oe.get("ev") == "Raised":
        clauses = ["raised-" + oe["exc"].split(":")[0]]
    elif oe.get("raised") and set(clauses) - {"params-unchanged", "caller-objects-unchanged"}:
        clauses.append("raised-" + oe["raised"].split(":")[0])
    return "%s.%s|%s|%s" % (tr["cls"], method, ",".join(names) or tr["label"], "+".join(clauses) or "unmatched")


def main(tier="quick", seed=0):
    global _CFGS, _SCFGS
    chk = Check("C13", tier, seed)
    import_repo()
    quick = tier == "quick"
    rng = np.random.RandomState(2000 + seed)
    # (M)
    chk.model_check("MC_FitModel", "MC_FitModel.cfg")
    h.expect_violation(chk, "MC_FitModel_alias.cfg", "HistoryFree")
    h.expect_violation(chk, "MC_FitModel_aliasframe.cfg", "ParamsFrame")
    h.expect_violation(chk, "MC_FitModel_stale.cfg", "WindowRestart")
    # (G)
    hists = chk.generate("MC_FitModel", "FitModel_gen_hist.cfg" if quick else "FitModel_gen_hist4.cfg")
    if quick:
        # depth-3 histories that contain a set_params step (a refit after set_params must use the new value)
        hists += [hs for hs in chk.generate("MC_FitModel", "FitModel_gen_hist3s.cfg")
                  if any(st["op"] == "SetParams" for st in hs["steps"])]
    # histories over data sets in which ONE class is observed: train, predict, train on another class set
    flips = [hs for hs in chk.generate("MC_FitModel", "FitModel_gen_flip.cfg")
             if hs["steps"][1]["op"] == "Predict" and hs["steps"][0]["op"] != "Predict"
             and hs["steps"][2]["op"] != "Predict" and hs["steps"][0]["d"] != hs["steps"][2]["d"]]
    for hs in flips:
        hs["flip"] = True
    hists += flips
    _HISTS.clear()
    for hs in hists:
        _HISTS.setdefault((hs["kind"], hs["wsize"], hs["onlyLab"]), []).append(hs)
    _CFGS, _SCFGS = estimator_configs(), strategy_configs()
    have = {c["cls"] for c in _CFGS}
    miss = [n for n in required_classes() if n not in have]
    have_s = {c["cls"] for c in _SCFGS}
    miss += [n for n in required_strategies() if n not in have_s]
    if miss:
        raise tlc.MachineryError("no C13 configuration for exported classes: %s" % miss)
    # (T) estimators
    jobs = []
    cap = 70 if quick else 100000
    for ci, cfg in enumerate(_CFGS):
        key = (cfg["kind"], cfg["wsize"], cfg["onlyLab"])
        ok = [i for i, hs in enumerate(_HISTS.get(key, []))
              if (cfg["partial"] or all(s["op"] != "PartialFit" for s in hs["steps"]))
              and (cfg["alt"] or all(s["op"] != "SetParams" for s in hs["steps"]))]
        if not ok:
            raise tlc.MachineryError("no history for configuration %s" % cfg["name"])
        if len(ok) > cap:
            forced = [i for i in ok if _HISTS[key][i].get("flip") and cfg["task"] == "clf"]
            ok = sorted(set([ok[int(j)] for j in rng.choice(len(ok), size=cap, replace=False)] + forced))
        for i in ok:
            jobs.append((ci, key, i, int(rng.randint(0, 4) + 10 * seed)))
    jobs = [jobs[int(j)] for j in rng.permutation(len(jobs))]   # spread slow estimators over the workers
    out = pmap(_est_job, jobs)
    traces = []
    for tr, n in out:
        traces.append(tr)
        chk.count(n)
        if sum(1 for e in tr["events"] if e["ev"] in ("Fit", "PartialFit")) >= 2:
            chk.case(tr["id"])
    chk.sample({"trace": traces[len(traces) // 3]})
    chk.validate("FitModelTrace", traces, describe=lambda t: t["concrete"], key_of=key_of, chunk=400)
    # (T) budget managers and stream strategies
    sjobs = [(ci, i, int(rng.randint(0, 4) + 10 * seed))
             for ci in range(len(_SCFGS)) for i in range(len(_HISTS[("strategy", 0, False)]))]
    sout = pmap(_strat_job, sjobs)
    straces = []
    for tr, n in sout:
        straces.append(tr)
        chk.count(n)
        if len(tr["events"]) >= 2:
            chk.case(tr["id"])
    chk.sample({"trace": straces[len(straces) // 2]})
    chk.validate("FitModelTrace", straces, describe=lambda t: t["concrete"], key_of=key_of, chunk=600)
    chk.extra["estimator_configurations"] = [c["name"] for c in _CFGS]
    chk.extra["strategy_configurations"] = [c["name"] for c in _SCFGS]
    chk.extra["not_generated"] = {
        "NICKernelRegressor(metric_dict={'gamma':'mean'})": "not a supported value: predict raises TypeError "
                                                             "(pairwise_kernels gets the string)",
        "EstimatedBudgetZliobaite": "abstract base class",
    }
    chk.rule = ("call histories of depth %d enumerated by TLC from FitModel (Fit/PartialFit on 3 data sets, Predict%s; "
                "Query on 3 candidate sets, Update) replayed on %d estimator configurations and %d budget-manager / "
                "stream-strategy configurations (%s histories per configuration%s); one evaluation = one training / "
                "query / update call on a real object (reference clones included); distinct non-trivial = (configuration, "
                "history) with at least two training calls (estimators) or two calls (strategies)"
                % (3 if quick else 4, "" if quick else ", SetParams", len(_CFGS), len(_SCFGS),
                   "all" if not quick else "a seeded sample of <= %d" % cap, ""))
    chk.assumptions = [
        "TLC 1.8 evaluates the modules correctly",
        "get_params(deep=True) entries are compared by content digest (dicts by content, estimators by class and "
        "parameters); caller-owned dicts / estimators / managers by content and instance attributes",
        "predictions are compared on 4 fixed probe points with band %d/2^20" % h.BAND,
        "estimators are seeded with integers (a RandomState instance as random_state is consumed by design)",
        "the weights of one history are either always given or never (mixing None and arrays in partial_fit of "
        "SlidingWindowClassifier is not generated)",
    ]
    return chk.finish()
