"""C03 - see stream_checks.py (shared machinery of the stream properties)."""
from .stream_checks import main_for


def main(tier="quick", seed=0):
    return main_for("C03", tier, seed)
