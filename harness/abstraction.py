"""Abstraction functions (alpha) between numpy values and the integers of the
TLA+ modules, and their inverses (concretisers)."""

import hashlib
import math
import pickle

import numpy as np

NAN = -1000000  # Common!NaN


def signed_ranks(*arrays):
    """Sign-preserving dense ranks computed jointly over all given float
    arrays: negative values -> -k..-1, 0.0 -> 0, positive values -> 1..m,
    NaN -> NAN.  Exact float equality / order, no tolerance.  Returns lists
    of python ints with the shapes flattened in row-major order."""
    flat = [np.asarray(a, dtype=float).ravel() for a in arrays]
    allv = np.concatenate(flat) if flat else np.zeros(0)
    vals = np.unique(allv[~np.isnan(allv)])
    neg = vals[vals < 0]
    pos = vals[vals > 0]
    table = {}
    for i, v in enumerate(neg):
        table[float(v)] = i - len(neg)
    for i, v in enumerate(pos):
        table[float(v)] = i + 1
    table[0.0] = 0
    out = []
    for a in flat:
        out.append([NAN if math.isnan(v) else table[float(v)] for v in a])
    return out


def concretise_ranks(ranks, lo_inf=None, hi_inf=None, rng=None, near=False, scale=None):
    """Abstract integer values -> floats with the same order and sign.
    Optionally the smallest negative / largest positive value becomes
    -inf / +inf."""
    base = {}
    vals = sorted(set(v for v in ranks if v != NAN))
    for v in vals:
        if v == 0:
            base[v] = 0.0
        elif near:  # neighbouring floats: distinct values differ by a few ulp
            base[v] = (1.0 + abs(v) * 2.0 ** -50) * (1 if v > 0 else -1)
        elif v > 0:
            base[v] = 0.25 * v if rng is None else float(v - 1 + rng.uniform(0.05, 0.95))
        else:
            base[v] = -0.5 * (-v) if rng is None else float(v + 1 - rng.uniform(0.05, 0.95))
    if scale is not None:   # huge magnitudes (x - 1 == x): same order and sign
        base = {v: b * scale for v, b in base.items()}
    if lo_inf and vals and vals[0] < 0:
        base[vals[0]] = -np.inf
    if hi_inf and vals and vals[-1] > 0:
        base[vals[-1]] = np.inf
    return np.array([np.nan if v == NAN else base[v] for v in ranks], dtype=float)


def digest(obj):
    """Stable short digest of arrays / nested python structures."""
    h = hashlib.sha1()
    _feed(h, obj)
    return h.hexdigest()[:16]


def _feed(h, obj):
    if isinstance(obj, np.ndarray):
        h.update(b"nd" + str(obj.dtype).encode() + str(obj.shape).encode())
        if obj.dtype == object:
            for v in obj.ravel().tolist():
                _feed(h, v)
        else:
            h.update(np.ascontiguousarray(obj).tobytes())
    elif isinstance(obj, dict):
        h.update(b"{")
        for k in sorted(obj, key=repr):
            _feed(h, k)
            _feed(h, obj[k])
        h.update(b"}")
    elif isinstance(obj, (list, tuple)):
        h.update(b"[" if isinstance(obj, list) else b"(")
        for v in obj:
            _feed(h, v)
        h.update(b"]")
    elif isinstance(obj, float):
        h.update(b"f" + (b"nan" if obj != obj else repr(obj).encode()))
    elif isinstance(obj, (int, str, bool, bytes)) or obj is None:
        h.update(repr(obj).encode())
    elif isinstance(obj, np.generic):
        _feed(h, obj.item())
    elif isinstance(obj, np.random.RandomState):
        st = obj.get_state()
        _feed(h, (st[0], st[1], st[2], st[3], st[4]))
    else:
        try:
            h.update(pickle.dumps(obj))
        except Exception:
            h.update(repr(type(obj)).encode())


def is_dyadic(x, max_den_pow=40):
    """True when float x is a dyadic rational with a small denominator."""
    if not math.isfinite(x):
        return False
    n, d = float(x).as_integer_ratio()
    return d <= 2 ** max_den_pow


def ratio(x):
    """float -> [num, den] exact."""
    n, d = float(x).as_integer_ratio()
    return [int(n), int(d)]
