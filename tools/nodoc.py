#!/usr/bin/env python3
"""print a python file without docstrings (reading aid)"""
import ast, sys
src = open(sys.argv[1]).read()
tree = ast.parse(src)
for node in ast.walk(tree):
    if isinstance(node, (ast.FunctionDef, ast.ClassDef, ast.Module, ast.AsyncFunctionDef)):
        if node.body and isinstance(node.body[0], ast.Expr) and isinstance(getattr(node.body[0], 'value', None), ast.Constant) and isinstance(node.body[0].value.value, str):
            node.body = node.body[1:] or [ast.Pass()]
print(ast.unparse(tree))
