#!/usr/bin/env python3
"""rewrites the seeded-changes table of DESIGN.md (between the markers) from /verif/seeded/*/meta.json"""
import glob, json, os, re
HERE = os.path.dirname(os.path.dirname(os.path.abspath(__file__)))
rows = ["| id | breaks | change (site) | needs to manifest | caught by (quick) | strengthening it required |", "|---|---|---|---|---|---|"]
for f in sorted(glob.glob(os.path.join(HERE, "seeded", "*", "meta.json"))):
    m = json.load(open(f))
    rows.append("| %s | %s | %s | %s | %s | %s |" % (m["id"], m["breaks_property"], m.get("summary", "-"),
                                               m.get("needs", "-"), ", ".join(m["caught_by_quick_checks"]) or "MISSED",
                                               m.get("strengthening", "none")))
table = "\n".join(rows)
p = os.path.join(HERE, "DESIGN.md")
s = open(p).read()
if "SEEDED_TABLE" in s:
    s = s.replace("SEEDED_TABLE", "<!-- seeded:begin -->\n" + table + "\n<!-- seeded:end -->")
else:
    s = re.sub(r"<!-- seeded:begin -->.*?<!-- seeded:end -->", "<!-- seeded:begin -->\n" + table + "\n<!-- seeded:end -->", s, flags=re.S)
# own mutation campaign (tools/mutate.py): one row per mutant
ASSESS = {
    "S09": "equivalent (u_t_ < w always holds: the added factor is 1)",
    "S18": "control (whitespace)", "P02": "control (whitespace)", "E03": "control (LabelEncoder sorts its classes)",
    "L01": "equivalent for every sentinel / dtype combination check_missing_label accepts",
    "L03": "allowed by C17 (\"a class with maximal vote\": any tie-break is fine)",
    "P08": "allowed: the seed derivation is not part of any listed property (results stay reproducible)",
    "R01": "equivalent (a zero fallback std is reset to 1 two lines later)",
    "R02": "equivalent (idx_ is always re-assigned, never mutated in place)",
    "I03": "equivalent (y_ is always re-assigned, never mutated in place)",
}
mc = os.path.join(HERE, "seeded", "mutation_campaign.json")
if os.path.exists(mc):
    d = json.load(open(mc))
    mrows = ["| mutant | site | change | checks run | outcome |", "|---|---|---|---|---|"]
    for k in sorted(d):
        v = d[k]
        out = ("caught by " + ", ".join(v["caught_by"])) if v["caught_by"] else ("not flagged - " + ASSESS.get(k, "MISSED"))
        mrows.append("| %s | %s | %s | %s | %s |" % (k, v["path"].replace("skactiveml/", ""), v["note"].replace("|", "/"),
                                                  ", ".join(sorted(v["checks"])), out))
    n_c = sum(1 for v in d.values() if v["caught_by"])
    head = ("%d mutants: %d flagged, %d not flagged (equivalent mutants, changes the properties allow, and controls "
            "that must not be flagged)\n\n" % (len(d), n_c, len(d) - n_c))
    mt = head + "\n".join(mrows)
    if "<!-- mutants:begin -->" in s:
        s = re.sub(r"<!-- mutants:begin -->.*?<!-- mutants:end -->", "<!-- mutants:begin -->\n" + mt + "\n<!-- mutants:end -->", s, flags=re.S)
open(p, "w").write(s)
print(table)
