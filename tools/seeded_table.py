#!/usr/bin/env python3
"""rewrites the seeded-changes table of DESIGN.md (between the markers) from /verif/seeded/*/meta.json"""
import glob, json, os, re
HERE = os.path.dirname(os.path.dirname(os.path.abspath(__file__)))
rows = ["| id | breaks | change (site) | needs to manifest | caught by (quick) | strengthening it required |", "|---|---|---|---|---|---|"]
for f in sorted(glob.glob(os.path.join(HERE, "seeded", "*", "meta.json"))):
    m = json.load(open(f))
    rows.append("| %s | %s | %s | %s | %s | %s |" % (m["id"], m["breaks_property"], m.get("summary", "-"),
                                               m.get("needs", "-"), ", ".join(m["caught_by_quick_checks"]) or "MISSED",
                                               m.get("strengthening", "none")))
table = "\n".join(rows)
p = os.path.join(HERE, "DESIGN.md")
s = open(p).read()
if "SEEDED_TABLE" in s:
    s = s.replace("SEEDED_TABLE", "<!-- seeded:begin -->\n" + table + "\n<!-- seeded:end -->")
else:
    s = re.sub(r"<!-- seeded:begin -->.*?<!-- seeded:end -->", "<!-- seeded:begin -->\n" + table + "\n<!-- seeded:end -->", s, flags=re.S)
open(p, "w").write(s)
print(table)
