#!/bin/sh
# tools/try_patch.sh <abs path of patch.diff> <Cxx> [<Cyy> ...]
# applies a seeded change to a scratch worktree of /repo HEAD (never to /repo itself, so that checks running
# concurrently against /repo are not disturbed), runs the quick checks against it (VERIF_REPO; evidence
# redirected, replays kept in /verif/replays), removes the worktree
P="$1"; shift
cd /verif || exit 2
WT=/tmp/try-repo-$$
mkdir -p /tmp/try_patch_evidence
git -C /repo worktree add --detach -q "$WT" HEAD || exit 2
git -C "$WT" apply "$P" || { echo "patch does not apply"; git -C /repo worktree remove --force "$WT"; exit 2; }
for c in "$@"; do
  VERIF_REPO="$WT" VERIF_EVIDENCE_DIR=/tmp/try_patch_evidence VERIF_KEEP_REPLAYS=1 ./check "$c" --tier quick > /tmp/try_patch_$c.log 2>&1
  rc=$?
  echo "== $c exit=$rc  $(grep -c '^VIOLATION' /tmp/try_patch_$c.log) violation line(s)"
  grep -A1 '^VIOLATION' /tmp/try_patch_$c.log | grep -v '^VIOLATION\|^--' | cut -c1-230 | head -4
done
git -C /repo worktree remove --force "$WT"
