#!/bin/sh
# tools/try_patch.sh <patch.diff> <Cxx> [<Cyy> ...]  - apply a seeded change to /repo, run the quick checks, undo it
P="$1"; shift
cd /verif || exit 2
mkdir -p /tmp/try_patch_evidence
git -C /repo apply "$P" || { echo "patch does not apply"; exit 2; }
for c in "$@"; do
  VERIF_EVIDENCE_DIR=/tmp/try_patch_evidence VERIF_KEEP_REPLAYS=1 ./check "$c" --tier quick > /tmp/try_patch_$c.log 2>&1
  rc=$?
  echo "== $c exit=$rc  $(grep -c '^VIOLATION' /tmp/try_patch_$c.log) violation line(s)"
  grep -A1 '^VIOLATION' /tmp/try_patch_$c.log | grep -v '^VIOLATION\|^--' | cut -c1-230 | head -4
done
git -C /repo checkout -- . 
git -C /repo status --short | grep -v '^??' 
