#!/usr/bin/env python3
"""tools/mutate.py [--only id,...] [--tests]  - own mutation campaign (complements the sub-agents' seeded changes).

Each mutant is (id, checks, file, old, new[, occurrence]): the `occurrence`-th (default: the only) occurrence of
`old` in <scratch worktree of /repo HEAD>/<file> is replaced by `new`, the named quick checks run with
VERIF_REPO pointing at the scratch worktree (evidence and replays redirected to /tmp), and the file is restored.  A mutant counts as caught when at least one check exits 1 with a VIOLATION
line; exit 2 (machinery failure) is reported separately.  With --tests the test file(s) given for the mutant are
run for every MISSED mutant (a missed mutant that fails the existing tests is of no interest).
Results are appended to /verif/seeded/mutation_campaign.json (read by DESIGN.md 11.6)."""
import json
import os
import subprocess
import sys
import time

REPO = os.environ.get("MUT_REPO", "/tmp/mut-repo")      # scratch worktree of /repo HEAD; /repo itself is never touched
M = []
OUT = REPO + "-out"


def m(mid, checks, path, old, new, occ=None, tests=None, note=""):
    assert all(x["id"] != mid for x in M), "duplicate mutant id %s" % mid
    M.append(dict(id=mid, checks=checks.split(","), path=path, old=old, new=new, occ=occ, tests=tests, note=note))


ZL = "skactiveml/stream/budgetmanager/_estimated_budget_zliobaite.py"
SB = "skactiveml/stream/_stream_baselines.py"
TB = "skactiveml/stream/budgetmanager/_threshold_budget.py"
BQ = "skactiveml/stream/budgetmanager/_balanced_incremental_quantile_filter.py"
DU = "skactiveml/stream/_density_uncertainty.py"
US = "skactiveml/stream/_uncertainty_zliobaite.py"

# ---- stream: C03 / C04 / C10
m("S01", "C04,C10", ZL, "budget_left.append(tmp_u_t / self.w < self.budget_)", "budget_left.append(tmp_u_t / self.w <= self.budget_)", occ=1,
  note="FixedUncertaintyBudgetManager guard <= instead of <")
m("S03", "C03", ZL, "                    tmp_theta *= 1 - self.s", "                    tmp_theta *= 1 - self.s\n                    self.theta_ = tmp_theta", occ=1,
  note="VariableUncertainty query leaks theta")
m("S04", "C10", ZL, "            tmp_u_t = tmp_u_t * ((self.w - 1) / self.w) + s\n", "            tmp_u_t = tmp_u_t * ((self.w - 1) / self.w)\n", occ=1,
  note="VariableUncertainty update forgets the granted label in the running estimate")
m("S05", "C03,C10", ZL, "        self.random_state_.set_state(prior_random_state)", "        pass", occ=1,
  note="RandomVariableUncertainty query does not restore the generator")
m("S06", "C10", ZL, "        self.random_state_.random_sample(len(candidates))", "        self.random_state_.random_sample(len(queried_indices))", occ=1,
  note="RandomVariable update advances the generator by the number of queried instead of candidates")
m("S07", "C10,C03", ZL, "                    _ = self.random_state_.random_sample()", "                    pass", occ=1,
  note="Split update skips the second draw")
m("S08", "C04", ZL, "            budget_left = tmp_u_t / self.w < self.budget_", "            budget_left = tmp_u_t / (self.w + 1) < self.budget_", occ=1,
  note="RandomBudgetManager guard uses w+1")
m("S09", "C10,C04", ZL, "            self.u_t_ = self.u_t_ * ((self.w - 1) / self.w) + s", "            self.u_t_ = self.u_t_ * ((self.w - 1) / self.w) + bool(s) * (self.u_t_ < self.w)", occ=1,
  note="base update saturates")
m("S10", "C04,C10,C03", SB, "remaining_budget >= 1", "remaining_budget > 0", occ=1, note="StreamRandomSampling grants with a fractional remaining budget")
m("S11", "C04,C10", TB, "self.budget_ > tmp_u / tmp_t", "self.budget_ >= tmp_u / tmp_t", occ=1, note="threshold manager guard >=")
m("S12", "C03,C10", BQ, "tmp_history_sorted_ = copy(self.history_sorted_)", "tmp_history_sorted_ = self.history_sorted_", occ=1, note="BIQF query appends to the committed history")
m("S13", "C10", BQ, "self.history_sorted_.extend(utilities)", "self.history_sorted_.extend(utilities[queried_indices])", occ=1, note="BIQF update records only the queried utilities")
m("S14", "C04,C10", BQ, "                tmp_queried_samples_ += 1\n", "", occ=1, note="BIQF query does not count the labels granted inside the chunk")
m("S15", "C10,C03", TB, "            tmp_t += 1\n            budget_left = self.budget_ > tmp_u / tmp_t", "            budget_left = self.budget_ > tmp_u / max(tmp_t, 1)\n            tmp_t += 1", occ=1, note="threshold manager query tests before counting the instance (update counts first)")
m("S16", "C03", SB, "        self.random_state_.set_state(prior_random_state)\n", "", occ=1, note="StreamRandomSampling query keeps the advanced generator")
m("S17", "C04", SB, "self.allow_exceeding_budget or available_budget > 1", "self.allow_exceeding_budget or available_budget > 0", occ=1, note="StreamRandomSampling grants with fractional budget")
m("S18", "C03,C04,C10", SB, "utilities = np.zeros(candidates.shape[0])", "utilities = np.zeros(candidates.shape[0]) ", occ=1, note="control: whitespace only (must NOT be caught)")

# ---- selection primitives / pool core: C01 C02 C18
SEL = "skactiveml/utils/_selection.py"
BASE = "skactiveml/base.py"
m("P01", "C18,C02", SEL, "utilities[tuple(best_indices[i])] = np.nan", "utilities[tuple(best_indices[i])] = -np.inf",
  note="simple_batch masks the winner with -inf instead of NaN")
m("P02", "C18", SEL, "batch_utilities[i] = utilities\n", "batch_utilities[i] = utilities \n", note="control: whitespace only (must NOT be caught)")
m("P03", "C18,C02", SEL, "* (a == np.nanmax(a, **argmax_kwargs, keepdims=True)),", "* (a >= np.nanmax(a, **argmax_kwargs, keepdims=True) - 1e-9),",
  note="rand_argmax treats near-maxima as maxima")
m("P04", "C18", SEL, "batch_utilities[i, best_indices[:i]] = np.nan", "batch_utilities[i, best_indices[: i + 1]] = np.nan",
  note="proportional: the pick of step i is already NaN in row i")
m("P05", "C18,C01", SEL, "max_batch_size = np.sum(~np.isnan(utilities), dtype=int)", "max_batch_size = np.sum(~np.isnan(utilities), dtype=int) + 1",
  note="batch size clipped one too high")
m("P06", "C09,C14", BASE, "ulbd_idx = unlabeled_indices(y, self.missing_label_)", "ulbd_idx = unlabeled_indices(y)",
  note="candidates=None uses the default sentinel")
m("P07", "C06", BASE, "self.random_state_ = check_random_state(self.random_state, seed_mult)", "self.random_state_ = check_random_state(self.random_state_ if hasattr(self, 'random_state_') else self.random_state, seed_mult)",
  note="pool strategies keep a RandomState between queries (still reproducible?)")
m("P08", "C05,C06", BASE, "seed_mult = int(np.sum(is_unlabeled(y, self.missing_label_))) + 1", "seed_mult = 1", note="seed no longer varies with the number of unlabeled samples (benign for the listed properties? control)")

# ---- labels / aggregation: C16 C17 C12
LAB = "skactiveml/utils/_label.py"
AGG = "skactiveml/utils/_aggregation.py"
m("L01", "C16", LAB, "        return y.astype(target_type) == missing_label", "        return y == missing_label", note="is_unlabeled compares without casting to the common dtype")
m("L02", "C17,C12", AGG, "    w[np.logical_or(np.isnan(w), is_unlabeled_y)] = 0", "    w[np.isnan(w)] = 0", note="vote vectors count missing entries as class 0 with weight 1")
m("L03", "C17", AGG, "        vote_vector = rand_argmax(vote_matrix, random_state, axis=1)", "        vote_vector = np.argmax(vote_matrix, axis=1)", note="majority_vote breaks ties deterministically (allowed? ties arbitrary) (control?)")
m("L04", "C17", AGG, "y_off = y + np.arange(y.shape[0])[:, None] * n_classes", "y_off = y + np.arange(y.shape[0])[:, None] * max(n_classes, 2)", note="control: same for >= 2 classes; differs for one class")

# ---- classifiers: C11 C12 C13
CW = "skactiveml/classifier/_wrapper.py"
m("K01", "C11", BASE, "        P[normalizer == 0, :] = [1 / len(self.classes_)] * len(self.classes_)", "        P[normalizer == 0, :] = 0", note="zero-mass rows stay zero")
m("K02", "C11,C09", CW, "P_ext[:, class_indices] = 1 if len(class_indices) == 1 else P", "P_ext[:, : len(class_indices)] = 1 if len(class_indices) == 1 else P", note="probability columns of a partially observed class set are left-aligned")
m("K03", "C11", CW, "        if sum(self._label_counts) == 0:\n            return np.ones([len(X), len(self.classes_)]) / len(self.classes_)", "        if sum(self._label_counts) == 0:\n            return np.ones([len(X), len(self.classes_)])", note="unfitted fallback not normalised")
m("K04", "C12", CW, "        is_lbld = is_labeled(y, missing_label=self.missing_label_)", "        is_lbld = np.ones(len(y), dtype=bool) if sample_weight is None and False else is_labeled(y, missing_label=self.missing_label_)", note="control: equivalent")


# ---- wrappers / multi-annotator: C20 C07
PW = "skactiveml/pool/_wrapper.py"
MW = "skactiveml/pool/multiannotator/_wrapper.py"
m("W01", "C20", PW, "                new_utilities[:, candidate_indices] = -np.inf\n                new_utilities[:, new_candidates] = utilities[:, new_candidates]",
  "                new_utilities[:, candidate_indices] = np.nan\n                new_utilities[:, new_candidates] = utilities[:, new_candidates]",
  note="SubSamplingWrapper reports NaN instead of -inf for candidates outside the sub-sample")
m("W02", "C20", PW, "size=max_candidates, replace=False", "size=max_candidates, replace=True", occ=1,
  note="sub-sample drawn with replacement (fewer distinct candidates than documented)")
m("W03", "C07,C20", MW, "            if annotator_ps >= n_as_annotators[sample_index]:", "            if annotator_ps > n_as_annotators[sample_index]:",
  note="one annotator too many per sample")
m("W04", "C07", MW, "        annotator_utilities[:, ~A] = np.nan", "        annotator_utilities[:, ~A] = -np.inf",
  note="unavailable annotators get -inf instead of NaN")
m("W05", "C20,C07", MW, "candidate_utilities, method=\"ordinal\", axis=1", "-candidate_utilities, method=\"ordinal\", axis=1",
  note="rank transform reverses the wrapped strategy's order")

# ---- regressors / index wrapper: C15 C19
RB = "skactiveml/base.py"
RW = "skactiveml/regressor/_wrapper.py"
PU = "skactiveml/pool/utils.py"
m("R01", "C15", RW, "self._label_std = np.std(y[is_lbld]) if np.sum(is_lbld) > 1 else 1", "self._label_std = np.std(y[is_lbld]) if np.sum(is_lbld) > 0 else 1",
  note="fallback std of a single label is 0 (then reset to 1?)")
m("R02", "C19", PU, "                self.base_idx_ = self.idx_.copy()", "                self.base_idx_ = self.idx_", occ=1,
  note="base index array aliased")

# ---- determinism / side effects: C05 C06
US = "skactiveml/pool/_uncertainty_sampling.py"
RS = "skactiveml/pool/_random_sampling.py"
m("D01", "C05", US, "                clf = clone(clf).fit(X, y, sample_weight)", "                clf = clf.fit(X, y, sample_weight)", occ=1,
  note="UncertaintySampling fits the caller's classifier (with sample weights)")
m("D02", "C05", US, "                clf = clone(clf).fit(X, y)", "                clf = clf.fit(X, y)", occ=1,
  note="UncertaintySampling fits the caller's classifier")
m("D03", "C06", RS, "            self.random_state_,\n", "            None,\n", occ=1,
  note="RandomSampling selects with an unseeded generator")


# ---- batch D: index wrapper, density strategies, multi-annotator base, encoders
DU2 = "skactiveml/stream/_density_uncertainty.py"
ENC = "skactiveml/utils/_label_encoder.py"
m("I01", "C19", PU, "            if set_base_clf:\n                self.base_clf_ = deepcopy(self.clf_)", "            if set_base_clf:\n                self.base_clf_ = self.clf_",
  note="native partial_fit: the base model aliases the working model")
m("I02", "C19", PU, "                cur_idx = np.array([i not in add_idx for i in self.idx_])", "                cur_idx = np.array([i not in add_idx[:1] for i in self.idx_])",
  note="enforce_unique_samples only removes the first re-added index")
m("I03", "C19", PU, "                self.y_ = self.base_y_.copy()\n", "                self.y_ = self.base_y_\n",
  note="control?: labels aliased when restarting from the base model")
m("I04", "C19", PU, "            self.y_ = np.concatenate([self.y_[cur_idx], add_y], axis=0)", "            self.y_ = np.concatenate([self.y_, add_y], axis=0)[-len(self.idx_):]",
  note="labels misaligned when unique samples are enforced")
m("B01", "C07", BASE, "                n_candidate_pairs = len(candidates) * len(y.T)", "                n_candidate_pairs = len(candidates) * len(y)",
  note="pair count uses the number of samples instead of annotators (duplicate of seeded C07)")
m("B02", "C01,C14", BASE, "        if candidates is None:\n            ulbd_idx = unlabeled_indices(y, self.missing_label_)\n            return X[ulbd_idx], ulbd_idx",
  "        if candidates is None:\n            ulbd_idx = np.arange(len(y))\n            return X[ulbd_idx], ulbd_idx",
  note="candidates=None means all samples, also the labeled ones")
m("E01", "C16", ENC, "        y_enc[~is_lbld] = -1\n", "        y_enc[~is_lbld] = 0 if len(self.classes_) == 0 else -1\n",
  note="missing labels encoded as 0 when no class is known")
m("E02", "C16", ENC, "        y_dec = np.empty_like(y, dtype=self._dtype)", "        y_dec = np.empty_like(y, dtype=np.asarray(self.classes_).dtype)",
  note="decoded array uses the dtype of the classes (cannot hold a NaN / longer string sentinel)")
m("E03", "C16,C09", ENC, "            self._dtype = np.append(self.classes, self.missing_label).dtype\n            self._le.fit(self.classes)", "            self._dtype = np.append(self.classes, self.missing_label).dtype\n            self._le.fit(list(self.classes)[::-1])",
  note="control: LabelEncoder sorts anyway (must NOT be caught)")
# ---- batch F: density / cognitive stream strategies, query-by-committee, PWC, NIC
DUS = "skactiveml/stream/_density_uncertainty.py"
PWCF = "skactiveml/classifier/_parzen_window_classifier.py"
m("F01", "C03", DUS, "        self.min_dist_ = tmp_min_dist\n        self.window_ = tmp_window\n", "        self.window_ = tmp_window\n", occ=1,
  note="StreamDensityBasedAL.query does not restore min_dist_")
m("F02", "C03,C10", DUS, "            if local_density_factor > 0:\n                queried_indice = self.budget_manager_.query_by_utility(", "            if local_density_factor >= 0:\n                queried_indice = self.budget_manager_.query_by_utility(", occ=1,
  note="StreamDensityBasedAL.query asks the manager also for candidates without density gain (update still filters)")
m("F03", "C03", DUS, "        t = copy(self.t_)\n", "        t = self.t_\n", occ=1, note="control: ints are immutable (must NOT be caught)")
m("F04", "C03", DUS, "        self.t_x_ = tmp_t_x\n", "", occ=1, note="Cognitive query does not restore the recall time stamps")
m("F05", "C10", DUS, "            elif self.force_full_budget:\n                new_candidates.append(np.nan)\n            self.t_ += 1", "            elif self.force_full_budget:\n                new_candidates.append(np.nan)\n                self.t_ += 1", occ=1,
  note="Cognitive update counts only passing / padded candidates in t_ (differs from query for force_full_budget=False)")
m("F06", "C12", PWCF, "                w=sample_weight,\n", "                w=None,\n", occ=1, note="PWC ignores sample weights (weights of LABELED samples matter: C12 pairs keep them... )")
m("F07", "C13,C05", PWCF, "            self.metric_dict_ = self.metric_dict_.copy()", "            self.metric_dict_ = self.metric_dict_", occ=1,
  note="PWC resolves gamma='mean' inside the caller's dict again (reverts fix)")
CW = "skactiveml/classifier/_wrapper.py"
RW = "skactiveml/regressor/_wrapper.py"
m("V01", "C12,C13", CW, '                elif fit_function == "fit":\n                    fit_kwargs["sample_weight"] = sample_weight[is_lbld]\n',
  '                elif fit_function == "fit":\n                    fit_kwargs["sample_weight"] = np.ones(int(np.sum(is_lbld)))\n', occ=1,
  tests="skactiveml/classifier/tests/test_wrapper.py",
  note="SklearnClassifier.fit hands unit weights to the wrapped estimator (consistently wrong in every fit: only the wrapped-estimator reference sees it)")
m("V02", "C13", RW, '        if fit_function == "fit" or not hasattr(self, "estimator_"):\n', '        if True:\n', occ=1,
  tests="skactiveml/regressor/tests/test_wrapper.py", note="SklearnRegressor.partial_fit restarts from an unfitted copy (reverts fix)")
m("V03", "C13", CW, '            and getattr(self, "is_fitted_", False)\n', '            and False\n', occ=1,
  tests="skactiveml/classifier/tests/test_wrapper.py", note="SklearnClassifier.partial_fit: a batch without labels switches to the fallback (reverts fix)")
m("V04", "C12,C13", RW, '            estimator_params["sample_weight"] = sample_weight[is_lbld]\n', '            estimator_params["sample_weight"] = sample_weight[is_lbld] ** 2\n', occ=1,
  tests="skactiveml/regressor/tests/test_wrapper.py", note="SklearnRegressor squares the weights of the labeled samples")


AEC = "skactiveml/classifier/multiannotator/_annotator_ensemble_classifier.py"
m("AE1", "X06,C11,C13,C09", AEC, "                est[1].fit(X=X, y=y[:, i])\n", "                est[1].fit(X=X, y=y[:, 0])\n", occ=1,
  tests="skactiveml/classifier/multiannotator/tests/test_annotator_ensemble_classifier.py",
  note="every member of the annotator ensemble is trained on the first annotator's labels (valid, history-free, encoding-invariant outputs: only the member-vote oracle of X06 sees it)")
m("AE2", "X06,C11", AEC, "            P = np.sum(P, axis=0)\n", "            P = np.max(P, axis=0)\n", occ=1,
  tests="skactiveml/classifier/multiannotator/tests/test_annotator_ensemble_classifier.py",
  note="soft voting takes the maximum instead of the sum of the members' probabilities")


NICF = "skactiveml/regressor/_nic_kernel_regressor.py"
m("NK1", "X07,C15,C12", NICF, "        + kappa_1 * kappa_2 * (mu_1 - mu_2) ** 2 / kappa_com\n", "        + kappa_1 * kappa_2 * (mu_1 - mu_2) ** 2\n", occ=1,
  tests="skactiveml/regressor/tests/test_nic_kernel_regressor.py",
  note="the prior/data disagreement term of the posterior scatter is not divided by kappa (coherent outputs, wrong variance)")
m("NK2", "X07,C15,C12", NICF, "        scale = np.sqrt((1 + kappa_post) / kappa_post * sigma_sq_post)", "        scale = np.sqrt(1 / kappa_post * sigma_sq_post)", occ=1,
  tests="skactiveml/regressor/tests/test_nic_kernel_regressor.py",
  note="predictive scale without the observation noise term (1 + kappa)")
m("NK3", "X07,C15,C12", NICF, "    nu_com = nu_1 + nu_2\n", "    nu_com = nu_1 + kappa_2 / 2\n", occ=1,
  tests="skactiveml/regressor/tests/test_nic_kernel_regressor.py",
  note="degrees of freedom grow with half of the kernel mass")


IET = "skactiveml/pool/multiannotator/_interval_estimation_threshold.py"
m("IE1", "X08,C07,C09", IET, "y_mv[is_lbld[:, a_idx]], y[is_lbld[:, a_idx], a_idx]", "y_mv[is_lbld[:, a_idx]], y[is_lbld[:, a_idx], 0]", occ=1,
  tests="skactiveml/pool/multiannotator/tests/test_interval_estimation_threshold.py",
  note="every annotator's agreement with the vote is computed from the first annotator's labels")
m("IE2", "X08,C07,C09", IET, "is_correct = np.concatenate((is_correct, [0, 1]))", "is_correct = np.concatenate((is_correct, [1, 1]))", occ=1,
  tests="skactiveml/pool/multiannotator/tests/test_interval_estimation_threshold.py",
  note="both pseudo observations count as agreements")
m("IE3", "X08,C07,C09", IET, '        if self.mode == "lower":\n            mode = 0', '        if self.mode == "lower":\n            mode = 2', occ=1,
  tests="skactiveml/pool/multiannotator/tests/test_interval_estimation_threshold.py",
  note="mode='lower' returns the upper bound")


def load_extra():
    p = os.path.join(os.path.dirname(__file__), "mutants_extra.json")
    if os.path.exists(p):
        for e in json.load(open(p)):
            m(e["id"], e["checks"], e["path"], e["old"], e["new"], e.get("occ"), e.get("tests"), e.get("note", ""))


def apply(mut):
    p = os.path.join(REPO, mut["path"])
    s = open(p).read()
    n = s.count(mut["old"])
    if n == 0:
        return "old text not found"
    if mut["occ"] is None and n != 1:
        return "old text occurs %d times (give occ)" % n
    k = mut["occ"] or 1
    if k > n:
        return "occurrence %d > %d" % (k, n)
    pos = -1
    for _ in range(k):
        pos = s.find(mut["old"], pos + 1)
    s = s[:pos] + mut["new"] + s[pos + len(mut["old"]):]
    open(p, "w").write(s)
    r = subprocess.run(["/venv/bin/python", "-c", "import sys; sys.path.insert(0,'%s'); import skactiveml.pool, skactiveml.stream, skactiveml.classifier, skactiveml.regressor" % REPO],
                       capture_output=True, text=True)
    if r.returncode != 0:
        return "does not import: " + r.stderr[-200:]
    return None


def restore(mut):
    subprocess.run(["git", "-C", REPO, "checkout", "--", mut["path"]], check=True)


def main():
    only = None
    tests = "--tests" in sys.argv
    for a in sys.argv[1:]:
        if a.startswith("--only="):
            only = set(a[7:].split(","))
    load_extra()
    out_path = "/verif/seeded/mutation_campaign.json"
    results = json.load(open(out_path)) if os.path.exists(out_path) else {}
    subprocess.run(["git", "-C", "/repo", "worktree", "remove", "--force", REPO], capture_output=True)
    subprocess.run(["git", "-C", "/repo", "worktree", "add", "--detach", REPO, "HEAD"], check=True, capture_output=True)
    os.makedirs(OUT + "/evidence", exist_ok=True)
    os.makedirs(OUT + "/replays", exist_ok=True)
    try:
        return campaign(only, tests, results, out_path)
    finally:
        subprocess.run(["git", "-C", "/repo", "worktree", "remove", "--force", REPO], capture_output=True)
        subprocess.run(["rm", "-rf", OUT])


def campaign(only, tests, results, out_path):
    for mut in M:
        if only and mut["id"] not in only:
            continue
        err = apply(mut)
        if err:
            print("%s: SKIPPED (%s)" % (mut["id"], err))
            restore(mut)
            continue
        res = {}
        try:
            for c in mut["checks"]:
                t0 = time.time()
                r = subprocess.run(["./check", c, "--tier", "quick"], cwd="/verif", capture_output=True, text=True,
                                   env=dict(os.environ, VERIF_REPO=REPO, VERIF_EVIDENCE_DIR=OUT + "/evidence",
                                            VERIF_REPLAY_DIR=OUT + "/replays"))
                viol = [l for l in r.stdout.splitlines() if l.startswith("VIOLATION")]
                detail = [l.strip()[:200] for l in r.stdout.splitlines() if "rejected at event" in l][:2]
                res[c] = {"exit": r.returncode, "violations": len(viol), "detail": detail, "wall": round(time.time() - t0, 1)}
            caught = [c for c, v in res.items() if v["exit"] == 1 and v["violations"]]
            tres = None
            if not caught and tests and mut["tests"]:
                r = subprocess.run(["/venv/bin/python", "-m", "pytest", "-q", "-x", "-p", "no:cacheprovider"] + mut["tests"].split(),
                                   cwd=REPO, capture_output=True, text=True)
                tres = r.stdout.strip().splitlines()[-1] if r.stdout.strip() else "?"
        finally:
            restore(mut)
        results[mut["id"]] = {"path": mut["path"], "old": mut["old"], "new": mut["new"], "note": mut["note"],
                              "checks": res, "caught_by": caught, "existing_tests": tres}
        print("%s: %s  %s  %s" % (mut["id"], "CAUGHT by " + ",".join(caught) if caught else "MISSED", mut["note"],
                                   {c: (v["exit"], v["violations"]) for c, v in res.items()}), flush=True)
        if tres:
            print("     existing tests: " + tres)
        merged = json.load(open(out_path)) if os.path.exists(out_path) else {}      # (several instances may run)
        merged[mut["id"]] = results[mut["id"]]
        json.dump(merged, open(out_path, "w"), indent=1)
    return 0


if __name__ == "__main__":
    sys.exit(main())
