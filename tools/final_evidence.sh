#!/bin/sh
# tools/final_evidence.sh - regenerate the committed evidence: every quick check once against /repo itself
# (default evidence / replay directories, seed 0), sequentially; prints one line per check.
cd "$(dirname "$0")/.." || exit 2
unset VERIF_REPO VERIF_EVIDENCE_DIR VERIF_REPLAY_DIR VERIF_SEED VERIF_TIER VERIF_KEEP_REPLAYS
rc=0
for i in 01 02 03 04 05 06 07 08 09 10 11 12 13 14 15 16 17 18 19 20; do
  out=$(./check C$i --tier quick 2>&1); c=$?
  echo "C$i exit=$c $(echo "$out" | grep 'quick:' | tail -1)"
  [ $c -ne 0 ] && { rc=1; echo "$out" | grep -v '^KNOWN' | tail -5; }
done
exit $rc
