#!/bin/sh
# tools/keep_seeded.sh <id> <property> <checks that catch it> <test paths...>
# confirms a seeded change in its scratch worktree /tmp/wt-<id> (demo fails with the change, passes
# without, the given existing tests pass with it) and stores it under /verif/seeded/<id>/
ID="$1"; PROP="$2"; CAUGHT="$3"; shift 3
WT=/tmp/wt-$ID; OUT=/tmp/wt-$ID-out; DST=/verif/seeded/$ID
git -C $WT diff > /tmp/seeded-$ID.diff
[ -s /tmp/seeded-$ID.diff ] || { echo "no change in $WT"; exit 2; }
/venv/bin/python $OUT/demo.py $WT > /tmp/seeded-$ID.with 2>&1; RC_WITH=$?
git -C $WT apply -R /tmp/seeded-$ID.diff
/venv/bin/python $OUT/demo.py $WT > /tmp/seeded-$ID.without 2>&1; RC_WITHOUT=$?
git -C $WT apply /tmp/seeded-$ID.diff
(cd $WT && /venv/bin/python -m pytest -q -p no:cacheprovider "$@" 2>&1 | tail -1) > /tmp/seeded-$ID.tests
echo "$ID: demo with change exit=$RC_WITH, without exit=$RC_WITHOUT; tests: $(cat /tmp/seeded-$ID.tests)"
[ "$RC_WITH" != 0 ] && [ "$RC_WITHOUT" = 0 ] || { echo "NOT CONFIRMED"; exit 1; }
mkdir -p $DST
cp /tmp/seeded-$ID.diff $DST/patch.diff
cp $OUT/demo.py $DST/demo.py
python3 - "$ID" "$PROP" "$CAUGHT" "$RC_WITH" "$RC_WITHOUT" "$*" <<'PY'
import json, sys
i, prop, caught, rcw, rcwo, tests = sys.argv[1:7]
meta = open('/tmp/wt-%s-out/meta.txt' % i).read() if True else ''
json.dump({"id": i, "breaks_property": prop, "description_by_author": meta,
           "confirmed": {"demo_exit_with_change": int(rcw), "demo_exit_without_change": int(rcwo),
                         "existing_tests_run_with_change": tests,
                         "tests_result": open('/tmp/seeded-%s.tests' % i).read().strip(),
                         "how": "git worktree of /repo HEAD under /tmp; demo.py <worktree>; git apply -R / git apply"},
           "caught_by_quick_checks": caught.split(","),
           "how_to_rerun": "/verif/tools/try_patch.sh /verif/seeded/%s/patch.diff %s" % (i, caught.replace(",", " "))},
          open('/verif/seeded/%s/meta.json' % i, 'w'), indent=1)
PY
