#!/usr/bin/env python3
"""Regenerates /verif/MANIFEST.json from the table below (kept valid at all
times: validated against /root/.vp/MANIFEST.schema.json when available)."""

import json
import os

HERE = os.path.dirname(os.path.dirname(os.path.abspath(__file__)))

BASELINE = ("cd /repo && /venv/bin/python -m pytest -ra -q -p no:cacheprovider --timeout=900 "
            "--continue-on-collection-errors")

TRUST = ("TLC 1.8 (tla2tools) evaluates the modules correctly; the abstraction functions in harness/abstraction.py "
         "(exercised by the binding demos in selftest/); numpy's MT19937 streams; the registry of documented "
         "preconditions in harness/zoo.py")

# property id -> (technique, level text, design ref, level note)
CLAIMED = {
    "C18": ("TLA+ modules Selection/RandArg: TLC exhaustive model checking + TLC-generated cases replayed into "
            "simple_batch/rand_argmax/rand_argmin + TLC batch trace validation of every observed outcome",
            "TLC checks the pick/mask/clip state machine of simple_batch and the optimum relation of rand_argmax/"
            "rand_argmin for all arrays up to length 4-5 (2x3 for 2-D) over a value domain with NaN, ties and "
            "negative values; every initial state of the model is concretised (incl. +-inf, neighbouring floats, 2-D "
            "arrays), executed on the real functions under enough seeds to reach every tied optimum, and every "
            "observed outcome must be a behaviour of the specification (exact optimum, distinctness, row masks, "
            "order, count, positive weight, same seed => same result, all ties reachable).",
            "DESIGN.md 5 (C18)", TRUST),
    "C03": ("TLA+ modules Budget/MC_Budget (QueryPureInv) + BudgetTrace (exact state equality after every query) + "
            "StreamProto (digest of the complete committed state, twin run without the extra queries) validated by TLC "
            "on recorded histories",
            "TLC explores every interleaving of query/repeated query/update over all chunkings of adversarial utility "
            "streams for each manager kind and checks that nothing but update changes the committed state; histories of "
            "every budget manager and every exported stream strategy (default and explicit managers) with inserted "
            "repeated and foreign queries are recorded from the real code and every event is validated by TLC: the "
            "projected state (exact rationals / generator position, or a digest of all fitted attributes incl. nested "
            "budget_manager_ and RandomState) must be unchanged by query, repeated queries must agree, and all later "
            "results and states must equal those of the twin run without the extra queries.",
            "DESIGN.md 5 (C03)", TRUST),
    "C04": ("TLA+ module Budget: NoOverspend/UBound invariants model-checked by TLC at every prefix for adversarial "
            "streams and all chunkings; BudgetTrace/StreamProto trace validation of real managers and strategies "
            "(exact guard semantics in the dyadic regime, counting bound on long streams)",
            "TLC checks the bound at every prefix (inside chunks too) against an adversarial environment that chooses "
            "every utility, random outcome and chunking, for each bounded manager kind over a (w, budget) grid; the "
            "real managers are bound to the model by exact trace validation (every grant decision must equal the "
            "specification's decision, including exact equality at the guard) and by long-stream traces of all managers "
            "and strategies whose grant counts are checked against the bound at every prefix by TLC.",
            "DESIGN.md 5 (C04)", TRUST),
    "C10": ("TLA+ module Budget: SimEqualsCommit/ChunkInvariant (shadow one-at-a-time run) model-checked by TLC; "
            "BudgetTrace validates every chunking of the same stream against the per-instance folds; StreamProto "
            "validates that update accepts every query result",
            "TLC proves on the model that committing a chunk equals the simulation and the one-instance-at-a-time run "
            "for all chunkings (and that the code-shaped Stale deviation violates it); the real managers and baseline "
            "strategies are replayed under every composition of a stream into chunks and each query/update event must "
            "be exactly the step the per-instance specification computes (decisions, u_t_, theta_, counters, windows, "
            "generator position); for all 13 stream strategies update must accept what query returned, indices must be "
            "strictly increasing in range and utilities have one entry per candidate.",
            "DESIGN.md 5 (C10)", TRUST),
    "C01": ("TLA+ modules PoolQuery (validate/transform/score/pick pipeline) and Selection model-checked by TLC; "
            "TLC-generated pool scenarios (PoolGen) replayed into every registered pool strategy configuration; every "
            "call validated as a PoolTrace behaviour by TLC",
            "TLC checks that the reference pipeline returns exactly min(batch_size, #candidates) distinct candidate ids "
            "for all labeled sets, candidate modes/subsets, batch sizes and adversarial tied scorings (N<=3/4); every "
            "exported pool strategy (x methods, two model variants) is then executed on a seeded sample of the "
            "TLC-enumerated scenarios (all labeled sets of pools of 2-5 samples, None / index subsets / arbitrary index "
            "sets / feature rows, batch sizes up to #candidates+1, duplicated and identical points, cold start) and each "
            "result is validated event by event by TLC (1-D integer array, count, distinctness, membership in the "
            "candidate set, termination under a watchdog).",
            "DESIGN.md 5 (C01)", TRUST),
    "C02": ("same modules and scenario generator as C01; PoolTrace Step events carry every utility row as "
            "sign-preserving ranks and TLC checks the row clauses",
            "For every recorded query with return_utilities=True TLC checks: one row per selected sample, row width = "
            "len(X) or number of candidate rows, NaN exactly at non-candidates and at samples chosen in earlier steps, a "
            "number at the chosen sample, which attains the row maximum (maximising strategies; exact float order, any "
            "tie allowed) or has strictly positive mass (sampling strategies). The same relation is model-checked on "
            "PoolQuery/Selection for all tie patterns in the small scope.",
            "DESIGN.md 5 (C02)", TRUST),
    "C14": ("TLA+ module ALLoop (query/reveal loop; invariants OnlyUnlabeled, NeverTwice, ExhaustedExactly, "
            "termination under weak fairness) model-checked by TLC; whole loops of every registered strategy "
            "configuration recorded and validated as ALLoopTrace behaviours",
            "TLC explores every loop over pools of up to 4-5 samples (all initial labelings, batch sizes and valid "
            "batches per cycle); the README loop is then run with one strategy object per loop (state kept between "
            "cycles is part of the history) for every exported pool strategy on TLC-enumerated initial labelings from "
            "zero labels to one unlabeled sample, batch sizes up to #unlabeled+1, degenerate geometries and two oracle "
            "patterns, and TLC validates the whole history: every batch only contains still unlabeled samples, nothing "
            "is queried twice, and the pool is exhausted after exactly ceil(u/batch_size) queries.",
            "DESIGN.md 5 (C14)", TRUST),
    "C05": ("TLA+ module Frame (frame condition of Query as an action property) model-checked by TLC; FrameTrace "
            "validates digests of caller arrays, model argument and get_params before/after every query of 1-3 call "
            "histories, pickling and clone-vs-fresh behaviour",
            "Every registered pool strategy configuration (incl. lazily resolved None defaults and caller-owned dict "
            "parameters) is driven through histories of 1-3 consecutive queries chosen from TLC-enumerated scenarios; "
            "after each call TLC compares the ids of SHA-1 digests of X, y, candidates, sample_weight, utility_weight, "
            "of the model argument (deep parameters and fitted attributes) and of the strategy's deep parameters with "
            "those before the call, requires pickle.dumps to succeed, and requires a clone of the used strategy to "
            "return what a freshly constructed strategy returns.",
            "DESIGN.md 5 (C05)", TRUST),
    "C07": ("TLA+ module MultiAnnot (validate/rank/assign/pick state machine of the single-annotator wrapper; PairsOK, "
            "PerSampleOK, termination under weak fairness; deviation switch RankAny) model-checked by TLC; "
            "TLC-generated scenarios (MultiAnnotGen) replayed into SingleAnnotatorWrapper and "
            "IntervalEstimationThreshold; every call validated by MultiAnnotTrace",
            "TLC checks the reference assignment for all availability matrices up to 3x2, batch sizes and preferences "
            "(distinct available pairs, clipped batch size, per-sample counts, termination) and shows that ranking rows "
            "without available annotators (the code-shaped deviation) yields a non-terminating loop; the real "
            "strategies are run on TLC-generated scenarios covering the candidate x annotator modes (None, index "
            "arrays, Boolean matrices, feature rows incl. repeated rows), TLC-drawn label-missing patterns, batch sizes and "
            "n_annotators_per_sample, with A_perf None/per-annotator/per-pair, and each result is validated by TLC: "
            "shape (k,2), distinct available pairs, k = clipped batch size, utilities NaN at unavailable and earlier "
            "pairs, per-sample counts; a watchdog turns non-termination into an unmatched event.",
            "DESIGN.md 5 (C07)", TRUST),
    "C08": ("TLA+ module Addressing (mapping/scatter bookkeeping of the three candidate addressings, ModeEquiv; "
            "deviation PositionInsteadOfId) model-checked by TLC; paired observations of the real strategies validated "
            "by EquivTrace",
            "TLC checks on the model that a sample's reported utility is the same under candidates=None, index "
            "candidates in any order and feature rows for all pools up to 4 samples and all score functions, and that "
            "indexing by candidate position instead of sample identity breaks it; every registered strategy is then "
            "queried on TLC-enumerated scenarios under the three addressings (and, for strategies that score samples "
            "independently, under random index subsets in shuffled order and under row permutations of (X, y)); TLC "
            "compares the first-step utilities per sample identity in fixed point and the selection whenever the "
            "best utility is unique.",
            "DESIGN.md 5 (C08)", TRUST),
    "C20": ("TLA+ module Wrappers (sub-sample / reduce / inner query / retranslate index algebra; deviation Unsorted) "
            "model-checked by TLC; WrappersTrace validates the recorded inner call against the wrapper's result; "
            "EquivTrace validates the parallel wrapper against the wrapped strategy",
            "TLC checks the index-space algebra of the sub-sampling wrapper for all pools up to 4 samples (sub-sample "
            "of the documented size, wrapped utilities on it, -inf on other candidates, NaN elsewhere, selection from "
            "the sub-sample) and that dropping the sort breaks it; on the real code the call the wrapper makes to "
            "the wrapped strategy is recorded and TLC validates the wrapper's result against it in the caller's index "
            "space for None / index / feature-row candidates, integer and fractional max_candidates and both "
            "exclude_non_subsample settings; the parallel wrapper's utilities and selection are compared with the "
            "wrapped strategy's for n_jobs in {1,2,3,-1}; SingleAnnotatorWrapper's sample order is compared with the "
            "wrapped strategy's ranking.",
            "DESIGN.md 5 (C20)", TRUST),
    "C06": ("TLA+ module Determinism (twin objects, private streams, process-global generator; memo of results per "
            "(arguments, own history); deviation UsesGlobal) model-checked by TLC over all interleavings; TLC-enumerated "
            "schedules (DetGen) executed on twin objects and validated by DetTrace",
            "TLC checks that results keyed by (arguments, own history index) are reproducible across all interleavings "
            "of up to 3 calls per twin with reseeding/advancing of the global generator, and that a dependency on the "
            "global generator violates it; each TLC-enumerated schedule (calls on twin A / twin B, np.random.seed with "
            "two seeds, np.random.random) is executed for every pool strategy configuration, stream strategy, budget "
            "manager, classifier and regressor on inputs with ties (duplicated / identical points, cold start), and TLC "
            "applies the memo clause to the digests of the complete results.",
            "DESIGN.md 5 (C06)", TRUST),
    "C09": ("TLA+ module Encoding (order-preserving class renamings and sentinels commute with the label encoder: "
            "EncodingInvariant, RoundTrip, DeclaredIsIdentity) model-checked by TLC; paired observations of the real "
            "strategies and classifiers under 4-7 encodings validated by EquivTrace",
            "TLC checks on the model that the internal integers produced by the label encoder do not depend on the "
            "strictly increasing renaming of the classes nor on the sentinel, for all label arrays up to length 4 over "
            "3 classes and all renamings into a code set with negative numbers; every classification pool strategy "
            "configuration (on TLC-enumerated pool scenarios) and every classifier of the package is then run on the "
            "same abstract scenario under float/NaN, int/-1, 10-20/-1, 10.0-20.0/NaN, str/'unlabeled', object/None and "
            "negative-int/99 encodings with missing_label and classes set consistently, and TLC compares utilities per "
            "sample, the selected sample, predict_proba per (probe, class index), the index of the predicted class and "
            "the order of classes_ with the first encoding.",
            "DESIGN.md 5 (C09)", TRUST),
    "C11": ("TLA+ module Classify (decision layer: declared/sorted classes, frequencies + prior -> probabilities with "
            "uniform fallback -> expected cost under the permuted cost matrix -> argmin -> decoding; sklearn-wrapper "
            "column re-mapping and fallbacks) model-checked by TLC; TLC-generated cases replayed exactly into "
            "ParzenWindowClassifier(metric='precomputed') and SklearnClassifier(DummyClassifier); ClassifyTrace also "
            "monitors the numeric classifiers",
            "TLC checks Simplex, Order, CostSemantics, PredictInClasses, PredictMinimisesCost, TieFair and "
            "UniformNoLabels for all K<=3 class orders, seen subsets, frequency rows, priors and cost matrices in the "
            "small scope; the cases are replayed under three label encodings into classifiers whose frequencies are "
            "exact (precomputed-kernel Parzen window, prior dummy) - predict_freq, predict_proba as rationals, predict, "
            "classes_ and cost_matrix_ must equal the specification - and the numeric classifiers (GaussianNB / "
            "LogisticRegression wrappers with fit and partial_fit, kernel PWC, mixture model, sliding window, annotator "
            "ensemble, annotator logistic regression) are monitored on fixed-point outputs: finite, non-negative, rows "
            "summing to one, zero mass on unseen declared classes, uniform without labels, prediction of minimal cost "
            "rank.",
            "DESIGN.md 5 (C11)", TRUST + "; the numerics that produce the probabilities are not modelled (DESIGN 9)"),
    "C15": ("TLA+ module Regress (case table over regressor kind x number of labels x prior class x flags with the "
            "call protocol Fit/Dist/Predict/Sample) checked by TLC for totality and consistency; every case realised on "
            "the real regressors and validated by RegressTrace",
            "TLC checks that the requirement table is total, has no dead row and is consistent, and the protocol "
            "invariants (Coherent, StdFinite, Fallback, SampleShape); each of the 78 cases is realised with several data "
            "sets on NICKernelRegressor, NadarayaWatsonRegressor, SklearnRegressor and SklearnNormalRegressor and TLC "
            "checks on band-encoded observations: predict equals the mean (std, entropy, tuple arity by flags) of "
            "predict_target_distribution, std finite and non-negative where required, sample_y shape and "
            "reproducibility, documented fallbacks.",
            "DESIGN.md 5 (C15)", TRUST + "; the posterior numerics are not modelled (DESIGN 9)"),
    "C16": ("TLA+ module Labels (missing-label predicates, index enumeration, ExtLabelEncoder fit/transform/inverse, "
            "accept/reject table of check_missing_label) model-checked by TLC; TLC-enumerated arrays concretised over the "
            "dtype x sentinel x renaming grid and validated by LabelsTrace",
            "TLC checks Complement, IndexOrder, Sorted, Encoding, RoundTrip on all 1-D arrays up to length 4 (6 thorough) "
            "incl. empty and 2-D arrays up to 2x3 over K<=3 classes with and without explicit classes; each TLC case is "
            "concretised under float/int/str/object dtypes, seven sentinels (NaN, None, -1, reserved numbers, '', "
            "reserved strings) and three order-preserving renamings, as ndarray or nested list, executed on is_labeled, "
            "is_unlabeled, labeled_indices, unlabeled_indices, ExtLabelEncoder.fit/transform/inverse_transform/"
            "fit_transform and check_missing_label, and every projected result (or TypeError) must be the step the "
            "specification allows.",
            "DESIGN.md 5 (C16)", TRUST),
    "C17": ("TLA+ module Aggregation (vote vectors, majority vote with any maximal class, per-annotator confusion "
            "counts and normalisations as exact rationals) model-checked by TLC; TLC-generated cases replayed under "
            "several encodings and validated by AggregationTrace",
            "TLC checks the counting identities of vote vectors, the majority-vote conditions and the confusion "
            "count / normalisation identities on small label matrices with integer weights; TLC-enumerated cases plus "
            "random larger matrices are executed on compute_vote_vectors, majority_vote (several seeds) and "
            "ext_confusion_matrix (all four normalisation modes) under float/NaN, int/-1, str and object encodings, "
            "observed values are logged as exact rationals and TLC recomputes and compares them (membership in the "
            "set of maximal classes for majority votes).",
            "DESIGN.md 5 (C17)", TRUST),
    "C19": ("TLA+ module IndexWrapper (bookkeeping state machine of IndexClassifierWrapper: cur/base triples, "
            "segments for native partial_fit, refusals, kernel coverage; invariants LatestWins, NothingDropped, "
            "BaseIsCopy, BaseStable, RefusalPure) model-checked by TLC; TLC behaviours (exhaustive depth 2-3 and "
            "-simulate walks) replayed into the real wrapper and validated by IndexWrapperTrace",
            "TLC explores call sequences to depth 4-5 over fit / partial_fit (from current or base model, with and "
            "without enforcing unique samples) / precompute / predict with label overrides and weights; each TLC "
            "behaviour is replayed into IndexClassifierWrapper around ParzenWindowClassifier variants, "
            "SklearnClassifier(GaussianNB) (native partial_fit) and SklearnClassifier(LogisticRegression) for all flag "
            "and prefit combinations, and after every call TLC checks that the projected idx/label/weight state "
            "equals the specification's, that calls raise exactly where the specification refuses them, that "
            "predict / predict_proba / predict_freq equal a fresh reference classifier trained on the implied "
            "training multiset (fixed point, +-2 units), and that the precomputed-kernel speed-up equals the run "
            "without it.",
            "DESIGN.md 5 (C19)", TRUST),
    "C12": ("TLA+ module FitModel (abstract model = bag of labeled (sample, annotator, label, weight) entries; "
            "FitIgnoresUnlabeled; deviation FitOnAll) model-checked by TLC; TLC-enumerated pairs of data sets with equal "
            "labeled part fitted on the real estimators and validated by FitModelTrace",
            "TLC checks that the abstract fitted model depends on the labeled part only for all data sets over 2 ids x "
            "labels x weights and that fitting on all rows (the code-shaped deviation) violates it; TLC enumerates pairs "
            "(D, E) with equal labeled part (unlabeled samples added / dropped / permuted, their weights changed, the "
            "labeled subset alone, two-annotator variants) and each pair is fitted on fresh objects of SklearnClassifier "
            "/ SklearnRegressor / SklearnNormalRegressor around several estimators, ParzenWindowClassifier with fixed "
            "bandwidth, NICKernelRegressor, NadarayaWatsonRegressor and AnnotatorLogisticRegression; TLC recomputes the "
            "labeled bags and requires band-encoded predictions on probe points to agree (a fit that raises is an "
            "outcome like any other).",
            "DESIGN.md 5 (C12)", TRUST),
    "C13": ("TLA+ module FitModel (params / caller-owned dicts / model / window; ParamsFrame, HistoryFree, Window; "
            "deviations WriteBack, StaleWindow) model-checked by TLC; TLC-generated call histories replayed on every "
            "classifier, regressor, budget manager and stream strategy and validated by FitModelTrace",
            "TLC checks on the model that only SetParams changes what get_params reports, that a fit after any history "
            "equals the fit of a fresh clone and that the sliding-window model is the fit on the last window_size "
            "samples, and that the code-shaped deviations violate these; TLC histories (depth 3-4 over fit, "
            "partial_fit, predict, query, update, set_params on three data sets) are replayed on 31 estimator "
            "configurations and 53 budget-manager / stream-strategy configurations incl. symbolic defaults and "
            "caller-owned dicts; after every call TLC compares the digest ids of every get_params(deep=True) entry and "
            "of every caller-owned object, and after every training call the band-encoded predictions with those of a "
            "clone of the unfitted prototype that received exactly the calls the specification prescribes; for the "
            "wrappers around scikit-learn estimators (also around estimators the caller has fitted) additionally with "
            "the predictions of the wrapped estimator driven directly on the labeled rows of the same calls "
            "(DESIGN.md 11.2).",
            "DESIGN.md 5 (C13), 11.2", TRUST),
}

NOT_YET = {}


def main():
    props = [json.loads(l) for l in open(os.path.join(HERE, "properties.jsonl"))]
    na_file = os.path.join(HERE, "tools", "not_applicable.json")
    na = json.load(open(na_file)) if os.path.exists(na_file) else {}
    checks = []
    not_applicable = []
    for p in props:
        pid = p["id"]
        if pid in CLAIMED:
            tech, text, ref, note = CLAIMED[pid]
            checks.append({
                "property_id": pid,
                "quick_cmd": "./check %s --tier quick" % pid,
                "thorough_cmd": "./check %s --tier thorough" % pid,
                "evidence_file": "/verif/evidence/%s.json" % pid,
                "replay_cmd_template": "./check %s --replay {path}" % pid,
                "engine": "tlc",
                "level_claimed": {"category": "model_checking", "text": text, "design_ref": ref},
                "level_note": note,
                "technique": tech,
            })
        else:
            not_applicable.append({"property_id": pid, "reason": na.get(
                pid, "specification module and conformance driver for this property are not built yet; an unbound "
                     "model-checking run alone is never reported as evidence for the code (DESIGN.md 10)")})
    man = {
        "version": 1,
        "setup_cmd": "./setup.sh",
        "hooks": {
            "guard": "SKACTIVEML_VERIF",
            "enable": "no source hooks are needed so far: the checks import /repo's working tree directly "
                      "(sys.path[0]=/repo) and observe it through public calls; SKACTIVEML_VERIF=1 is exported by the "
                      "harness for any future add-only hook",
            "baseline_off_cmd": BASELINE,
            "source_commits": [],
            "add_only": True,
        },
        "engines": [{
            "name": "tlc",
            "path": "/verif/harness/tlc.py",
            "serves_properties": sorted(CLAIMED),
            "kind_free_text": "explicit TLA+ specification family under /verif/spec checked with TLC (exhaustive "
                              "small-scope model checking, case/behaviour generation, batch trace validation of "
                              "executions of the real code); Apalache for the unbounded C04 inductive bound",
        }],
        "checks": checks,
        "notes": "All verdicts are produced by TLC: a rejected trace step or a violated invariant. Python drivers only "
                 "concretise TLC-generated cases, call the real code from /repo's working tree, project results with "
                 "the abstraction functions and hand the traces to TLC. Exit 2 = machinery failure (never a verdict). "
                 "Known findings: /verif/known_findings.json.",
        "not_applicable": not_applicable,
    }
    with open(os.path.join(HERE, "MANIFEST.json"), "w") as f:
        json.dump(man, f, indent=1)
    try:
        import jsonschema

        jsonschema.validate(man, json.load(open("/root/.vp/MANIFEST.schema.json")))
        print("MANIFEST.json valid; claimed:", sorted(CLAIMED))
    except ImportError:
        print("MANIFEST.json written (jsonschema not available for validation)")


if __name__ == "__main__":
    main()
