#!/usr/bin/env python3
"""selftest/run.py [Cxx ...]  - binding demo for every trace specification (not a registered check).

For each given check (default: all of C01..C20 and the extras X01..X08) the quick tier is run once with
VERIF_DUMP_TRACES, which keeps a sample of the traces each trace module validated.  Then, per module:

  1. the sampled traces are validated again        -> all must be accepted (or be listed known findings);
  2. single-field corruptions of accepted traces   -> one integer leaf +1 (NaN code -> 0), one Boolean flipped,
     or one event renamed, each validated by TLC in its own run; a corrupted trace must be rejected (a clause
     fails, no action matches, or TLC cannot evaluate the malformed record).

The rejection rate per module is the binding strength: fields that the specification does not constrain (free
identifiers, history tags) are the accepted corruptions.  A module whose corruptions are ALL accepted, or whose
renamed events are accepted, is vacuous: exit 1.  The report is written to selftest/report.json."""
import json
import os
import random
import subprocess
import sys
import tempfile
from concurrent.futures import ThreadPoolExecutor

HERE = os.path.dirname(os.path.abspath(__file__))
VERIF = os.path.dirname(HERE)
sys.path.insert(0, VERIF)
from harness import tlc  # noqa: E402

NAN = -1000000


def leaves(obj, path=()):
    if isinstance(obj, dict):
        for k, v in obj.items():
            yield from leaves(v, path + (k,))
    elif isinstance(obj, list):
        for i, v in enumerate(obj):
            yield from leaves(v, path + (i,))
    elif isinstance(obj, bool) or isinstance(obj, int):
        yield path, obj


def set_at(obj, path, val):
    for k in path[:-1]:
        obj = obj[k]
    obj[path[-1]] = val


def corruptions(trace, rng, n):
    out = []
    evs = trace["events"]
    if not evs:
        return out
    cand = [(("events", i) + p, v) for i, e in enumerate(evs) for p, v in leaves(e)]
    rng.shuffle(cand)
    for path, v in cand[:n]:
        t = json.loads(json.dumps(trace))
        new = (not v) if isinstance(v, bool) else (0 if v == NAN else v + 1)
        set_at(t, path, new)
        out.append(("field " + "/".join(map(str, path[1:])), t))
    t = json.loads(json.dumps(trace))
    i = rng.randrange(len(evs))
    t["events"][i]["ev"] = t["events"][i]["ev"] + "X"
    out.append(("event %d renamed" % i, t))
    return out


def verdict(module, cfg, trace):
    """'accepted' | 'rejected' | 'unevaluable'"""
    with tlc.Scratch() as scratch:
        path = os.path.join(scratch, "t.json")
        with open(path, "w") as f:
            json.dump([trace], f)
        res = tlc.run_tlc(module, cfg, workers=1, env={"TRACE_FILE": path}, timeout=600, scratch=scratch, heap="1g")
    val = res.tagged("VALIDATED")
    if not res.ok or not val:
        return "unevaluable"
    return "rejected" if res.tagged("REJECT") else "accepted"


def main():
    checks = [a.upper() for a in sys.argv[1:]] or ["C%02d" % i for i in range(1, 21)] + ["X01", "X02", "X03", "X04", "X05", "X06", "X07", "X08"]
    rng = random.Random(0)
    report, bad = {}, []
    with tempfile.TemporaryDirectory(prefix="skaml-selftest-") as tmp:
        dump = os.path.join(tmp, "dump")
        os.makedirs(dump)
        env = dict(os.environ, VERIF_DUMP_TRACES=dump, VERIF_EVIDENCE_DIR=os.path.join(tmp, "ev"),
                   VERIF_REPLAY_DIR=os.path.join(tmp, "rp"))
        for c in checks:
            r = subprocess.run([os.path.join(VERIF, "check"), c, "--tier", "quick"], env=env, capture_output=True, text=True)
            print("%s quick exit=%d" % (c, r.returncode), flush=True)
        for fn in sorted(os.listdir(dump)):
            d = json.load(open(os.path.join(dump, fn)))
            module, cfg, traces = d["module"], d["cfg"], d["traces"]
            with ThreadPoolExecutor(max_workers=12) as ex:
                base = list(ex.map(lambda t: verdict(module, cfg, t), traces[:24]))
            good = [t for t, v in zip(traces[:24], base) if v == "accepted"]
            jobs = []
            for t in good[:8]:
                jobs += corruptions(t, rng, 4)
            with ThreadPoolExecutor(max_workers=12) as ex:
                res = list(ex.map(lambda j: verdict(module, cfg, j[1]), jobs))
            n_rej = sum(1 for v in res if v != "accepted")
            ren = [v for (what, _), v in zip(jobs, res) if what.endswith("renamed")]
            accepted_fields = sorted({what.split(" ", 1)[1].split("/", 1)[-1] for (what, _), v in zip(jobs, res)
                                      if v == "accepted" and what.startswith("field")})
            report[module] = {"sampled": len(traces[:24]), "accepted_originals": len(good), "corruptions": len(jobs),
                              "rejected": n_rej, "unevaluable": sum(1 for v in res if v == "unevaluable"),
                              "renamed_event_rejected": "%d/%d" % (sum(1 for v in ren if v != "accepted"), len(ren)),
                              "fields_whose_corruption_was_accepted": accepted_fields}
            print("%-22s originals accepted %d/%d; corruptions rejected %d/%d; accepted fields: %s" % (
                module, len(good), len(traces[:24]), n_rej, len(jobs), ", ".join(accepted_fields) or "-"), flush=True)
            if good and (n_rej == 0 or any(v == "accepted" for v in ren)):
                bad.append(module)
    json.dump(report, open(os.path.join(HERE, "report.json"), "w"), indent=1)
    if bad:
        print("VACUOUS trace modules: " + ", ".join(bad))
        return 1
    return 0


if __name__ == "__main__":
    sys.exit(main())
